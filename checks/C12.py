"""C12 -- HTM matching: exact post-filter, cover/filter agreement, candidate
map, grouping / ordering / truncation, file and memory outputs, python
normalisation and delegation, separation formula."""
import ast
import math

import sympy as sp

from vcheck import cfront, csymx, cstr, rules
from vcheck.core import PyRepo, AnalysisError, call_name, const_value, dotted_name, kwarg, norm, walk_no_nested
from vcheck.cfront import callee_name, render, strip, walk

MANIFEST = dict(
    text="Structural rules over the clang AST of htmc.cc and the Python ast of htm.py (not a behavioural proof; the geometric "
         "completeness of the triangle cover is not decided): (1) none extra: every recorded pair is control dependent on "
         "`dis <= rad` where dis = gcirc(<input point i>, <member point k>, degrees) with longitude/latitude roles matched and rad "
         "is the radius of input point i in degrees (element 0 for a single radius, element i otherwise); the record is (i, k, dis); "
         "(2) cover/filter agreement: the cap handed to the triangle intersection is cos(rad * pi/180) of the same rad about the same "
         "point, recomputed whenever rad changes, and candidates are taken from both the full and the partial triangle list and "
         "looked up in the id -> members map; (3) the map files every member index exactly once under the id of its own position, "
         "from the same interface object (same depth) that the intersection uses; (4) groups follow the input order, the per-input "
         "pair list is fresh, sorting by ascending separation precedes truncation, truncation happens only for maxmatch > 0 and "
         "keeps the first maxmatch; (5) file and memory outputs emit the same three items per pair from the same loop; the "
         "fprintf format agrees with the pair reader's dtype and delimiter; output arrays are int64/int64/float64 filled in order; "
         "(6) python: wherever a coordinate / radius argument is handed to the compiled extension (followed through the functions and methods "
         "of the module it is passed to) it is a native float64 ndarray with at least one dimension on every path (abstract interpretation over a "
         "finite domain of array kinds; a dtype test counts only if it implies native byte order), the arrays the C++ Matcher keeps are private copies, "
         "an array that the C++ side walks through its bare data pointer instead of its strides is a new contiguous array; sizes are checked; the compiled "
         "Matcher the one-shot method constructs - every one of them - receives (own depth, ra2, dec2) and each value returned is what the compiled match gives for "
         "(ra1, dec1, radius, maxmatch, checked file name), whichever python entry points of the Matcher class are used on the way; "
         "(7) the separation is identically 0 for identical points, in degrees, equals the great-circle formula and is computed "
         "by a small-angle-stable form (not the arc cosine of a cosine: its error 1.1e-16/theta exceeds the property's 1e-9 "
         "degree margin below 4e-4 degrees, and radii down to 1e-6 degrees are in the quantifier); (8) none missing, necessary conditions: "
         "no condition computed from the points' coordinates other than the separation test (and the latitude bound it implies) decides "
         "whether a candidate is recorded; per-point radius and cap are not used before their assignment of the same iteration; every "
         "loop that hands pairs to the file or the result vectors is bounded by the kept count; in the vendored cover code a two-vertex "
         "helper applied to a triangle's vertices is applied to all three edges; a method that handles a stored node (a position in the node array) hands only the "
         "node's HTM id to the result lists, directly or through the id argument of the methods that pass it on, and searches all four stored children whatever a "
         "sibling answered (an early exit is accepted - as undecided - only if the answer that triggers it is produced solely under a failed edge-crossing test); "
         "each once, necessary condition: in a cover method that works on one triangle (a stored node position or an HTM id parameter that reaches the result lists) a call that "
         "hands the whole triangle over is on no control-flow path together with another call that hands over the same triangle or one of its children; "
         "the triangle lists searched for input point i are filled by an intersection of the same iteration (a kept cover is reused only under a condition that depends on "
         "longitude, latitude AND radius of the point), and no loop over the candidate triangles is left early on a condition on the candidate in hand; the edge/circle "
         "quadratic (eSolve) answers 'no crossing' on the ground of its discriminant only where the discriminant is negative (no positive absolute bound, no additive offset).",
    note="Not decided: none missing / each once for the vendored HTM library (SpatialDomain/SpatialIndex triangle cover), "
         "depth independence, rounding of cos(rad) in the cover for tiny radii. Trusted: clang AST, SWIG naming convention "
         "(proxy method arguments in C++ order), std::sort, LP64.",
    technique="static analysis: control dependence and reaching definitions on the clang-AST CFG, argument-role provenance, printf-format vs reader-dtype agreement, symbolic normal form of the separation formula",
)

H = "esutil.htm.htm."


# rules that keep their verdict however the code is laid out (decided by term equality, effect analysis or dominance over
# resolved calls); every other rule of this check is a template rule (vcheck.core.Check.obt)
SEMANTIC = ('R12.1', 'R12.2', 'R12.3::init_hmap::member-filed-under-own-id', 'R12.4::match::every-emitted-group-is-ordered', 'R12.4::match::every-output-loop-keeps-maxmatch', 'R12.4::match::truncate-only-positive-maxmatch', 'R12.4::PAIR_INFO_ORDERING', 'R12.7', 'R12.8', 'R12.9')


def run(chk):
    repo = PyRepo(inline=True)
    chk.set_templates(repo, semantic=SEMANTIC)
    chk.explanation = MANIFEST["text"]
    chk.trusted = ["clang 14 AST", "SWIG naming convention", "std::sort", "CPython ast", "sympy normaliser"]
    chk.floor = 55
    decls = cfront.load_tu("htmc")
    fs = cfront.functions(decls)
    set_tu(decls, fs)
    for nm in ("Matcher::match", "Matcher::init_hmap", "Matcher::Matcher", "gcirc", "PAIR_INFO_ORDERING::operator()"):
        if nm not in fs:
            raise AnalysisError("C++ anchor %s not found in htmc.cc" % nm)
        chk.analysed_unit("htmc.cc:" + nm)
    m = MatchFn(chk, fs["Matcher::match"])
    m.fs = fs
    m.filter_rule()
    m.cover_rule()
    m.order_rule(fs["PAIR_INFO_ORDERING::operator()"])
    m.emit_rule()
    hmap_rule(chk, fs)
    gcirc_rule(chk, fs["gcirc"], decls)
    python_rules(chk, repo, m)
    quadtree_rule(chk)
    fill_children_rules(chk)
    node_walk_rules(chk)
    triangle_edge_rule(chk)
    edge_crossing_rule(chk)


# ---------------------------------------------------------------------------
# helpers on clang nodes
# ---------------------------------------------------------------------------
def ref_desc(n):
    """('param'|'local'|'member', name) of a variable reference"""
    n = strip(n)
    k = n.get("kind")
    if k == "DeclRefExpr":
        rd = n.get("referencedDecl", {})
        return ("param" if rd.get("kind") == "ParmVarDecl" else "local", rd.get("name"))
    if k == "MemberExpr":
        inner = n.get("inner") or []
        if inner and strip(inner[0]).get("kind") == "CXXThisExpr":
            return ("member", n.get("name"))
    return (None, render(n))


HELPERS = {}      # functions of the translation unit (set by run): lets array_read see through small accessor helpers
GLOBALS = {}      # file-level constants of the translation unit: name -> initialiser expression


def set_tu(decls, fs):
    """remember the translation unit's own free functions and file-level constants (used by array_read and LowerH)"""
    HELPERS.clear()
    HELPERS.update({k: v for k, v in fs.items() if "::" not in k})
    GLOBALS.clear()
    for d in decls:
        if d.get("kind") == "VarDecl" and d.get("name") and init_of(d) is not None and "const" in (d.get("type") or {}).get("qualType", ""):
            GLOBALS[d["name"]] = init_of(d)


class LowerH(csymx.Lower):
    """csymx.Lower that also reads: a call of one of the translation unit's own free functions whose body lowers to return terms (the
    term with the arguments substituted stands for the call: conversion helpers like deg2rad(x), cos_radius(x, true)), file-level
    constants (their initialiser), and C++ bool literals"""

    def __init__(self, fn, symbols=None, depth=0):
        csymx.Lower.__init__(self, fn, symbols)
        self.depth = depth

    def expr(self, n):
        k = n.get("kind")
        if k == "CXXBoolLiteralExpr":
            return sp.Integer(1 if n.get("value") else 0)
        if k == "CallExpr":
            name = callee_name(n)
            h = HELPERS.get(name) if name and name not in csymx.MATH else None
            if h is not None and h.get("kind") == "FunctionDecl" and cfront.has_body(h) and self.depth < 4:
                ps = cfront.params_of(h)
                args = [self.expr(a) for a in cfront.call_args(n)]
                if len(ps) == len(args):
                    try:
                        L = LowerH(h, depth=self.depth + 1)
                        for p_, a_ in zip(ps, args):
                            L.env[p_] = a_
                        t = csymx.merged_return(L.run(cfront.body_of(h).get("inner", []) or []))
                        if t is not None:
                            return t
                    except (AnalysisError, TypeError, ValueError, KeyError):
                        pass
                return sp.Function(name)(*args)
        if k == "DeclRefExpr":
            nm = n.get("referencedDecl", {}).get("name")
            if nm not in self.env and nm in GLOBALS and n.get("referencedDecl", {}).get("kind") == "VarDecl" and self.depth < 6:
                try:
                    G = LowerH(self.fn, depth=self.depth + 1)
                    G.env = {}
                    return G.expr(GLOBALS[nm])
                except (AnalysisError, TypeError, ValueError, KeyError):
                    pass
        return csymx.Lower.expr(self, n)


def lower_function_h(fn):
    L = LowerH(fn)
    return L.run(cfront.body_of(fn).get("inner", []) or []), L


def stmt_terms_h(fn):
    """[(variable, term)] for every plain assignment and every initialised declaration of the function, each right-hand side lowered on
    its own with all variables left symbolic"""
    L = LowerH(fn)
    L.env = {}
    out = []
    for x in walk(cfront.body_of(fn)):
        lhs = rhs = None
        if x.get("kind") == "BinaryOperator" and x.get("opcode") == "=":
            lhs, rhs = render(x["inner"][0]), x["inner"][1]
        elif x.get("kind") == "VarDecl" and x.get("name") and init_of(x) is not None:
            lhs, rhs = x["name"], init_of(x)
        if rhs is None:
            continue
        try:
            out.append((lhs, L.expr(rhs)))
        except (AnalysisError, TypeError, ValueError, KeyError):
            out.append((lhs, None))
    return out


def array_read(expr, alias=None):
    """(array descriptor, index text) if expr reads one element of a numpy array through PyArray_GETPTR1 (or the same address written
    out), directly or through a file-local accessor helper whose body is such a read of (parameter 0)[parameter 1]; alias: locals that
    stand for a parameter / member (pointer_aliases)"""
    return resolve_alias(_array_read(expr, alias), alias)


def _array_read(expr, alias=None):
    e0 = strip(expr)
    if e0.get("kind") == "UnaryOperator" and e0.get("opcode") == "*":
        e1 = strip(e0["inner"][0])
    else:
        e1 = e0
    if e1.get("kind") == "CallExpr" and callee_name(e1) in HELPERS and callee_name(e1) not in ("PyArray_BYTES", "PyArray_DATA") + STRIDE_FNS:
        h = HELPERS[callee_name(e1)]
        hp = cfront.params_of(h)
        args = cfront.call_args(e1)
        if len(hp) >= 2 and len(args) >= 2:
            inner = None
            for x in walk(cfront.body_of(h)):
                if x.get("kind") in ("ReturnStmt", "VarDecl"):
                    r_ = _array_read_direct(x)
                    if r_ is not None:
                        inner = r_
            if inner is not None and inner[0] == ("param", hp[0]) and inner[1] == hp[1]:
                return ref_desc(args[0]), render(args[1])
    return _array_read_direct(expr, alias)


STRIDE_FNS = ("PyArray_STRIDES", "PyArray_STRIDE")


def _literal_zero(e):
    e = strip(e)
    return e.get("kind") == "IntegerLiteral" and str(e.get("value")) == "0"


def _stride0_of(e):
    """array descriptor if e is the byte stride of dimension 0 of an array: PyArray_STRIDES(a)[0] (what PyArray_GETPTR1 expands to) or
    PyArray_STRIDE(a, 0); 'other' for a stride of some other / an unknown dimension; None when e is no stride"""
    e = strip(e)
    k = e.get("kind")
    if k == "ArraySubscriptExpr":
        b = strip(e["inner"][0])
        if b.get("kind") == "CallExpr" and callee_name(b) == "PyArray_STRIDES" and cfront.call_args(b):
            return ref_desc(cfront.call_args(b)[0]) if _literal_zero(e["inner"][1]) else "other"
    if k == "UnaryOperator" and e.get("opcode") == "*":
        b = strip(e["inner"][0])
        if b.get("kind") == "CallExpr" and callee_name(b) == "PyArray_STRIDES" and cfront.call_args(b):
            return ref_desc(cfront.call_args(b)[0])          # *PyArray_STRIDES(a) is element 0
    if k == "CallExpr" and callee_name(e) == "PyArray_STRIDE":
        a = cfront.call_args(e)
        if len(a) == 2:
            return ref_desc(a[0]) if _literal_zero(a[1]) else "other"
    if any(y.get("kind") == "CallExpr" and callee_name(y) in STRIDE_FNS for y in walk(e)):
        return "other"
    return None


def _array_read_direct(expr, alias=None):
    """(array, index text) of `bytes(a) + index * stride0(a)` (either operand order, PyArray_BYTES or PyArray_DATA for the base,
    PyArray_STRIDES(a)[0] or PyArray_STRIDE(a, 0) for the stride - the expansion of PyArray_GETPTR1(a, index) and its hand-written
    spellings).  An address put together from the base of one array and the stride of another, or from a stride of another dimension,
    is recognised as such: the descriptor is ('mixed', text), which equals no array a rule asks for; None when no such address is found"""
    arr = idx = sarr = None
    for x in walk(expr):
        if x.get("kind") == "CallExpr" and callee_name(x) in ("PyArray_BYTES", "PyArray_DATA") and cfront.call_args(x):
            arr = ref_desc(cfront.call_args(x)[0])
        if x.get("kind") == "BinaryOperator" and x.get("opcode") == "*":
            a, b = x["inner"]
            for st_, other in ((b, a), (a, b)):
                sa = _stride0_of(st_)
                if sa is not None:
                    idx, sarr = render(other), sa
                    break
    if arr is None or idx is None:
        return None
    if sarr == "other":
        # only a literal other dimension is a recognised mismatch; anything else is not read
        lit = [y for y in walk(expr) if y.get("kind") == "CallExpr" and callee_name(y) == "PyArray_STRIDE" and len(cfront.call_args(y)) == 2
               and strip(cfront.call_args(y)[1]).get("kind") == "IntegerLiteral"]
        lit += [y for y in walk(expr) if y.get("kind") == "ArraySubscriptExpr" and callee_name(strip(y["inner"][0])) == "PyArray_STRIDES"
                and strip(y["inner"][1]).get("kind") == "IntegerLiteral"]
        return (("mixed", "stride of another dimension"), idx) if lit else None
    if sarr != arr and resolve_alias((sarr, idx), alias) != resolve_alias((arr, idx), alias):
        return (("mixed", "base of %s, stride of %s" % (arr[1], sarr[1])), idx)
    return arr, idx


def pointer_aliases(decl):
    """local -> ('param'|'member', name) for locals of the function whose every definition is a (cast) copy of one and the same
    parameter or member (`PyArrayObject *ra_arr = (PyArrayObject *) ra_array;` hoisted out of a loop)"""
    seen = {}
    for x in walk(cfront.body_of(decl)):
        v = rhs = None
        if x.get("kind") == "VarDecl" and x.get("name") and init_of(x) is not None:
            v, rhs = x["name"], init_of(x)
        elif x.get("kind") == "BinaryOperator" and x.get("opcode") == "=" and strip(x["inner"][0]).get("kind") == "DeclRefExpr":
            v, rhs = render(strip(x["inner"][0])), x["inner"][1]
        elif x.get("kind") in ("CompoundAssignOperator",) or (x.get("kind") == "UnaryOperator" and x.get("opcode") in ("++", "--")):
            t = strip(x["inner"][0])
            if t.get("kind") == "DeclRefExpr":
                seen.setdefault(render(t), set()).add(None)
            continue
        if v is None:
            continue
        rd = ref_desc(rhs)
        seen.setdefault(v, set()).add(rd if rd[0] in ("param", "member") else None)
    return {v: next(iter(ds)) for v, ds in seen.items() if len(ds) == 1 and None not in ds}


def resolve_alias(ar, alias):
    """array_read result with a local alias of a parameter / member replaced by what it stands for"""
    if ar is not None and ar[0][0] == "local" and ar[0][1] in (alias or {}):
        return (alias[ar[0][1]], ar[1])
    return ar


def unstrided_reads(decl):
    """array objects (('param', name) / ('member', name)) whose elements the function reaches through the bare data pointer
    (`p = (T *) PyArray_DATA(a); ... p[i]`, `*(p + i)`, `*p++`), i.e. without the array's strides - right only for a contiguous array;
    element access through PyArray_GETPTR1 (bytes + i * strides[0]) is not in this set"""
    body = cfront.body_of(decl)
    alias, ptrs = {}, {}
    defs = []
    for x in walk(body):
        if x.get("kind") == "VarDecl" and x.get("name") and init_of(x) is not None:
            defs.append((x["name"], init_of(x)))
        elif x.get("kind") == "BinaryOperator" and x.get("opcode") == "=" and strip(x["inner"][0]).get("kind") == "DeclRefExpr":
            defs.append((render(strip(x["inner"][0])), x["inner"][1]))
    for v, rhs in defs:
        rd = ref_desc(rhs)
        if rd[0] in ("param", "member"):
            alias[v] = rd
    for v, rhs in defs:
        calls = [y for y in walk(rhs) if y.get("kind") == "CallExpr" and callee_name(y) in ("PyArray_DATA", "PyArray_BYTES")]
        if calls and not any(y.get("kind") == "CallExpr" and callee_name(y) in STRIDE_FNS for y in walk(rhs)):
            rd = ref_desc(cfront.call_args(calls[0])[0])
            if rd[0] == "local" and rd[1] in alias:
                rd = alias[rd[1]]
            if rd[0] in ("param", "member"):
                ptrs[v] = rd
    used = set()
    for x in walk(body):
        k = x.get("kind")
        if k == "ArraySubscriptExpr":
            b = strip(x["inner"][0])
            if b.get("kind") == "DeclRefExpr" and render(b) in ptrs:
                used.add(ptrs[render(b)])
        elif k == "UnaryOperator" and x.get("opcode") in ("*", "++", "--"):
            for y in walk(x["inner"][0]):
                if y.get("kind") == "DeclRefExpr" and render(y) in ptrs:
                    used.add(ptrs[render(y)])
    return used


def init_of(vardecl):
    init = [y for y in vardecl.get("inner", []) if isinstance(y, dict) and y.get("kind")]
    return init[-1] if init else None


def node_defs(n):
    """[(variable name, rhs clang expr)] defined by CFG node n (declarations with initialiser and plain assignments)"""
    out = []
    c = n.c
    if not isinstance(c, dict):
        return out
    for x in walk(c):
        if x.get("kind") == "VarDecl" and init_of(x) is not None and x.get("name"):
            out.append((x["name"], init_of(x)))
        elif x.get("kind") == "BinaryOperator" and x.get("opcode") == "=":
            l = strip(x["inner"][0])
            if l.get("kind") == "DeclRefExpr":
                out.append((render(l), x["inner"][1]))
    return out


class MatchFn:
    def __init__(self, chk, decl):
        self.chk = chk
        self.decl = decl
        self.cfg = cfront.CCFG(decl)
        self.view = self.cfg.view()
        self.RIN, _ = self.view.reaching_defs()
        self.params = cfront.params_of(decl)
        self.where = "esutil/htm/htmc.cc:%s" % decl.get("line", decl.get("loc", {}).get("line", "?"))
        if len(self.params) != 5:
            raise AnalysisError("Matcher::match has %d parameters, expected (ra, dec, radius, maxmatch, filename)" % len(self.params))
        self.p_ra, self.p_dec, self.p_rad, self.p_max, self.p_file = self.params
        self.alias = pointer_aliases(decl)

    def aread(self, expr):
        return array_read(expr, self.alias)

    def w(self, n):
        ln = n.c.get("line") if isinstance(n.c, dict) else None
        if ln is None and isinstance(n.c, dict):
            for x in walk(n.c):
                if x.get("line"):
                    ln = x["line"]
                    break
        return "esutil/htm/htmc.cc:%s" % (ln or "?")

    def defs_at(self, n, var):
        """[(def node, rhs expr)] of `var` reaching node n"""
        out = []
        for i in sorted(self.RIN.get(n.id, {}).get(var, ())):
            dn = self.cfg.node(i)
            for v, rhs in node_defs(dn):
                if v == var:
                    out.append((dn, rhs))
        return out

    def loops(self):
        return [n for n in self.cfg.nodes if n.kind == "loop"]

    def outer_loop(self):
        """the loop over the input points: the outermost `for` whose bound is the size of the ra parameter"""
        for lp in self.loops():
            cond = lp.c
            if isinstance(cond, dict) and cond.get("kind") == "BinaryOperator" and cond.get("opcode") == "<":
                var = render(cond["inner"][0])
                bound = render(cond["inner"][1])
                bd = self.defs_at(lp, bound)
                if bd and all("PyArray_API[158]" in render(r) and ref_desc_in(r, self.alias) == ("param", self.p_ra) for _, r in bd):
                    return lp, var
        raise AnalysisError("Matcher::match: loop over the input points (i < PyArray_SIZE(ra_array)) not found")

    # ------------------------------------------------------------------
    def filter_rule(self):
        chk, cfg, view = self.chk, self.cfg, self.view
        lp, ivar = self.outer_loop()
        self.ivar = ivar
        pushes = []
        for n in cfg.nodes:
            if n.kind != "stmt" or not isinstance(n.c, dict):
                continue
            for x in walk(n.c):
                if x.get("kind") == "CXXMemberCallExpr" and callee_name(x) == "push_back":
                    recv = strip(x["inner"][0]["inner"][0]) if x["inner"][0].get("inner") else {}
                    if "PAIR_INFO" in (recv.get("type", {}).get("qualType", "")):
                        pushes.append((n, x))
        moved = []
        if not pushes:
            # a locator: when the record was moved into a helper that this function calls, nothing is contradicted here
            called = {callee_name(x) for x in walk(cfront.body_of(self.decl)) if x.get("kind") in ("CallExpr", "CXXMemberCallExpr")}
            for nm, d in sorted(getattr(self, "fs", {}).items()):
                if d is self.decl or not cfront.has_body(d) or nm.split("::")[-1] not in called:
                    continue
                if any(x.get("kind") == "CXXMemberCallExpr" and callee_name(x) == "push_back" and x["inner"][0].get("inner")
                       and "PAIR_INFO" in (strip(x["inner"][0]["inner"][0]).get("type", {}).get("qualType", "")) for x in walk(cfront.body_of(d))):
                    moved.append(nm)
        chk.ob("R12.1", "match::pair-record-sites", (len(pushes) >= 1) if not moved else None, self.where, "%d site(s) append to the per-input pair list%s"
               % (len(pushes), "" if not moved else " (the record is made in the helper %s, which is not followed)" % ", ".join(sorted(set(moved)))))
        self.push_nodes = [n for n, _ in pushes]
        for n, call in pushes:
            br = [(b, lab) for b, lab in view.controlling_branches(n) if b.kind == "branch"]
            facts = guard_facts(view, n)
            # distances: variables whose definition is a gcirc(...) call
            gvars = {v for m in cfg.nodes for v, rhs in node_defs(m) if callee_name(strip(rhs)) == "gcirc"}
            filt = None
            ok = None
            msg = "no distance comparison controls the record (facts that hold there: %s)" % sorted(facts)
            import re as _re
            for ft in sorted(facts):
                mt = _re.match(r"^(!\()?([A-Za-z_]\w*)(<=|<)([A-Za-z_]\w*)\)?$", ft)
                if not mt:
                    continue
                neg, l, op, r = bool(mt.group(1)), mt.group(2), mt.group(3), mt.group(4)
                if not neg and l in gvars:
                    holder = [bb for bb, lab in br if l in render(bb.c) and r in render(bb.c)]
                    if holder:
                        filt = (holder[0], "T", None)
                        self.dvar, self.rvar, self.fbranch = l, r, holder[0]
                        ok = op == "<="
                        msg = "recorded only when `%s %s %s` holds (inclusive, so that radius 0 still matches identical points)" % (l, op, r)
                        break
                if neg and r in gvars:
                    msg = "the record is guarded by the negation of `%s %s %s`, which also lets NaN distances through: not judged" % (l, op, r)
            if ok is None and gvars and not any(g in ft for ft in facts for g in gvars):
                ok = False      # a distance is computed here but no test on it controls the record
            chk.ob("R12.1", "match::record-guarded-by-distance-test", ok, self.w(n), msg)
            self.no_coordinate_rejection(n, getattr(self, "rvar", None) if filt else None)
            if not filt:
                continue
            # the distance
            dd = self.defs_at(filt[0], self.dvar)
            ok = len(dd) == 1 and callee_name(strip(dd[0][1])) == "gcirc"
            chk.ob("R12.1", "match::distance-is-gcirc", ok, self.w(filt[0]), "`%s` has the single definition gcirc(...)" % self.dvar)
            if ok:
                dn, rhs = dd[0]
                args = cfront.call_args(strip(rhs))
                roles = []
                for a in args[:4]:
                    v = render(a)
                    vd = self.defs_at(dn, v)
                    rd = [self.aread(r) for _, r in vd]
                    roles.append(rd[0] if len(rd) == 1 else None)
                want_in = [(("param", self.p_ra), ivar), (("param", self.p_dec), ivar)]
                # a coordinate whose definition is not recognised as an element read is not judged; a recognised read of another array or
                # another element is a contradiction
                ok_in = None if any(r is None for r in roles[:2]) else roles[:2] == want_in
                chk.ob("R12.1", "match::distance-first-point-is-input-point-i", ok_in, self.w(dn),
                       "gcirc's first point is (ra_array[%s], dec_array[%s]) (found %s)" % (ivar, ivar, roles[:2]))
                ok_mem = None if any(r is None for r in roles[2:4]) else (roles[2][0] == ("member", "ra") and roles[3][0] == ("member", "dec") and roles[2][1] == roles[3][1])
                self.kvar = roles[2][1] if ok_mem else None
                chk.ob("R12.1", "match::distance-second-point-is-member-k", ok_mem, self.w(dn),
                       "gcirc's second point is (this->ra[k], this->dec[k]) with one index k (found %s)" % (roles[2:4],))
                deg = strip(args[4]) if len(args) > 4 else {}
                chk.ob("R12.1", "match::distance-in-degrees", deg.get("kind") == "CXXBoolLiteralExpr" and deg.get("value") is True, self.w(dn),
                       "gcirc is asked for degrees (the radius is in degrees)")
                self.pt_vars = [render(a) for a in args[:2]]
            # the radius
            rdefs = self.defs_at(filt[0], self.rvar)
            kinds = []
            self.rad_def_nodes = []
            for dn, rhs in rdefs:
                ar = self.aread(rhs)
                if ar is None:
                    kinds.append(("init", render(rhs)))
                    continue
                self.rad_def_nodes.append(dn)
                ctl = [(render(b.c), lab) for b, lab in view.controlling_branches(dn) if b.kind == "branch"]
                kinds.append((ar, tuple(ctl)))
            nrad = None
            ok = True
            seen = set()
            for k in kinds:
                if k[0] == "init":
                    continue
                (arr, idx), ctl = k
                if arr != ("param", self.p_rad):
                    ok = False
                tests = [t for t, lab in ctl if lab == "T"]
                if idx == "0" and any(t.endswith("== 1)") for t in tests):
                    seen.add("single")
                elif idx == ivar and any(t.endswith("> 1)") for t in tests):
                    seen.add("per-point")
                else:
                    ok = False
            chk.ob("R12.1", "match::radius-provenance", ok and seen == {"single", "per-point"}, self.w(filt[0]),
                   "`%s` is radius_array[0] when there is one radius and radius_array[%s] when there is one per input point (found %s)" % (self.rvar, ivar, [k for k in kinds]))
            # the record
            pi = render(cfront.call_args(call)[0]) if cfront.call_args(call) else None
            fields = {}
            for m in cfg.nodes:
                if m.kind == "stmt" and isinstance(m.c, dict) and view.dominates(filt[0], m):
                    c = strip(m.c)
                    if c.get("kind") == "BinaryOperator" and c.get("opcode") == "=":
                        l = strip(c["inner"][0])
                        if l.get("kind") == "MemberExpr" and render(l["inner"][0]) == pi:
                            fields[l.get("name")] = render(c["inner"][1])
            want = {"i1": ivar, "i2": getattr(self, "kvar", None), "d12": self.dvar}
            if want["i2"] is None:
                # the member index was not identified above (that instance carries the verdict): only the other two items are compared
                ok_rec = None if {k_: v_ for k_, v_ in fields.items() if k_ != "i2"} == {"i1": ivar, "d12": self.dvar} and "i2" in fields else False
            else:
                ok_rec = fields == want
            chk.ob("R12.1", "match::record-is-(i,k,dis)", ok_rec, self.w(n),
                   "the record holds (input index, member index, separation) = %s (found %s)" % (want, fields))


    # ------------------------------------------------------------------
    def coordinate_kinds(self):
        """variable -> subset of {'lon', 'lat', 'dist'}: what its value is computed from.  'lon' / 'lat': an element of a longitude /
        latitude array of either point set (ra / dec parameter, this->ra / this->dec), followed through assignments; the value of a
        gcirc(...) call is a separation ('dist'), whatever went into it."""
        cfg = self.cfg
        src = {("param", self.p_ra): "lon", ("member", "ra"): "lon", ("param", self.p_dec): "lat", ("member", "dec"): "lat"}
        kinds = {}

        def of(expr):
            out = set()
            todo = [expr]
            while todo:
                x = todo.pop()
                if not isinstance(x, dict):
                    continue
                if x.get("kind") == "CallExpr" and callee_name(x) == "gcirc":
                    out.add("dist")
                    continue
                if x.get("kind") == "CallExpr" and callee_name(x) in ("PyArray_BYTES", "PyArray_DATA") and cfront.call_args(x):
                    rd_ = ref_desc(cfront.call_args(x)[0])
                    k = src.get(self.alias.get(rd_[1], rd_) if rd_[0] == "local" else rd_)
                    if k:
                        out.add(k)
                if x.get("kind") == "CallExpr" and callee_name(x) in HELPERS:
                    ar = self.aread(x)
                    if ar is not None and src.get(ar[0]):
                        out.add(src[ar[0]])
                if x.get("kind") == "DeclRefExpr":
                    out |= kinds.get(x.get("referencedDecl", {}).get("name"), set())
                todo.extend(x.get("inner", []) or [])
            return out
        defs = [(v, rhs) for m in cfg.nodes for v, rhs in node_defs(m)]
        changed = True
        while changed:
            changed = False
            for v, rhs in defs:
                k = of(rhs)
                if not k <= kinds.get(v, set()):
                    kinds[v] = kinds.get(v, set()) | k
                    changed = True
        self._kinds_of = of
        return kinds

    def no_coordinate_rejection(self, n, rvar):
        """none missing: a candidate member that the triangle lists deliver is dropped only by the exact separation test.  Every other
        condition on the way to the record that is computed from the coordinates of the two points is an additional filter; a
        condition on longitudes (difference of right ascensions, scaled or not) is never implied by the separation - longitude is
        periodic (0/360) and meaningless near a pole - so it loses pairs.  The one coordinate bound that the separation does imply
        is on the latitudes: |dec2 - dec1| <= separation, so `fabs(dec2 - dec1) <= rad` as a necessary condition is accepted."""
        chk, view = self.chk, self.view
        kinds = self.coordinate_kinds()
        of = self._kinds_of
        bad, unknown, oklat = [], [], []

        def lat_bound(e, pos):
            e = strip(e)
            if e.get("kind") != "BinaryOperator" or e.get("opcode") not in ("<=", ">=", "<", ">") or rvar is None:
                return False
            a, b = strip(e["inner"][0]), strip(e["inner"][1])
            op = e["opcode"]
            if render(a) == rvar:
                a, b, op = b, a, {"<=": ">=", ">=": "<=", "<": ">", ">": "<"}[op]
            if render(b) != rvar or (op, pos) not in (("<=", True), (">", False)):
                return False
            if not (a.get("kind") == "CallExpr" and callee_name(a) in ("fabs", "abs") and len(cfront.call_args(a)) == 1):
                return False
            d = strip(cfront.call_args(a)[0])
            if not (d.get("kind") == "BinaryOperator" and d.get("opcode") == "-"):
                return False
            roles = set()
            for side in d["inner"]:
                sd = strip(side)
                if sd.get("kind") != "DeclRefExpr":
                    return False
                dd = self.defs_at(n, render(sd))
                rd = [self.aread(r) for _, r in dd]
                if len(rd) != 1 or rd[0] is None:
                    return False
                roles.add(rd[0][0])
            return roles == {("param", self.p_dec), ("member", "dec")}

        def atoms(e, pos, required):
            e = strip(e)
            k = e.get("kind")
            if k == "UnaryOperator" and e.get("opcode") == "!":
                return atoms(e["inner"][0], not pos, required)
            if k == "BinaryOperator" and e.get("opcode") in ("&&", "||"):
                req = required and ((e["opcode"] == "&&") == pos)
                atoms(e["inner"][0], pos, req)
                atoms(e["inner"][1], pos, req)
                return
            ks = of(e)
            if "lon" in ks:
                bad.append(render(e))
            elif "lat" in ks:
                (oklat if (required and lat_bound(e, pos)) else unknown).append(render(e))
        for b, lab in view.controlling_branches(n):
            if b.kind in ("branch", "loop") and isinstance(b.c, dict) and lab in ("T", "F"):
                atoms(b.c, lab == "T", True)
        ok = False if bad else (None if unknown else True)
        chk.ob("R12.1", "match::only-the-separation-test-drops-a-candidate", ok, self.w(n),
               "between the candidate lists and the record no condition computed from the points' coordinates other than the exact separation test "
               "decides whether a candidate is kept (a latitude bound |dec2-dec1| <= rad is implied by it and accepted: %s)%s%s"
               % (oklat or "none present",
                  "" if not bad else " -- the record depends on the longitude test(s) %s: a difference of right ascensions is not bounded by the separation "
                  "(ra=0/360 seam, poles), pairs within the radius are dropped" % bad,
                  "" if not unknown else " -- latitude-dependent test(s) not recognised as implied by the separation: %s" % unknown))
    # ------------------------------------------------------------------
    def cover_rule(self):
        chk, cfg, view = self.chk, self.cfg, self.view
        per_point_values_rule(chk, "R12.2", "match", self, self.outer_loop(), {("param", p) for p in (self.p_ra, self.p_dec, self.p_rad)})
        cover_fresh_rule(chk, "R12.2", "match", self, self.outer_loop(),
                         {"search radius": ("param", self.p_rad), "longitude": ("param", self.p_ra), "latitude": ("param", self.p_dec)})
        candidate_loops_rule(chk, "R12.2", "match", self, self.outer_loop(), getattr(self, "fs", {}))
        sets = [(n, x) for n in cfg.nodes if isinstance(n.c, dict) for x in walk(n.c) if x.get("kind") == "CXXMemberCallExpr" and callee_name(x) == "setRaDecD"]
        ok = len(sets) == 1
        # a locator: when the cap is not defined by exactly one call in this function (moved into a helper, split) nothing is contradicted
        chk.ob("R12.2", "match::cover-call", True if ok else None, self.where, "one SpatialDomain::setRaDecD call defines the search cap (found %d in this function)" % len(sets))
        if not ok or not hasattr(self, "rvar"):
            if ok:
                chk.ob("R12.2", "match::cover-is-cos-of-filter-radius", None, self.where, "the radius variable of the distance filter was not recognised")
            return
        n, call = sets[0]
        a = [render(z) for z in cfront.call_args(call)]
        okp = a[:2] == getattr(self, "pt_vars", None)
        chk.ob("R12.2", "match::cover-centre-is-the-filtered-point", okp, self.w(n), "the cap is centred on the same (ra, dec) variables that the distance filter uses (%s)" % a[:2])
        dvar = a[2]
        dd = self.defs_at(n, dvar)
        # every definition of the cap parameter that reaches the call, as a term: cos(k * rad) with k = pi/180, whether written in place,
        # with a macro, or through a conversion helper of this file (deg2rad(rad), cos_radius(rad, true))
        good, wrong, unk = [], [], []
        rsym = sp.Symbol(self.rvar)
        for dn, rhs in dd:
            if strip(rhs).get("kind") in ("FloatingLiteral", "IntegerLiteral"):
                continue                # the initial value (no radius read yet)
            try:
                L = LowerH(self.decl)
                L.env = {}
                t = L.expr(rhs)
            except (AnalysisError, TypeError, ValueError, KeyError):
                unk.append(dn)
                continue
            k = None
            if isinstance(t, sp.cos):
                q = sp.simplify(t.args[0] / rsym)
                if not q.free_symbols:
                    try:
                        k = float(q)
                    except (TypeError, ValueError):
                        k = None
            if k is not None:
                good.append((dn, k))
            elif t.atoms(sp.core.function.AppliedUndef) or (isinstance(t, sp.Symbol) and t != rsym):
                unk.append(dn)          # goes through something that is not followed
            else:
                wrong.append((dn, t))
        if wrong or (good and not unk):
            ok = not wrong and all(abs(v - math.pi / 180) < 1e-15 for _, v in good)
        else:
            ok = None
        chk.ob("R12.2", "match::cover-is-cos-of-filter-radius", ok, self.w(n),
               "the cap parameter is cos(%s * pi/180) of the radius the filter compares with (conversion factors %s%s%s)"
               % (self.rvar, [v for _, v in good], "" if not wrong else "; other definitions: %s" % [str(t)[:60] for _, t in wrong],
                  "" if not unk else "; %d definition(s) not followed" % len(unk)))
        # recomputed with every change of rad: each radius read is followed in its block by the cosine
        pair_ok = True
        for rn in getattr(self, "rad_def_nodes", []):
            succ = [s for s, _ in cfg_succ(cfg, rn)]
            pair_ok = pair_ok and len(succ) == 1 and any(succ[0].id == dn.id for dn, _ in good)
        chk.ob("R12.2", "match::cover-recomputed-with-radius", (pair_ok if good and not unk else None) if getattr(self, "rad_def_nodes", []) else None, self.w(n),
               "every read of a radius is immediately followed by the matching cos(rad) (no stale cap for per-point radii)")
        # intersect -> both lists -> idlist -> hmap lookup
        inter = [(m, x) for m in cfg.nodes if isinstance(m.c, dict) for x in walk(m.c) if x.get("kind") == "CXXMemberCallExpr" and callee_name(x) == "intersect"]
        ok = len(inter) == 1 and view.dominates(n, inter[0][0])
        lists = []
        if ok:
            ia = cfront.call_args(inter[0][1])
            lists = [render(z) for z in ia[1:3]]
            idx = render(ia[0])
            idxd = self.defs_at(inter[0][0], idx.lstrip("&"))
            oki = len(idxd) == 1 and "htm_interface.index()" in render(idxd[0][1])
            chk.ob("R12.2", "match::index-from-own-interface", oki, self.w(inter[0][0]), "the intersection runs on this matcher's own htm_interface index (same depth as the id map)")
        chk.ob("R12.2", "match::intersect-after-cap", ok, self.where, "the triangle intersection follows the cap definition and yields two lists %s" % lists)
        # every list is copied completely into the candidate list: in this function or in a helper of this file that is given the list
        copies = list_copies(getattr(self, "fs", {}), self.decl, lists) if len(lists) == 2 else {}
        common = set.intersection(*[copies.get(L, set()) for L in lists]) if len(lists) == 2 else set()
        cand = sorted(common)[0] if common else None
        if common:
            okc = True
            # a candidate list that outlives the iteration (declared outside the loop over the input points and appended to) has to be
            # emptied for every point, otherwise the triangles of earlier points are searched again and pairs are reported twice
            olp, _iv = self.outer_loop()
            body = loop_body(cfg, view, olp)
            if cand not in _declared_in(cfg, body) and any(("%s.push_back(" % cand) in render(m.c) or ("(%s," % cand) in render(m.c).replace(" ", "")
                                                            or (",%s)" % cand) in render(m.c).replace(" ", "") for m in body if isinstance(m.c, dict)):
                if not container_cleared(getattr(self, "fs", {}), body, cand):
                    okc = None
        else:
            # positively dropped: a list that is mentioned nowhere but in its declaration and in the intersect call, while the other is copied
            text = [render(m.c) for m in cfg.nodes if isinstance(m.c, dict) and m is not (inter[0][0] if inter else None)]
            unused = [L for L in lists if not any(("%s." % L) in t or ("(%s () " % L) in t or ("(%s)" % L) in t or (", %s" % L) in t or ("(%s," % L) in t for t in text)]
            okc = False if (unused and any(copies.get(L) for L in lists)) else None
        chk.ob("R12.2", "match::full-and-partial-triangles-are-candidates", okc if len(lists) == 2 else None, self.where,
               "both the fully-inside and the partially-overlapping triangle lists are copied in full into the candidate list (%s)" % {L: sorted(v) for L, v in copies.items()})
        # the number of candidates: the sum of both lengths, or the size of the candidate container itself
        # (read through casts and through locals that are initialised once and never written again: `nfull = flist.length(); nfound = nfull + npartial`)
        sdl = _single_def_locals(self.decl)

        def length_leaves(e, depth=0):
            """the lists whose .length() the expression adds up (a `+` tree over `L.length()` leaves, hoisted or in place); None when it is anything else"""
            e = _through_locals(e, sdl)
            if not isinstance(e, dict) or depth > 6:
                return None
            if e.get("kind") == "BinaryOperator" and e.get("opcode") == "+":
                a, b = length_leaves(e["inner"][0], depth + 1), length_leaves(e["inner"][1], depth + 1)
                return None if a is None or b is None else a + b
            t = render(e).replace(" ", "")
            for L in lists:
                if t == "%s.length()" % L:
                    return [L]
            return None
        nf, partial = [], []
        for m in cfg.nodes:
            for v, r in node_defs(m):
                lv = length_leaves(r) if lists else None
                if lv is None:
                    continue
                if sorted(lv) == sorted(lists) and len(lv) > 1:
                    nf.append((m, v, "sum"))
                elif set(lv) < set(lists) and inter and view.dominates(inter[0][0], m):
                    partial.append((m, v))
        if cand is not None:
            nf += [(m, v, "size") for m in cfg.nodes for v, r in node_defs(m) if render(strip(r)) == "%s.size()" % cand]
        finds = [m for m in cfg.nodes if isinstance(m.c, dict) and "hmap.find(" in render(m.c) and any(view.dominates(q, m) for q in [inter[0][0]] if inter)]
        flp = [b for b, lab in view.controlling_branches(finds[0]) if b.kind == "loop" and lab == "T"] if finds else []
        fcond = render(flp[0].c) if flp and isinstance(flp[0].c, dict) else ""
        if len(nf) == 1:
            okn = True
        elif any(fcond.endswith("< %s)" % v) for _, v in partial):
            okn = False             # the lookup loop is bounded by the length of one list only
        else:
            okn = None
        chk.ob("R12.2", "match::candidate-count-is-sum", okn, self.where, "the number of candidate triangles is the sum of both list lengths (or the size of the list they were copied into): %s"
               % [(v, how) for _, v, how in nf])
        ok = None
        if finds and len(nf) == 1 and flp:
            nv = nf[0][1]
            import re as _re
            if fcond.endswith("< %s)" % nv):
                ok = True
            elif _re.search(r"\b%s\b" % _re.escape(nv), fcond):
                ok = False          # bounded by the count, but not by all of it
        chk.ob("R12.2", "match::every-candidate-triangle-looked-up", ok, self.where, "the member map is consulted for each of the candidate triangles (lookup loop: `%s`)" % fcond)

    # ------------------------------------------------------------------
    def order_rule(self, cmp_decl):
        chk, cfg, view = self.chk, self.cfg, self.view
        lp, ivar = self.outer_loop()
        # ascending over inputs from 0, step 1
        init = self.defs_at(lp, ivar)
        inits = sorted(render(r) for d, r in init if d.label != "inc" and "++" not in render(d.c))
        incs = [d for d in cfg.nodes if d.label == "inc" and render(d.c) in (ivar + "++", "++" + ivar)]
        chk.ob("R12.4", "match::groups-in-input-order", inits == ["0"] and len(incs) == 1, self.w(lp), "the input loop runs i = 0, 1, ... (init %s, step %s)" % (inits, [render(d.c) for d in incs]))
        # the pair list is declared inside the loop (fresh per input point)
        pl = None
        for n in cfg.nodes:
            if isinstance(n.c, dict):
                for x in walk(n.c):
                    if x.get("kind") == "VarDecl" and "PAIR_INFO" in x.get("type", {}).get("qualType", "") and "vector" in x.get("type", {}).get("qualType", "") \
                            and "iterator" not in x.get("type", {}).get("qualType", ""):
                        pl = (n, x["name"])
        ok = pl is not None and any(b.id == lp.id and lab == "T" for b, lab in view.controlling_branches(pl[0]))
        chk.ob("R12.4", "match::pair-list-fresh-per-input", bool(ok), self.w(pl[0]) if pl else self.where, "the per-input pair list is constructed inside the input loop (nothing carries over between groups)")
        if pl is None:
            return
        name = pl[1]
        # calls that put the list (or its leading part) in order, and calls that only partition it
        ORDERING = ("sort", "stable_sort", "partial_sort")
        PARTITION = ("nth_element", "partition", "stable_partition")
        ordcalls = []
        partcalls = []
        for n in cfg.nodes:
            if not isinstance(n.c, dict):
                continue
            for x in walk(n.c):
                if x.get("kind") == "CallExpr" and callee_name(x) in ORDERING + PARTITION and ("%s.begin()" % name) in render(x) and ("%s.end()" % name) in render(x):
                    (ordcalls if callee_name(x) in ORDERING else partcalls).append((n, x))
        sorts = [n for n, x in ordcalls if callee_name(x) in ("sort", "stable_sort") and len(cfront.call_args(x)) >= 2
                 and render(cfront.call_args(x)[0]).endswith("%s.begin())" % name) and render(cfront.call_args(x)[1]).endswith("%s.end())" % name)]
        ok = len(ordcalls) >= 1 and all("PAIR_INFO_ORDERING" in render(x) for n, x in ordcalls)
        chk.ob("R12.4", "match::sorted-by-ordering-functor", ok if ordcalls else None, self.w(ordcalls[0][0]) if ordcalls else self.where,
               "the pair list is put in order with PAIR_INFO_ORDERING (%d ordering call(s))" % len(ordcalls))
        self._ordcalls, self._partcalls = ordcalls, partcalls
        r, L = csymx.lower_function(cmp_decl)
        ret = csymx.merged_return(r)
        ps = cfront.params_of(cmp_decl)
        okc = ret == sp.Lt(sp.Symbol("%s.d12" % ps[0]), sp.Symbol("%s.d12" % ps[1]))
        chk.ob("R12.4", "PAIR_INFO_ORDERING::ascending-separation", bool(okc), "esutil/htm/htmc.h", "the ordering is a.d12 < b.d12 (ascending separation, strict weak order) (found %s)" % ret)
        # truncation
        kdefs = {}
        for n in cfg.nodes:
            for v, rhs in node_defs(n):
                if render(rhs) == "%s.size()" % name:
                    kdefs["var"] = v
                    kdefs["init"] = n
        kv = kdefs.get("var")
        trunc = [n for n in cfg.nodes for v, rhs in node_defs(n) if v == kv and n is not kdefs.get("init")]
        ok, why, at = self.truncation_verdict(kv, name, trunc)
        chk.ob("R12.4", "match::truncate-only-positive-maxmatch", ok, self.w(at) if at is not None else (self.w(trunc[0]) if trunc else self.where),
               "the kept count is lowered to maxmatch only when maxmatch > 0 and the group is larger (maxmatch <= 0 - zero or any negative value - keeps all)%s" % why)
        if sorts and trunc:
            chk.ob("R12.4", "match::sort-before-truncate", view.dominates(sorts[0], trunc[0]), self.w(trunc[0]), "the group is sorted before it is truncated (the k kept are the k closest)")
        # emission loop over the first nkeep entries in order
        em = [b for b in self.loops() if isinstance(b.c, dict) and render(b.c).endswith("< %s)" % kv)]
        ok = len(em) == 1
        if ok:
            ev = render(em[0].c["inner"][0])
            ei = [render(r) for d, r in self.defs_at(em[0], ev) if d.label != "inc"]
            ok = ei == ["0"] and bool(sorts) and view.dominates(sorts[0], em[0])
            self.emit_loop, self.emit_var, self.pairs = em[0], ev, name
        chk.ob("R12.4", "match::emit-first-nkeep-in-sorted-order", bool(ok) if (em and sorts) else None, self.w(em[0]) if em else self.where, "the first nkeep entries of the sorted list are emitted in order")
        # with a positive limit the result is the k closest pairs of each group WHEREVER it goes: each loop that hands pairs over
        # (lines of the pair file, elements of the result vectors) runs over the kept count, not over the whole sorted list
        import re as _re
        olp, _iv = self.outer_loop()
        sites = []
        for n in cfg.nodes:
            if not isinstance(n.c, dict) or not any(b.id == olp.id and lab == "T" for b, lab in view.controlling_branches(n)):
                continue
            for x in walk(n.c):
                if x.get("kind") == "CallExpr" and callee_name(x) == "fprintf":
                    sites.append((n, "fprintf"))
                elif x.get("kind") == "CXXMemberCallExpr" and callee_name(x) == "push_back":
                    recv = strip(x["inner"][0]["inner"][0]) if x["inner"][0].get("inner") else {}
                    if "PAIR_INFO" not in (recv.get("type", {}).get("qualType", "")):
                        sites.append((n, "%s.push_back" % render(recv)))
        verdicts = []
        for n, what in sites:
            lps = [b for b, lab in view.controlling_branches(n) if b.kind == "loop" and lab == "T" and b.id != olp.id]
            if not lps or kv is None:
                verdicts.append((None, n, what, "not inside a loop over the group"))
                continue
            inner_most = [b for b in lps if not any(any(q.id == b.id for q, _ in view.controlling_branches(o)) for o in lps if o is not b)]
            L = inner_most[0] if inner_most else lps[0]
            ctext = render(L.c) if isinstance(L.c, dict) else ""
            if _re.search(r"\b%s\b" % _re.escape(kv), ctext):
                verdicts.append((True, n, what, ctext))
            elif ("%s.end()" % name) in ctext or ("%s.size()" % name) in ctext:
                cut = [m for m in cfg.nodes if isinstance(m.c, dict) and view.dominates(m, L) and any(
                    y.get("kind") == "CXXMemberCallExpr" and callee_name(y) in ("resize", "erase") and render(y).startswith("%s." % name)
                    and (_re.search(r"\b%s\b" % _re.escape(kv), render(y)) or self.p_max in render(y)) for y in walk(m.c))]
                verdicts.append((True if cut else False, n, what, ctext))
            else:
                verdicts.append((None, n, what, ctext))
        if sites:
            badv = [v for v in verdicts if v[0] is False]
            unk = [v for v in verdicts if v[0] is None]
            chk.ob("R12.4", "match::every-output-loop-keeps-maxmatch", False if badv else (None if unk else True), self.w(badv[0][1]) if badv else self.where,
                   "every loop that hands the pairs of a group over (to the pair file or to the result vectors) is bounded by the kept count `%s` "
                   "(= maxmatch when 0 < maxmatch < group size)%s%s"
                   % (kv, "" if not badv else " -- %s" % "; ".join("`%s` runs over the whole list: loop `%s`" % (w_, c_) for _, _, w_, c_ in badv[:3]),
                      "" if not unk else " -- not recognised: %s" % "; ".join("`%s` in loop `%s`" % (w_, c_) for _, _, w_, c_ in unk[:3])))
        # every path from the collection of the pairs to their emission passes a call that ORDERS the entries emitted: a full
        # sort / stable_sort of [begin, end), or partial_sort(begin, begin + k, end) with k the kept count.  A partition
        # (nth_element) selects the k closest but leaves them in unspecified order, so a path ordered only by it is a violation.
        if em:
            good = []
            for n, x in getattr(self, "_ordcalls", []):
                a = [render(z) for z in cfront.call_args(x)]
                if callee_name(x) in ("sort", "stable_sort") and len(a) >= 2 and a[0].endswith("%s.begin())" % name) and a[1].endswith("%s.end())" % name):
                    good.append(n)
                elif callee_name(x) == "partial_sort" and len(a) >= 3 and a[0].endswith("%s.begin())" % name) and a[2].endswith("%s.end())" % name) \
                        and ("%s.begin()" % name) in a[1] and (kv in a[1] or self.p_max in a[1]):
                    good.append(n)
            avoid = good
            unordered_path = view.path_exists_entry_to(em[0], avoiding=avoid) if good else True
            only_part = [self.w(n) for n, x in getattr(self, "_partcalls", [])]
            chk.ob("R12.4", "match::every-emitted-group-is-ordered", not unordered_path, self.w(em[0]),
                   "every path to the emission loop passes an ordering call over the entries that are emitted%s"
                   % ("" if not unordered_path else " -- some path reaches the emission without one" + ((" (only a partition: %s)" % ", ".join(only_part)) if only_part else "")))

    # ------------------------------------------------------------------
    def truncation_verdict(self, kv, name, trunc):
        """(ok, text, node) for the maxmatch truncation.  With maxmatch <= 0 (zero or ANY negative value) every pair of a group is kept; with
        a positive maxmatch the first maxmatch entries.  Whatever the layout, every statement that can lower the kept count to maxmatch - an
        assignment `kept = maxmatch` / `kept = min(kept, maxmatch)` or a resize / erase of the pair list by maxmatch - therefore runs only
        where `maxmatch > 0` is a fact of its controlling tests (guard_facts: nested ifs, a merged `&&`, an early `continue` all read the
        same), and a plain assignment only where `maxmatch < kept` (or <=) holds as well, otherwise a limit above the group size moves the
        count past the end of the list.  False only for a positively identified lowering statement whose facts do not include the
        positivity of maxmatch; anything that is not one of the forms above is not judged."""
        import re as _re
        M = self.p_max
        view, cfg = self.view, self.cfg
        body = cfront.body_of(self.decl)
        if M in _assigned_names(self.decl):
            return None, " -- the maxmatch parameter is itself reassigned: not followed", None
        same = {v for v, rd in self.alias.items() if rd == ("param", M)}
        sdl = _single_def_locals(self.decl)

        def facts_at(n):
            out = set()
            for ft in guard_facts(view, n):
                for a in same:
                    ft = _re.sub(r"\b%s\b" % _re.escape(a), M, ft)
                out.add(ft)
            return out

        def is_M(e):
            e = _through_locals(e, sdl)
            return isinstance(e, dict) and e.get("kind") == "DeclRefExpr" and e.get("referencedDecl", {}).get("kind") == "ParmVarDecl" and e["referencedDecl"].get("name") == M

        def is_kept(e):
            t = render(_through_locals(e, sdl)).replace(" ", "")
            return (kv is not None and t == kv) or t == "%s.size()" % name

        def is_min(e):
            e = _through_locals(e, sdl)
            if isinstance(e, dict) and e.get("kind") == "CallExpr" and (callee_name(e) or "").split("::")[-1] == "min":
                a = cfront.call_args(e)
                return len(a) == 2 and ((is_M(a[0]) and is_kept(a[1])) or (is_M(a[1]) and is_kept(a[0])))
            return False

        def mentions_M(e):
            return any(x.get("kind") == "DeclRefExpr" and x.get("referencedDecl", {}).get("name") in ({M} | same) for x in walk(e))

        def positive(fs_):
            return bool({"0<%s" % M, "1<=%s" % M} & fs_) or {"0!=%s" % M, "0<=%s" % M} <= fs_

        def larger(fs_):
            if kv is not None and {"%s<%s" % (M, kv), "%s<=%s" % (M, kv)} & fs_:
                return True
            return None if any(_re.search(r"\b%s\b" % _re.escape(M), f_) and ((kv is not None and _re.search(r"\b%s\b" % _re.escape(kv), f_)) or name in f_) for f_ in fs_) else False

        sites = []          # (verdict, node, text)
        for n in trunc:
            for v, rhs in node_defs(n):
                if v != kv:
                    continue
                plain, mn = is_M(rhs), is_min(rhs)
                if not (plain or mn):
                    if render(strip(rhs)).replace(" ", "") == "%s.size()" % name:
                        continue
                    sites.append((None, n, "`%s`: not one of the recognised forms" % render(n.c)))
                    continue
                fs_ = facts_at(n)
                if not positive(fs_):
                    sites.append((False, n, "`%s` runs wherever %s holds, which does not imply %s > 0: a negative maxmatch ('keep all', e.g. -1) or zero lowers the kept count "
                                  "to it and the group is dropped" % (render(n.c), sorted(f_ for f_ in fs_ if _re.search(r"\b%s\b" % _re.escape(M), f_)) or "no test on maxmatch", M)))
                elif plain and larger(fs_) is not True:
                    lg = larger(fs_)
                    sites.append((lg, n, "`%s` is not limited to groups larger than maxmatch (facts: %s)%s" % (render(n.c), sorted(fs_), "" if lg is None else
                                  ": a limit above the group size moves the kept count past the end of the list")))
                else:
                    sites.append((True, n, render(n.c)))
        for n in cfg.nodes:
            if not isinstance(n.c, dict):
                continue
            for y in walk(n.c):
                if y.get("kind") == "CXXMemberCallExpr" and callee_name(y) in ("resize", "erase") and y["inner"][0].get("inner") \
                        and render(strip(y["inner"][0]["inner"][0])) == name and any(mentions_M(a) for a in cfront.call_args(y)):
                    fs_ = facts_at(n)
                    if not positive(fs_):
                        sites.append((False, n, "`%s` runs wherever %s holds, which does not imply %s > 0" % (render(y), sorted(fs_) or "nothing", M)))
                    else:
                        sites.append((True if larger(fs_) is True else None, n, render(y)))
        if kv is not None:
            for x in walk(body):
                if x.get("kind") == "CompoundAssignOperator" or (x.get("kind") == "UnaryOperator" and x.get("opcode") in ("++", "--")):
                    if render(strip(x["inner"][0])) == kv:
                        sites.append((None, None, "the kept count is also changed by `%s`: not followed" % render(x)))
        bad = [s for s in sites if s[0] is False]
        if bad:
            return False, " -- " + "; ".join(s[2] for s in bad[:2]), bad[0][1]
        unk = [s for s in sites if s[0] is None]
        if unk:
            return None, " -- not judged: " + "; ".join(s[2] for s in unk[:2]), unk[0][1]
        if sites:
            return True, " (%s)" % "; ".join("`%s`" % s[2] for s in sites[:3]), sites[0][1]
        if not any(x.get("kind") == "DeclRefExpr" and x.get("referencedDecl", {}).get("name") == M for x in walk(body)):
            return False, " -- the maxmatch parameter is never read in Matcher::match: a positive limit is ignored", None
        return None, " -- no statement that lowers the kept count to maxmatch was recognised", None

    # ------------------------------------------------------------------
    def emit_rule(self):
        chk, cfg, view = self.chk, self.cfg, self.view
        if not hasattr(self, "emit_loop"):
            chk.ob("R12.5", "match::emission-loop", False, self.where, "emission loop not identified")
            return
        lp, ev, pl = self.emit_loop, self.emit_var, self.pairs
        body = [n for n in cfg.nodes if any(b.id == lp.id and lab == "T" for b, lab in view.controlling_branches(n))]
        item = lambda f: "%s[%s].%s" % (pl, ev, f)
        pr = [(n, x) for n in body if isinstance(n.c, dict) for x in walk(n.c) if x.get("kind") == "CallExpr" and callee_name(x) == "fprintf"]
        ok = len(pr) == 1
        fmt = None
        if ok:
            a = cfront.call_args(pr[0][1])
            fmt = cstr.c_string_literal(a[1])
            vals = [render(z) for z in a[2:]]
            ok = vals == [item("i1"), item("i2"), item("d12")]
        chk.ob("R12.5", "match::file-record-items", bool(ok), self.w(pr[0][0]) if pr else self.where, "the file record is (i1, i2, d12) of the current sorted entry")
        self.fmt = fmt
        mem = {}
        for n in body:
            if isinstance(n.c, dict):
                for x in walk(n.c):
                    if x.get("kind") == "CXXMemberCallExpr" and callee_name(x) == "push_back":
                        recv = render(x["inner"][0]["inner"][0])
                        mem[recv] = render(cfront.call_args(x)[0])
        vals = sorted(mem.values())
        ok = vals == sorted([item("i1"), item("i2"), item("d12")])
        chk.ob("R12.5", "match::memory-record-items", ok, self.w(lp), "the in-memory record pushes the same three items (%s)" % mem)
        self.mem = mem
        if pr and mem:
            pn = pr[0][0]
            ctl_f = [(render(b.c), lab) for b, lab in view.controlling_branches(pn) if b.kind == "branch"]
            mn = [n for n in body if isinstance(n.c, dict) and "push_back" in render(n.c)][0]
            ctl_m = [(render(b.c), lab) for b, lab in view.controlling_branches(mn) if b.kind == "branch"]
            ok = bool(ctl_f) and bool(ctl_m) and ctl_f[0][0] == ctl_m[0][0] and ctl_f[0][1] != ctl_m[0][1]
            chk.ob("R12.5", "match::file-and-memory-are-arms-of-one-loop", ok, self.w(pn), "both outputs are the two arms of one test inside the same emission loop")
        cnt = [n for n in body if isinstance(n.c, dict) and strip(n.c).get("kind") in ("CompoundAssignOperator", "UnaryOperator") and n.label != "inc"
               and ("+= 1" in render(n.c) or "++" in render(n.c))]
        ok = len(cnt) == 1 and not [b for b, lab in view.controlling_branches(cnt[0]) if b.kind == "branch" and any(q.id == lp.id for q, _ in view.controlling_branches(b))]
        self.count_var = render(strip(cnt[0].c)["inner"][0]) if cnt else None
        chk.ob("R12.5", "match::count-per-emitted-pair", bool(ok), self.w(cnt[0]) if cnt else self.where, "the total is incremented exactly once per emitted pair, whichever output is used")
        # output arrays
        outs = {}
        for n in cfg.nodes:
            for v, rhs in node_defs(n):
                t = render(rhs)
                if "PyArray_API[183]" in t:      # PyArray_Zeros
                    outs[v] = ("NPY_LONG" if "NPY_LONG)" in t else "NPY_DOUBLE" if "NPY_DOUBLE" in t else t, "&%s" % self.count_var in t)
        ptr = {}
        for n in cfg.nodes:
            for v, rhs in node_defs(n):
                ar = array_read_ptr(rhs)
                if ar and ar[0][1] in outs:
                    ptr[v] = ar
        # the bare data pointer of an output array, taken once: the arrays come from PyArray_ZEROS(1, ...) (new, one-dimensional, C order, hence
        # contiguous), so element i is at ((T *) PyArray_DATA(a))[i] provided T is as wide as the element type (LP64: long / int64 / intp; double)
        dptr = {}
        WIDE = {"NPY_LONG": ("npy_int64 *", "int64_t *", "long *", "npy_intp *", "long long *", "npy_long *", "npy_longlong *"),
                "NPY_DOUBLE": ("double *", "npy_float64 *", "npy_double *")}
        sdl = _single_def_locals(self.decl)
        ptypes = {x["name"]: (x.get("type") or {}).get("qualType", "") for x in walk(cfront.body_of(self.decl)) if x.get("kind") == "VarDecl" and x.get("name")}
        for v, init in sdl.items():
            e = _through_locals(init, {})
            if isinstance(e, dict) and e.get("kind") == "CallExpr" and callee_name(e) in ("PyArray_DATA", "PyArray_BYTES") and cfront.call_args(e):
                tgt = render(_through_locals(cfront.call_args(e)[0], {}))
                if tgt in outs and ptypes.get(v, "").replace("const ", "") in WIDE.get(outs[tgt][0], ()):
                    dptr[v] = tgt
        stores = {}
        for n in cfg.nodes:
            if n.kind == "stmt" and isinstance(n.c, dict):
                c = strip(n.c)
                if c.get("kind") == "BinaryOperator" and c.get("opcode") == "=":
                    l = strip(c["inner"][0])
                    if l.get("kind") == "UnaryOperator" and l.get("opcode") == "*":
                        p = render(l["inner"][0])
                        if p in ptr:
                            stores[ptr[p][0][1]] = (render(c["inner"][1]), ptr[p][1])
                    elif l.get("kind") == "ArraySubscriptExpr" and render(strip(l["inner"][0])) in dptr:
                        # `p[i] = v[i]` with p the data pointer, taken once, of one of the new output arrays
                        stores[dptr[render(strip(l["inner"][0]))]] = (render(c["inner"][1]), render(strip(l["inner"][1])))
        tup = {}
        for n in cfg.nodes:
            if isinstance(n.c, dict):
                for x in walk(n.c):
                    if x.get("kind") == "CallExpr" and callee_name(x) == "PyTuple_SetItem":
                        a = cfront.call_args(x)
                        tup[render(a[1])] = render(a[2])
        inv = {v: k for k, v in mem.items()}     # item -> temp vector
        want_order = [inv.get(item("i1")), inv.get(item("i2")), inv.get(item("d12"))]
        ok = len(tup) == 3 and len(outs) == 3
        if ok:
            for pos, vec, ty in zip("012", want_order, ("NPY_LONG", "NPY_LONG", "NPY_DOUBLE")):
                arr = tup.get(pos)
                st = stores.get(arr)
                ok = ok and arr in outs and outs[arr][0] == ty and outs[arr][1] and st is not None and vec is not None and st[0] == "%s[%s]" % (vec, st[1])
        chk.ob("R12.6", "match::output-tuple", bool(ok), self.where,
               "result = (int64 array of input indices, int64 array of member indices, float64 array of separations), each of the counted length and filled element by element in order (%s / %s)" % (tup, stores))


def container_cleared(fs, nodes, name, depth=0):
    """is `name.clear()` among the given statements, or in the body of a free helper of the file that one of them hands `name` to"""
    for m in nodes:
        if not isinstance(m.c, dict):
            continue
        c = strip(m.c)
        if c.get("kind") == "CXXMemberCallExpr" and callee_name(c) == "clear" and c["inner"][0].get("inner") and render(strip(c["inner"][0]["inner"][0])) == name:
            return True
        if c.get("kind") == "CallExpr" and depth < 2:
            h = fs.get(callee_name(c) or "")
            if h is not None and h.get("kind") == "FunctionDecl" and cfront.has_body(h):
                hp = cfront.params_of(h)
                args = [render(strip(a_)) for a_ in cfront.call_args(c)]
                for i, a_ in enumerate(args):
                    if a_ == name and i < len(hp):
                        hg = cfront.CCFG(h)
                        if container_cleared(fs, [x for x in hg.nodes if x.kind == "stmt"], hp[i], depth + 1):
                            return True
    return False


def list_copies(fs, decl, srcs, depth=0):
    """{list name: set of containers of `decl` that receive EVERY element of that list}: a statement `C[k] = L(i)` / `C.push_back(L(i))`
    that runs unconditionally in a loop over all of L (`i < L.length()`, the bound written in place or held in a local), in this
    function or in a free helper of the file that is handed L (then the helper's destination parameter is mapped back to the argument)"""
    g = cfront.CCFG(decl)
    v = g.view()
    RIN, _ = v.reaching_defs()
    out = {s: set() for s in srcs}
    for m in g.nodes:
        if m.kind != "stmt" or not isinstance(m.c, dict):
            continue
        c = strip(m.c)
        if c.get("kind") == "CallExpr" and depth < 2:
            h = fs.get(callee_name(c) or "")
            if h is not None and h is not decl and h.get("kind") == "FunctionDecl" and cfront.has_body(h):
                hp = cfront.params_of(h)
                args = [render(strip(a_)) for a_ in cfront.call_args(c)]
                passed = [(i, a_) for i, a_ in enumerate(args) if a_ in out and i < len(hp)]
                if passed:
                    sub = list_copies(fs, h, [hp[i] for i, _ in passed], depth + 1)
                    for i, a_ in passed:
                        for dst in sub.get(hp[i], ()):
                            if dst in hp and hp.index(dst) < len(args):
                                out[a_].add(args[hp.index(dst)])
            continue
        txt = render(c)
        for L in srcs:
            if ("(%s () " % L) not in txt:
                continue
            dst = None
            if c.get("kind") == "CXXMemberCallExpr" and callee_name(c) == "push_back" and c["inner"][0].get("inner"):
                dst = render(strip(c["inner"][0]["inner"][0]))
            elif c.get("kind") in ("BinaryOperator", "CXXOperatorCallExpr") and "=" in (c.get("opcode", ""), (callee_name(c) or "").replace("operator", "")):
                dst = txt.split("[")[0].lstrip("(").strip()
            if not dst:
                continue
            ctl = v.controlling_branches(m)
            lps = [b for b, lab in ctl if b.kind == "loop" and lab == "T"]
            if not lps:
                continue
            lp = lps[-1] if len(lps) > 1 and any(q.id == lps[0].id for q, _ in v.controlling_branches(lps[-1])) else lps[0]
            inner_ids = {b.id for b, _ in ctl} - {b.id for b, _ in v.controlling_branches(lp)} - {lp.id}
            if any(b.kind == "branch" for b, _ in ctl if b.id in inner_ids):
                continue            # copied only under a condition inside the loop: not every element
            cond = render(lp.c) if isinstance(lp.c, dict) else ""
            whole = ("%s.length()" % L) in cond
            if not whole and isinstance(lp.c, dict) and lp.c.get("kind") == "BinaryOperator" and lp.c.get("opcode") in ("<", "!="):
                bv = render(lp.c["inner"][1])
                bd = [rhs for i in sorted(RIN.get(lp.id, {}).get(bv, ())) for var, rhs in node_defs(g.node(i)) if var == bv]
                whole = bool(bd) and all(render(strip(r_)) == "%s.length()" % L for r_ in bd)
            if whole:
                out[L].add(dst)
    return out


def per_point_values_rule(chk, rule, fname, f, loop_ivar, inputs):
    """the value of a per-point input (radius, scale) and everything computed from it (search cap, logarithm) that is used for point i
    is that of point i: inside the loop over the first-set points such a variable is not used before its assignment of the same
    iteration (see stale_values)"""
    lp, ivar = loop_ivar
    res = stale_values(f.cfg, f.view, lp, ivar, lambda a: a in inputs, getattr(f, "alias", None))
    if not res:
        chk.ob(rule, "%s::per-point-values-are-current" % fname, True, f.where, "no variable that outlives an iteration is assigned from a per-point input inside the loop over the points")
        return
    for v, dnodes, stale, decided in res:
        ok = True if not stale else (False if decided else None)
        chk.ob(rule, "%s::per-point-value-%s-is-current" % (fname, v), ok, f.w(stale[0]) if stale else f.w(dnodes[0]),
               "`%s` is assigned for every point (%s) but lives across iterations: each use inside the loop has to come after the assignment of the same "
               "iteration, otherwise point i is processed with the value of point i-1%s"
               % (v, "; ".join("`%s` at %s" % (render(d.c)[:60], f.w(d).rsplit(":", 1)[-1]) for d in dnodes),
                  "" if not stale else " -- used before it: %s" % "; ".join("`%s` (line %s)" % (render(m.c)[:70], f.w(m).rsplit(":", 1)[-1]) for m in stale[:3])))


def cover_fresh_rule(chk, rule, fname, f, loop_ivar, inputs):
    """the triangle lists that are searched for point i are those of the circle of point i: inside the loop over the first-set points
    every path of one iteration that reaches a consumer of the lists the intersection fills (a consumer: a statement after the
    intersection that mentions them) runs through the intersection of the same iteration.  Where a path skips it and the lists live
    across iterations, the cover of an earlier point is searched again: that is the cover of point i only if centre AND opening angle
    are the same, so the condition under which the intersection runs has to depend on every per-point input of the cap (`inputs`:
    {what: array parameter}, followed through the variables derived from them and the tests that select them).  A reuse condition
    that leaves one of them out is a violation; one that mentions them all is not judged (its bookkeeping is not verified)."""
    cfg, view = f.cfg, f.view
    lp, ivar = loop_ivar
    key = "%s::cover-computed-for-every-point" % fname
    body = loop_body(cfg, view, lp)
    bids = {m.id for m in body}
    inter = [(m, x) for m in body if isinstance(m.c, dict) for x in walk(m.c)
             if x.get("kind") == "CXXMemberCallExpr" and callee_name(x) == "intersect" and len(cfront.call_args(x)) >= 3]
    if not inter:
        chk.ob(rule, key, None, f.where, "no SpatialDomain::intersect call inside the loop over the points (moved into a helper?): not judged")
        return
    lists = sorted({render(z) for _, x in inter for z in cfront.call_args(x)[1:3]})
    iids = {m.id for m, _ in inter}

    def names_of(e):
        return {y.get("referencedDecl", {}).get("name") for y in walk(e) if y.get("kind") == "DeclRefExpr"} - {None}

    def forward(starts, avoid, stop_at_clear=False):
        seen, todo = set(), list(starts)
        while todo:
            i = todo.pop()
            if i in seen or i in avoid or i not in bids:
                continue
            m = cfg.node(i)
            if stop_at_clear and isinstance(m.c, dict):
                t = render(m.c).replace(" ", "")
                if any(("%s.clear(" % L) in t or ("%s.cut(" % L) in t or t.startswith("(%s=" % L) for L in lists):
                    continue        # the lists are emptied / replaced on this path: nothing of an earlier point is left in them
            seen.add(i)
            todo.extend(j for j in cfg.g.successors(i) if j != lp.id)
        return seen
    after = forward([j for i in iids for j in cfg.g.successors(i)], set())
    consumers = {i for i in after if i not in iids and isinstance(cfg.node(i).c, dict) and names_of(cfg.node(i).c) & set(lists)}
    if not consumers:
        chk.ob(rule, key, None, f.w(inter[0][0]), "no statement after the intersection mentions its lists %s: not judged" % lists)
        return
    skipping = forward([j for j in cfg.g.successors(lp.id) if "T" in cfg.g[lp.id][j]["labels"]], iids, stop_at_clear=True)
    stale = sorted(consumers & skipping)
    base = ("every path of one iteration to a consumer of the triangle lists %s runs through the intersection made for that point" % lists)
    if not stale:
        chk.ob(rule, key, True, f.w(inter[0][0]), base)
        return
    persist = [L for L in lists if L not in _declared_in(cfg, body)]
    conds = [b for m, _ in inter for b, lab in view.controlling_branches(m) if b.kind == "branch" and b.id in bids and isinstance(b.c, dict)]
    ctext = "; ".join(sorted({render(b.c)[:120] for b in conds}))
    first = cfg.node(stale[0])
    if not persist or not conds:
        chk.ob(rule, key, None, f.w(first), base + " -- `%s` is reached without it (intersection under `%s`); the lists are new in every iteration: not judged" % (render(first.c)[:60], ctext))
        return
    # variables derived from each per-point input of the cap, and the tests that select among their definitions
    derived = {}
    for what, arr in inputs.items():
        ds = set()
        changed = True
        while changed:
            changed = False
            for m in cfg.nodes:
                for v, rhs in node_defs(m):
                    if v in ds or rhs is None:
                        continue
                    ar = array_read(rhs, getattr(f, "alias", None))
                    direct = (ar is not None and ar[0] == arr) or ref_desc_in(rhs, getattr(f, "alias", None)) == arr
                    if direct or (names_of(rhs) & ds):
                        ds.add(v)
                        changed = True
                        for b, lab in (view.controlling_branches(m) if direct else ()):
                            if b.kind == "branch" and isinstance(b.c, dict) and b.id not in {c.id for c in conds}:
                                ds.update(n_ for n_ in names_of(b.c) if n_ != ivar)
        derived[what] = ds
    # what the reuse condition depends on (through the locals it is computed from)
    deps = set()
    for b in conds:
        deps |= names_of(b.c)
    for _ in range(3):
        for m in body:
            for v, rhs in node_defs(m):
                if v in deps and rhs is not None:
                    deps |= names_of(rhs)
    missing = sorted(what for what, ds in derived.items() if ds and not (deps & ds))
    unknown = sorted(what for what, ds in derived.items() if not ds)
    if missing:
        chk.ob(rule, key, False, f.w(inter[0][0]),
               base + " -- `%s` (line %s) is reached without it: the intersection runs only under `%s` and the lists %s live across iterations, so the cover of an "
               "earlier point is searched again; that condition does not depend on the %s of the point (variables that carry it: %s): a point whose %s differs from "
               "the one the kept cover was built for is searched in the wrong set of triangles and pairs outside it are lost"
               % (render(first.c)[:60], f.w(first).rsplit(":", 1)[-1], ctext, persist, " / ".join(missing), {w_: sorted(derived[w_])[:6] for w_ in missing}, " / ".join(missing)))
    else:
        chk.ob(rule, key, None, f.w(inter[0][0]), base + " -- `%s` is reached without it (intersection under `%s`, which mentions every input of the cap%s): the reuse of an "
               "earlier cover is not judged" % (render(first.c)[:60], ctext, "" if not unknown else "; not traced: %s" % unknown))


def candidate_loops_rule(chk, rule, fname, f, loop_ivar, fs):
    """every candidate triangle is examined: a loop that runs over the triangle lists of the intersection - or over a container they
    were copied into - is left only through its bound.  The candidates are the full list followed by the partial list (each in the
    order the tree walk produced it), so nothing about the triangles still to come follows from the value of the one in hand: an exit
    (break / goto) taken under a condition on the current candidate drops the remaining ones, and with them every point they hold.
    Not judged: exits by return / throw, exits that do not depend on the candidate, and code that sorts the candidate container."""
    cfg, view = f.cfg, f.view
    lp, ivar = loop_ivar
    key = "%s::candidate-loops-run-to-their-end" % fname
    body = loop_body(cfg, view, lp)
    bids = {m.id for m in body}
    inter = [(m, x) for m in body if isinstance(m.c, dict) for x in walk(m.c)
             if x.get("kind") == "CXXMemberCallExpr" and callee_name(x) == "intersect" and len(cfront.call_args(x)) >= 3]
    if not inter:
        chk.ob(rule, key, None, f.where, "no SpatialDomain::intersect call inside the loop over the points: not judged")
        return
    lists = sorted({render(z) for _, x in inter for z in cfront.call_args(x)[1:3]})
    try:
        copies = list_copies(fs or {}, f.decl, lists)
    except (AnalysisError, KeyError, TypeError, IndexError):
        copies = {}
    containers = set(lists) | {c for v_ in copies.values() for c in v_}

    def names_of(e):
        return {y.get("referencedDecl", {}).get("name") for y in walk(e) if y.get("kind") == "DeclRefExpr"} - {None}
    seen, todo = set(), [j for m, _ in inter for j in cfg.g.successors(m.id)]
    while todo:
        i = todo.pop()
        if i in seen or i not in bids:
            continue
        seen.add(i)
        todo.extend(j for j in cfg.g.successors(i) if j != lp.id)
    sorts = [m for m in cfg.nodes if isinstance(m.c, dict) and any(y.get("kind") in ("CallExpr", "CXXMemberCallExpr") and (callee_name(y) or "").split("::")[-1] in ("sort", "stable_sort")
                                                                    and names_of(y) & containers for y in walk(m.c))]
    cloops, bad, unk = [], [], []
    for L in [cfg.node(i) for i in sorted(seen) if cfg.node(i).kind == "loop"]:
        lb = loop_body(cfg, view, L)
        lids = {m.id for m in lb}
        inner_loops = [m for m in lb if m.kind == "loop"]
        nested_ids = {q.id for il in inner_loops for q in loop_body(cfg, view, il)}
        own = [m for m in lb if m.id not in nested_ids]
        if not any(isinstance(m.c, dict) and names_of(m.c) & containers for m in own + [L]):
            continue
        cloops.append(L)
        for m in lb:
            for j in cfg.g.successors(m.id):
                if j in lids or j == L.id:
                    continue
                t = cfg.node(j)
                if m.kind in ("return", "raise") or t.kind in ("return", "raise", "exit", "raise_exit"):
                    continue
                conds = [b for b, lab in view.controlling_branches(m) if b.kind == "branch" and b.id in lids and isinstance(b.c, dict)]
                deps = set()
                for b in conds:
                    deps |= names_of(b.c)
                for _ in range(3):
                    for q in lb:
                        for v, rhs in node_defs(q):
                            if v in deps and rhs is not None:
                                deps |= names_of(rhs)
                ctext = "; ".join(render(b.c)[:80] for b in conds) or "(unconditional)"
                ln = f.w(conds[-1] if conds else m).rsplit(":", 1)[-1]
                if deps & containers and not sorts:
                    bad.append((ln, ctext, render(L.c)[:60] if isinstance(L.c, dict) else "", conds[-1] if conds else m))
                else:
                    unk.append((ln, ctext, "the candidate container is sorted before" if sorts else "the condition does not depend on the candidate"))
    if not cloops:
        chk.ob(rule, key, None, f.where, "no loop over the triangle lists %s was found after the intersection" % sorted(containers))
        return
    ok = False if bad else (None if unk else True)
    chk.ob(rule, key, ok, f.w(bad[0][3]) if bad else f.w(cloops[0]),
           "the %d loop(s) over the candidate triangles (%s) are left only through their bound: every triangle of the full and of the partial list is examined%s%s"
           % (len(cloops), sorted(containers),
              "" if not bad else " -- the loop `%s` is left early under `%s` (line %s), a condition on the candidate in hand: the candidates are the full list followed by the partial "
              "list, not one ascending sequence, so the triangles still to come - and every pair in them - are skipped" % (bad[0][2], bad[0][1], bad[0][0]),
              "" if not unk else " -- not judged: early exit under `%s` (line %s): %s" % (unk[0][1], unk[0][0], unk[0][2])))


def array_read_ptr(expr):
    """like array_read but for a pointer (no dereference needed)"""
    return array_read(expr)


def ref_desc_in(expr, alias=None):
    for x in walk(expr):
        if x.get("kind") == "CallExpr" and callee_name(x) in ("PyArray_DIMS", "PyArray_NDIM", "PyArray_BYTES"):
            rd = ref_desc(cfront.call_args(x)[0])
            return (alias or {}).get(rd[1], rd) if rd[0] == "local" else rd
    return None


def cfg_succ(cfg, n):
    return [(cfg.node(j), cfg.g[n.id][j]["labels"]) for j in cfg.g.successors(n.id)]


def _declared_in(cfg, nodes):
    """names declared (VarDecl) by the given CFG nodes"""
    out = set()
    for m in nodes:
        if isinstance(m.c, dict):
            for x in walk(m.c):
                if x.get("kind") == "VarDecl" and x.get("name"):
                    out.add(x["name"])
    return out


def loop_body(cfg, view, lp):
    return [m for m in cfg.nodes if m.id != lp.id and any(b.id == lp.id and lab == "T" for b, lab in view.controlling_branches(m))]


def stale_values(cfg, view, lp, ivar, is_input_array, alias=None):
    """Per-iteration values that are used before they are brought up to date.  A variable that lives across the iterations of the
    loop `lp` (declared outside it) and is assigned inside it from element `ivar` of an input array - or from another such variable -
    holds, at the start of iteration i, the value of iteration i-1.  Every use of it inside the loop must therefore come after the
    assignment of the same iteration.  The assignment may be conditional on tests that cannot change during the loop (one value
    for all points / one per point): those tests are taken as holding, i.e. the question is asked for the case in which the
    per-iteration assignment is executed at all.
    Returns [(variable, def nodes, stale use nodes, decided)]: decided is False when a test controlling the assignment can change
    inside the loop (then an earlier use may be intended, e.g. a memo of the previous value, and nothing is concluded)."""
    body = loop_body(cfg, view, lp)
    bids = {m.id for m in body}
    inside_decl = _declared_in(cfg, body)
    written = set()
    for m in body:
        written.update(cfg.defs_uses(m)[0])
    plain = {}
    for m in body:
        if m.kind != "stmt" or not isinstance(m.c, dict):
            continue
        c = strip(m.c)
        if c.get("kind") == "BinaryOperator" and c.get("opcode") == "=" and strip(c["inner"][0]).get("kind") == "DeclRefExpr":
            v = render(strip(c["inner"][0]))
            if v not in inside_decl:
                plain.setdefault(v, []).append((m, c["inner"][1]))
    per = {}
    changed = True
    while changed:
        changed = False
        for v, ds in plain.items():
            if v in per:
                continue
            for m, rhs in ds:
                ar = array_read(rhs, alias)
                names = {x.get("referencedDecl", {}).get("name") for x in walk(rhs) if x.get("kind") == "DeclRefExpr"}
                if (ar is not None and ar[1] == ivar and is_input_array(ar[0])) or (names & set(per)):
                    per[v] = [d for d, _ in ds]
                    changed = True
                    break
    out = []
    for v, dnodes in sorted(per.items()):
        guards = None
        decided = True
        for d in dnodes:
            gs = set()
            for b, lab in view.controlling_branches(d):
                if b.kind == "branch" and b.id in bids:
                    if set(cfg.defs_uses(b)[1]) & written:
                        decided = False
                    else:
                        gs.add((b.id, lab))
            guards = gs if guards is None else (guards & gs)
        pruned = set()
        for bid, lab in guards or ():
            for j in cfg.g.successors(bid):
                if lab not in cfg.g[bid][j]["labels"]:
                    pruned.add((bid, j))
        avoid = {d.id for d in dnodes} | {lp.id}
        seen, stale = set(), []
        todo = [j for j in cfg.g.successors(lp.id) if "T" in cfg.g[lp.id][j]["labels"]]
        while todo:
            i = todo.pop()
            if i in seen or i in avoid or i not in bids:
                continue
            seen.add(i)
            m = cfg.node(i)
            dd, uu = cfg.defs_uses(m)
            if v in uu:
                stale.append(m)
            if v in dd and v not in uu:
                continue            # redefined on this path: later uses see that value
            todo.extend(j for j in cfg.g.successors(i) if (i, j) not in pruned)
        out.append((v, dnodes, stale, decided))
    return out


# ---------------------------------------------------------------------------
def hmap_rule(chk, fs):
    ctor = fs["Matcher::Matcher"]
    ps = cfront.params_of(ctor)
    g = cfront.CCFG(ctor)
    asg = {}
    order = []
    for n in g.nodes:
        if n.kind == "stmt" and isinstance(n.c, dict):
            c = strip(n.c)
            if c.get("kind") == "BinaryOperator" and c.get("opcode") == "=":
                l = ref_desc(c["inner"][0])
                asg[l] = render(c["inner"][1])
            order.append(render(n.c))
    where = "esutil/htm/htmc.cc:%s" % ctor.get("line", "?")
    ok = asg.get(("member", "ra")) == ps[1] and asg.get(("member", "dec")) == ps[2]
    chk.ob("R12.3", "Matcher::Matcher::keeps-ra-dec-in-roles", ok, where, "the constructor keeps (ra, dec) in that order (%s)" % {k[1]: v for k, v in asg.items() if k[0] == "member"})
    ok = any("Py_INCREF(%s)" % ps[1] in t for t in order) and any("Py_INCREF(%s)" % ps[2] in t for t in order)
    chk.ob("R12.3", "Matcher::Matcher::holds-references", ok, where, "the kept arrays are reference counted (they outlive the python call)")
    init_i = [i for i, t in enumerate(order) if "htm_interface.init(depth" in t]
    hm_i = [i for i, t in enumerate(order) if t.startswith("init_hmap(")]
    np_i = [i for i, t in enumerate(order) if t.startswith("(npoints =") and "PyArray_API[158]" in t]
    ok = bool(init_i and hm_i and np_i) and init_i[0] < hm_i[0] and np_i[0] < hm_i[0]
    chk.ob("R12.3", "Matcher::Matcher::order", ok, where, "the interface is initialised at the requested depth and the point count is taken before the id map is built")
    fn = fs["Matcher::init_hmap"]
    g = cfront.CCFG(fn)
    view = g.view()
    where = "esutil/htm/htmc.cc:%s" % fn.get("line", "?")
    loops = [n for n in g.nodes if n.kind == "loop"]
    ok = len(loops) == 1 and render(loops[0].c).endswith("< npoints)")
    ivar = render(loops[0].c["inner"][0]) if ok else None
    RIN, _ = view.reaching_defs()
    inits = [render(r) for i in RIN.get(loops[0].id, {}).get(ivar, ()) for v, r in node_defs(g.node(i)) if v == ivar] if ok else []
    chk.ob("R12.3", "init_hmap::all-members", ok and inits == ["0"], where, "the map is built from a loop over all member indices 0..npoints-1")
    if not ok:
        return
    reads = {}
    look = None
    alias_ = pointer_aliases(fn)
    for n in g.nodes:
        for v, rhs in node_defs(n):
            ar = array_read(rhs, alias_)
            if ar:
                reads[v] = ar
            if "lookupID(" in render(rhs):
                look = (n, v, rhs)
    ok = look is not None
    if ok:
        call = [x for x in walk(look[2]) if x.get("kind") == "CXXMemberCallExpr" and callee_name(x) == "lookupID"][0]
        a = [render(z) for z in cfront.call_args(call)]
        ok = len(a) == 2 and reads.get(a[0]) == (("member", "ra"), ivar) and reads.get(a[1]) == (("member", "dec"), ivar) and "htm_interface" in render(call["inner"][0])
    chk.ob("R12.3", "init_hmap::id-of-own-position", bool(ok), where, "member i is filed under lookupID(ra[i], dec[i]) of this matcher's interface")
    pushes = [(n, render(cfront.call_args(x)[0]), render(x["inner"][0])) for n in g.nodes if isinstance(n.c, dict) for x in walk(n.c)
              if x.get("kind") == "CXXMemberCallExpr" and callee_name(x) == "push_back"]
    arms = {}
    for n, arg, recv in pushes:
        for b, lab in view.controlling_branches(n):
            if b.kind == "branch":
                arms[lab] = (arg, recv)
    stores = [render(n.c) for n in g.nodes if isinstance(n.c, dict) and "hmap[" in render(n.c)]
    ok = set(arms) == {"T", "F"} and all(a == ivar for a, _ in arms.values()) and look is not None and any("hmap[%s]" % look[1] in s for s in stores)
    if not ok and look is not None and not arms:
        # one unconditional append through operator[] (which creates the empty list the first time a triangle is seen)
        direct = [(n, a, r) for n, a, r in pushes if r.replace(" ", "").startswith("hmap[%s]" % look[1]) and a == ivar and not [b for b, lab in view.controlling_branches(n) if b.kind == "branch"]]
        ok = len(direct) == 1 and len(pushes) == 1
        arms = {"unconditional": direct[0][1:]} if ok else arms
    chk.ob("R12.3", "init_hmap::index-pushed-in-both-arms", bool(ok), where,
           "the member index is appended exactly once, whether its triangle is new (new list stored under the id) or already present (%s)" % arms)
    member_bucket_rule(chk, fn, g, view, RIN, ivar, look, where)


def member_bucket_rule(chk, fn, g, view, RIN, ivar, look, where, rule="R12.3", fname="init_hmap"):
    """none missing, the id -> members map: the search looks a member up ONLY in the list stored under the id of the member's own
    triangle, so every statement that appends member index i must append to the list that IS hmap[id(i)], id(i) being the lookupID of
    this iteration.  The receiving list is identified by data flow, not by spelling:
      hmap[K]                      K has to be the id of this iteration;
      it->second / (*it).second    `it` = hmap.find(K) of this iteration (the assignment dominates the append);
      a local vector v             stored afterwards as hmap[K] = v on the same straight-line path;
      a pointer / reference P      either bound in this iteration to one of the above, or a bucket remembered from an earlier
                                   iteration: then the append must be guarded by `id == C` for a remembered id C, and the pair (P, C)
                                   has to be kept consistent - every statement that re-points P to the bucket of K is accompanied, in
                                   the same straight-line region, by C = K, and every C = K by a re-pointing of P (otherwise P and C
                                   name different triangles after some sequence of points and a member lands in a foreign bucket).
    False only when the receiver is identified and is the bucket of another key / an inconsistently remembered one; anything not
    recognised gives no verdict."""
    import re as _re
    if look is None:
        chk.ob(rule, "%s::member-filed-under-own-id" % fname, None, where, "the lookupID call that gives a member's triangle id was not located")
        return
    idnode, idvar = look[0], look[1]
    ptypes = {x["name"]: (x.get("type") or {}).get("qualType", "") for x in walk(cfront.body_of(fn)) if x.get("kind") == "VarDecl" and x.get("name")}

    def region(n):
        return frozenset((b.id, lab) for b, lab in view.controlling_branches(n))

    def cur_id(text, at):
        """is `text` the id of the point of this iteration at node `at`: the id variable itself (its one reaching definition there is the
        lookupID statement) or a local all of whose reaching definitions copy it"""
        if text == idvar:
            return RIN.get(at.id, {}).get(idvar, set()) == {idnode.id}
        ds = RIN.get(at.id, {}).get(text, set())
        rh = [r for i in ds for v, r in node_defs(g.node(i)) if v == text]
        return bool(rh) and all(render(strip(r)) == idvar and cur_id(idvar, g.node(i)) for i in ds for v, r in node_defs(g.node(i)) if v == text) and cur_id(idvar, at)

    def opcall(e, op):
        e = strip(e)
        return e if isinstance(e, dict) and e.get("kind") == "CXXOperatorCallExpr" and callee_name(e) == "operator" + op and len(e.get("inner", [])) >= 2 else None

    def map_subscript(e):
        c = opcall(e, "[]")
        if c is not None and len(c["inner"]) == 3 and ref_desc(c["inner"][1]) == ("member", "hmap"):
            return render(strip(c["inner"][2]))
        return None

    def iter_writes(it):
        """[(node, key or None)] for every statement that gives the iterator `it` a value (a default-constructed declaration gives none)"""
        out = []
        for n in g.nodes:
            if not isinstance(n.c, dict):
                continue
            for x in walk(n.c):
                rhs = None
                c = opcall(x, "=") if x.get("kind") == "CXXOperatorCallExpr" else None
                if c is not None and render(strip(c["inner"][1])) == it and len(c["inner"]) == 3:
                    rhs = c["inner"][2]
                elif x.get("kind") == "VarDecl" and x.get("name") == it and init_of(x) is not None:
                    if not any(y.get("kind") in ("CXXMemberCallExpr", "CallExpr", "DeclRefExpr") for y in walk(init_of(x))):
                        continue        # default construction
                    rhs = init_of(x)
                elif x.get("kind") in ("CXXOperatorCallExpr", "UnaryOperator") and (callee_name(x) in ("operator++", "operator--") or x.get("opcode") in ("++", "--")) \
                        and any(render(strip(y)) == it for y in x.get("inner", [])[-1:]):
                    out.append((n, None))
                    continue
                if rhs is None:
                    continue
                key = None
                for y in walk(rhs):
                    if y.get("kind") == "CXXMemberCallExpr" and callee_name(y) == "find" and y["inner"][0].get("inner") \
                            and ref_desc(y["inner"][0]["inner"][0]) == ("member", "hmap") and len(cfront.call_args(y)) == 1:
                        key = render(strip(cfront.call_args(y)[0]))
                out.append((n, key))
        return out

    def bucket_key(e, at):
        """('key', K, node where K was read) of the bucket the expression denotes / ('unknown', why)"""
        e = strip(e)
        if isinstance(e, dict) and e.get("kind") == "UnaryOperator" and e.get("opcode") == "&":
            e = strip(e["inner"][0])
        k = map_subscript(e)
        if k is not None:
            return ("key", k, at)
        if isinstance(e, dict) and e.get("kind") == "MemberExpr" and e.get("name") == "second" and e.get("inner"):
            b = strip(e["inner"][0])
            it = None
            c = opcall(b, "->") or opcall(b, "*")
            if c is not None:
                it = render(strip(c["inner"][1]))
            if it is None:
                return ("unknown", "`%s` is not an iterator dereference" % render(b))
            ws = iter_writes(it)
            dom = [(n, key) for n, key in ws if n.id != at.id and view.dominates(n, at)]
            if not dom or len(dom) != len(ws) or any(key is None for _, key in ws) or len({key for _, key in dom}) != 1:
                return ("unknown", "the iterator `%s` is not the result of one hmap.find(...) that precedes the use on every path" % it)
            return ("key", dom[0][1], dom[0][0])
        return ("unknown", "`%s`" % render(e))

    pushes = []
    for n in g.nodes:
        if isinstance(n.c, dict):
            for x in walk(n.c):
                if x.get("kind") == "CXXMemberCallExpr" and callee_name(x) == "push_back" and x["inner"][0].get("inner") and len(cfront.call_args(x)) == 1 \
                        and render(strip(cfront.call_args(x)[0])) == ivar:
                    pushes.append((n, x))
    verdicts = []           # (ok, node, text)
    for n, x in pushes:
        obj = strip(x["inner"][0]["inner"][0])
        arrow = bool(x["inner"][0].get("isArrow"))
        txt = render(n.c)
        if obj.get("kind") == "DeclRefExpr" and obj.get("referencedDecl", {}).get("kind") == "VarDecl":
            P = obj["referencedDecl"]["name"]
            pty = ptypes.get(P, "")
            if not arrow and not pty.rstrip().endswith("&"):
                # a local list that is stored in the map afterwards
                stores = []
                for m in g.nodes:
                    if not isinstance(m.c, dict):
                        continue
                    for y in walk(m.c):
                        c = opcall(y, "=") if y.get("kind") == "CXXOperatorCallExpr" else None
                        if c is not None and len(c["inner"]) == 3 and render(strip(c["inner"][2])) == P and map_subscript(c["inner"][1]) is not None:
                            stores.append((m, map_subscript(c["inner"][1])))
                here = [(m, k) for m, k in stores if view.dominates(n, m) and region(m) == region(n)]
                if len(here) == 1 and len(stores) == 1:
                    ok = cur_id(here[0][1], here[0][0])
                    verdicts.append((True if ok else False, n, "`%s`, stored as hmap[%s]%s" % (txt, here[0][1], "" if ok else " - which is not the id of member %s" % ivar)))
                else:
                    verdicts.append((None, n, "`%s`: the local list `%s` is not stored by one `hmap[id] = %s` that follows it" % (txt, P, P)))
                continue
            # a pointer / reference to a bucket
            ds = sorted(RIN.get(n.id, {}).get(P, set()))
            dd = [(g.node(i), r) for i in ds for v, r in node_defs(g.node(i)) if v == P]
            if len(dd) == 1 and view.dominates(dd[0][0], n) and dd[0][0].id != n.id:
                bk = bucket_key(dd[0][1], dd[0][0])
                if bk[0] == "key":
                    ok = cur_id(bk[1], bk[2]) and cur_id(idvar, n)
                    verdicts.append((True if ok else False, n, "`%s` with %s = bucket of `%s`%s" % (txt, P, bk[1], "" if ok else " - which is not the id of member %s" % ivar)))
                else:
                    verdicts.append((None, n, "`%s`: %s" % (txt, bk[1])))
                continue
            # remembered from an earlier iteration: needs the guard id == C and a consistent (P, C) pair
            C = None
            for ft in sorted(guard_facts(view, n)):
                mt = _re.match(r"^([A-Za-z_]\w*)==([A-Za-z_]\w*)$", ft)
                if mt and idvar in mt.groups() and mt.group(1) != mt.group(2):
                    C = mt.group(2) if mt.group(1) == idvar else mt.group(1)
            if C is None or not cur_id(idvar, n):
                verdicts.append((None, n, "`%s`: `%s` may still point to the bucket of an earlier member and no test `%s == <remembered id>` guards the append" % (txt, P, idvar)))
                continue
            lp_body = {m.id for lp in g.nodes if lp.kind == "loop" for m in loop_body(g, view, lp)}
            pdefs, cdefs, unk = [], [], []
            for m in g.nodes:
                for v, r in node_defs(m):
                    if v == P:
                        if render(strip(r)) in ("NULL", "0", "nullptr", "__null") or m.id not in lp_body:
                            continue
                        bk = bucket_key(r, m)
                        if bk[0] != "key":
                            unk.append("`%s`: %s" % (render(m.c), bk[1]))
                        else:
                            pdefs.append((m, bk[1]))
                    elif v == C and m.id in lp_body:
                        cdefs.append((m, render(strip(r))))
            if unk or not pdefs:
                verdicts.append((None, n, "`%s`: %s" % (txt, "; ".join(unk) or "no statement that points `%s` to a bucket was recognised" % P)))
                continue
            lone_p = [(m, k) for m, k in pdefs if not any(region(c_) == region(m) and kc == k for c_, kc in cdefs)]
            lone_c = [(c_, kc) for c_, kc in cdefs if not any(region(c_) == region(m) and kc == k for m, k in pdefs)]
            if lone_p:
                m, k = lone_p[0]
                verdicts.append((False, m, "`%s` appends member %s to a bucket remembered from an earlier member, guarded by `%s == %s`; but `%s` re-points `%s` to the bucket of "
                                 "triangle `%s` without bringing `%s` along (it keeps the id of an earlier triangle): after that a member whose id equals `%s` is filed under "
                                 "the wrong triangle and no search of its own triangle finds it" % (txt, ivar, idvar, C, render(m.c), P, k, C, C)))
            elif lone_c:
                c_, kc = lone_c[0]
                verdicts.append((False, c_, "`%s` appends member %s to a remembered bucket guarded by `%s == %s`; but `%s` changes the remembered id without re-pointing `%s` "
                                 "to that triangle's bucket" % (txt, ivar, idvar, C, render(c_.c), P)))
            elif any(not cur_id(k, m) for m, k in pdefs):
                verdicts.append((None, n, "`%s`: a bucket `%s` is pointed to is not that of the current id" % (txt, P)))
            else:
                verdicts.append((True, n, "`%s` under `%s == %s`, (%s, %s) updated together at %s" % (txt, idvar, C, P, C, sorted({render(m.c) for m, _ in pdefs}))))
            continue
        bk = bucket_key(obj, n)
        if bk[0] == "key":
            ok = cur_id(bk[1], bk[2]) and cur_id(idvar, n)
            if not ok and bk[1] != idvar and not _re.match(r"^[A-Za-z_]\w*$", bk[1]):
                verdicts.append((None, n, "`%s`: key `%s` not followed" % (txt, bk[1])))
            else:
                verdicts.append((True if ok else False, n, "`%s` = bucket of `%s`%s" % (txt, bk[1], "" if ok else " - which is not the id of member %s (%s = lookupID of this iteration)" % (ivar, idvar))))
        else:
            verdicts.append((None, n, "`%s`: %s" % (txt, bk[1])))
    bad = [v for v in verdicts if v[0] is False]
    unk = [v for v in verdicts if v[0] is None]
    ok = False if bad else (None if (unk or not verdicts) else True)
    at = (bad or unk or verdicts or [(None, None, "")])[0][1]
    ln = None
    if at is not None and isinstance(at.c, dict):
        ln = at.c.get("line") or next((y["line"] for y in walk(at.c) if y.get("line")), None)
    chk.ob(rule, "%s::member-filed-under-own-id" % fname, ok, ("esutil/htm/htmc.cc:%s" % ln) if ln else where,
           "every append of member index %s goes to the list that is hmap[%s], %s being lookupID of that member's own position (the search looks a member up only under "
           "its own triangle id)%s" % (ivar, idvar, idvar, " -- " + "; ".join(v[2] for v in (bad or unk)[:2]) if (bad or unk) else
                                     (" (%s)" % "; ".join(v[2] for v in verdicts[:4]) if verdicts else " -- no append of the member index was located")))


# ---------------------------------------------------------------------------
def gcirc_rule(chk, fn, decls):
    where = "esutil/htm/htmc.cc:%s" % fn.get("line", "?")
    ps = cfront.params_of(fn)
    r, L = lower_function_h(fn)
    ra1, dec1, ra2, dec2, deg = [sp.Symbol(p) for p in ps]
    same = [v for c, v in r if c == sp.And(sp.Eq(ra1, ra2), sp.Eq(dec1, dec2)) or c == sp.And(sp.Eq(dec1, dec2), sp.Eq(ra1, ra2))]
    chk.ob("R12.8", "gcirc::identical-points-exactly-zero", len(same) == 1 and same[0] == 0, where, "identical coordinates return exactly 0 before any trigonometry")
    # statement level: how is the angle obtained?
    tab = stmt_terms_h(fn)
    outer = []
    for lhs, rhs in tab:
        if rhs is not None and isinstance(rhs, (sp.acos, sp.asin, sp.atan2, sp.atan)):
            outer.append((lhs, rhs))
    kinds = sorted({type(t).__name__ for _, t in outer})
    chk.ob("R12.8", "gcirc::small-angle-stable-form", bool(outer) and "acos" not in kinds, where,
           "the separation must not be the arc cosine of a cosine: d(acos x)/dx = -1/sin(theta), so the rounding of x (1.1e-16) becomes 1.1e-16/theta in the angle, "
           "which exceeds the property's 1e-9 degree margin for theta < 4e-4 degrees (the quantifier reaches 1e-6 degrees); found inverse function(s): %s" % kinds)
    # value: general-branch return with degrees = true
    gen = [v for c, v in r if c == sp.true]
    ok = False
    why = ""
    if len(gen) == 1:
        v = gen[0]
        v = v.subs(deg, 1) if deg in v.free_symbols else v
        v = sp.piecewise_fold(v) if isinstance(v, sp.Piecewise) else v
        if isinstance(v, sp.Piecewise):
            # `if (degrees) dis *= R2D` lowered as a Piecewise on degrees != 0
            v = [val for val, cond in v.args if cond != sp.true and cond is not sp.false] and v.args[0][0]
        d2r = sp.pi / 180
        d1, d2, dl = dec1 * d2r, dec2 * d2r, (ra1 - ra2) * d2r
        cosd = sp.sin(d1) * sp.sin(d2) + sp.cos(d1) * sp.cos(d2) * sp.cos(dl)
        k, rest = v.as_independent(ra1, dec1, ra2, dec2, as_Add=False)
        if sp.simplify(k - 180 / sp.pi) != 0:
            why = "not converted to degrees by 180/pi (factor %s)" % k
        elif isinstance(rest, sp.atan2):
            num, den = rest.args
            a = sp.cos(d2) * sp.sin(dl)
            b = sp.cos(d1) * sp.sin(d2) - sp.sin(d1) * sp.cos(d2) * sp.cos(dl)
            okd = sp.expand(sp.expand_trig(den - cosd)) == 0 or sp.simplify(den - cosd) == 0
            okn = sp.simplify(sp.expand(sp.expand_trig(num ** 2 - (a ** 2 + b ** 2)))) == 0
            ok = bool(okd and okn)
            why = "" if ok else "atan2 arguments are not (|p1 x p2|, p1 . p2)"
        elif isinstance(rest, sp.acos):
            inner = rest.args[0]
            core = [t for t in sp.preorder_traversal(inner) if isinstance(t, sp.Add)]
            ok = any(sp.expand(sp.expand_trig(t - cosd)) == 0 for t in core) or sp.expand(sp.expand_trig(inner - cosd)) == 0
            why = "" if ok else "acos argument is not the spherical law of cosines"
        else:
            why = "unrecognised form %s" % str(rest)[:120]
    else:
        why = "%d general return paths" % len(gen)
    chk.ob("R12.8", "gcirc::great-circle-formula-in-degrees", ok, where, "for degrees = true the result is the great-circle separation of (ra1, dec1), (ra2, dec2) given in degrees, times 180/pi%s" % (" -- " + why if why else ""))


# ---------------------------------------------------------------------------
# ---------------------------------------------------------------------------
# what a coordinate argument has become by the time it is handed on: abstract interpretation of the function over a finite domain
# (covers every input; nothing is executed)
# ---------------------------------------------------------------------------
# atoms of the domain (a value is described by the set of atoms it may be):
#   F8+  ndarray with >= 1 dimension, native float64, a private copy (made by a copying conversion)
#   F8   ndarray with >= 1 dimension, native float64, possibly the caller's own array
#   ARR  ndarray with >= 1 dimension whose dtype was not shown to be native float64 (as np.atleast_1d leaves it)
#   BAD  ndarray with >= 1 dimension converted to another dtype
#   RAW  the caller's object as given (scalar, list, any array)
#   UNK  not recognised
_F8P, _F8, _ARR, _BAD, _RAW, _UNK = "F8+", "F8", "ARR", "BAD", "RAW", "UNK"
_UNKS = frozenset([_UNK])
_NATIVE_F8_STR = ("f8", "float64", "d", "double", "=f8", "float", "float_")
_NP_ARRAYERS = ("atleast_1d", "array", "asarray", "asanyarray", "ascontiguousarray", "require")   # accepted as giving an ndarray (the reviewed table)
_NOT_SINKS = ("len", "isinstance", "print", "str", "repr", "type", "id", "hasattr", "getattr", "format", "tuple", "list")


def _is_np(func):
    d = dotted_name(func) or ""
    return d.startswith(("np.", "numpy."))


def _dtype_kind(e, fi, depth=0):
    """'f8' when the expression denotes the native float64 dtype, 'other' when it denotes another dtype, None when not recognised"""
    if e is None or depth > 4:
        return None
    if isinstance(e, ast.Constant) and isinstance(e.value, str):
        return "f8" if e.value in _NATIVE_F8_STR else "other"
    if isinstance(e, ast.Name):
        if e.id == "float":
            return "f8"
        if e.id in ("int", "bool", "complex", "object", "str"):
            return "other"
        sd = rules.single_defs(fi.node)
        if e.id in sd:
            return _dtype_kind(sd[e.id], fi, depth + 1)
        if e.id in fi.module.consts and e.id not in fi.params:
            return _dtype_kind(fi.module.consts[e.id], fi, depth + 1)
        return None
    if isinstance(e, ast.Attribute) and _is_np(e):
        if e.attr in ("float64", "double", "float_"):
            return "f8"
        if e.attr in ("float32", "float16", "longdouble", "int64", "int32", "int16", "int8", "uint64", "uint32", "uint16", "uint8", "intp", "single",
                      "complex128", "complex64", "bool_", "object_", "half", "longlong", "int_"):
            return "other"
        return None
    if isinstance(e, ast.Call) and call_name(e) == "dtype" and _is_np(e.func) and len(e.args) == 1 and not e.keywords:
        return _dtype_kind(e.args[0], fi, depth + 1)
    return None


_NATIVE_CODES = {"i8": ("i8", "int64", "=i8"), "f8": ("f8", "float64", "=f8")}


def _dtype_spellings_to_codes(e, fi):
    """the field list of a record dtype with every field type that is a spelling of the native int64 / float64 dtype replaced by the
    two-letter code ('i8' / 'f8') the comparison with the fprintf conversions is written in: `np.int64`, `numpy.float64`, `np.dtype('i8')`,
    'int64', '=f8'.  Spellings whose width depends on the platform (`int`, `np.int_`, 'l') and everything not in the table are left as
    they are, so the literal evaluation fails (no verdict) or the comparison sees a type that is not in its table."""
    if not isinstance(e, (ast.List, ast.Tuple)):
        return e
    out = []
    for fld in e.elts:
        if isinstance(fld, ast.Tuple) and len(fld.elts) == 2:
            ty = fld.elts[1]
            code = None
            if isinstance(ty, ast.Call) and call_name(ty) == "dtype" and _is_np(ty.func) and len(ty.args) == 1 and not ty.keywords:
                ty = ty.args[0]
            if isinstance(ty, ast.Constant) and isinstance(ty.value, str):
                code = next((c for c, sp_ in _NATIVE_CODES.items() if ty.value in sp_), None)
            elif isinstance(ty, ast.Attribute) and _is_np(ty) and isinstance(ty.value, ast.Name) and ty.value.id not in fi.params \
                    and not any(isinstance(n, ast.Name) and n.id == ty.value.id and isinstance(n.ctx, ast.Store) for n in ast.walk(fi.node)):
                # the fixed-width scalar types; the ones that are not 8 bytes wide get their own code, which the comparison rejects
                code = {"int64": "i8", "float64": "f8", "double": "f8", "int32": "i4", "int16": "i2", "int8": "i1", "uint64": "u8", "uint32": "u4",
                        "uint16": "u2", "uint8": "u1", "float32": "f4", "float16": "f2"}.get(ty.attr)
            if code is not None:
                fld = ast.Tuple(elts=[fld.elts[0], ast.Constant(value=code)], ctx=ast.Load())
        out.append(fld)
    return ast.List(elts=out, ctx=ast.Load())


def _recfile_mode(repo, call):
    """the constant `mode` a Recfile(...) call opens the file with: the argument bound to the constructor's parameter `mode` (by position or
    by keyword, as the signature of Recfile.__init__ in the tree has it), its default when the call leaves it out; None when not a constant"""
    pos, default = 1, None
    try:
        init = repo.func("esutil.recfile.Util.Recfile.__init__")
        names = [p for p in init.params if p != "self"]
        if "mode" not in names:
            return None
        pos = names.index("mode")
        default = init.defaults.get("mode")
    except Exception:
        pass
    if any(isinstance(a, ast.Starred) for a in call.args) or any(k.arg is None for k in call.keywords):
        return None
    e = call.args[pos] if len(call.args) > pos else kwarg(call, "mode")
    if e is None:
        e = default
    return const_value(e) if e is not None else None


def _dtype_subject(e):
    """name V when e is `V.dtype`"""
    if isinstance(e, ast.Attribute) and e.attr == "dtype" and isinstance(e.value, ast.Name):
        return e.value.id
    return None


def _test_facts(test, pol, fi):
    """{variable: set of tags} that hold on the edge on which `test` has the truth value `pol`.  Tags: NATIVE (dtype equals the native
    float64 dtype), ISNATIVE (native byte order), SUBF8 (some float64, any byte order), KINDF, SIZE8, UNKNOWN (a condition on the
    dtype that is not in the table: nothing is concluded about the variable on this edge)."""
    out = {}

    def add(v, tag):
        out.setdefault(v, set()).add(tag)

    def mentions_dtype(e):
        return {x.value.id for x in ast.walk(e) if isinstance(x, ast.Attribute) and x.attr == "dtype" and isinstance(x.value, ast.Name)} | \
               {a.id for x in ast.walk(e) if isinstance(x, ast.Call) and not _is_np(x.func) and call_name(x) not in _NOT_SINKS
                and not (isinstance(x.func, ast.Attribute) and isinstance(x.func.value, ast.Name)) for a in x.args if isinstance(a, ast.Name)}

    def atom(e, p, definite):
        tags = []
        if isinstance(e, ast.Compare) and len(e.ops) == 1:
            op, a, b = e.ops[0], e.left, e.comparators[0]
            for x, y in ((a, b), (b, a)):
                v = _dtype_subject(x)
                if v is not None and isinstance(op, (ast.Eq, ast.NotEq, ast.Is, ast.IsNot)):
                    k = _dtype_kind(y, fi)
                    eq = isinstance(op, (ast.Eq, ast.Is)) == p
                    if k == "f8":
                        tags.append((v, "NATIVE" if eq else None))
                    elif k == "other":
                        tags.append((v, None))
                    else:
                        tags.append((v, "UNKNOWN"))
                if isinstance(x, ast.Attribute) and _dtype_subject(x.value) is not None and isinstance(op, (ast.Eq, ast.NotEq)):
                    v = _dtype_subject(x.value)
                    eq = isinstance(op, ast.Eq) == p
                    val = const_value(y)
                    if x.attr == "kind":
                        tags.append((v, "KINDF" if eq and val == "f" else None))
                    elif x.attr == "itemsize":
                        tags.append((v, "SIZE8" if eq and val == 8 else None))
                    elif x.attr == "byteorder":
                        tags.append((v, "ISNATIVE" if eq and val == "=" else None))
                    elif x.attr in ("char", "name", "type"):
                        tags.append((v, "SUBF8" if eq and (val in ("d", "float64") or _dtype_kind(y, fi) == "f8") else None))
                    else:
                        tags.append((v, "UNKNOWN"))
        elif isinstance(e, ast.Attribute) and e.attr == "isnative" and _dtype_subject(e.value) is not None:
            tags.append((_dtype_subject(e.value), "ISNATIVE" if p else None))
        elif isinstance(e, ast.Call) and call_name(e) == "issubdtype" and _is_np(e.func) and len(e.args) == 2 and _dtype_subject(e.args[0]) is not None:
            tags.append((_dtype_subject(e.args[0]), "SUBF8" if p and _dtype_kind(e.args[1], fi) == "f8" else None))
        if not tags:
            for v in mentions_dtype(e):
                tags.append((v, "UNKNOWN"))
        for v, t in tags:
            if t == "UNKNOWN":
                add(v, "UNKNOWN")
            elif t is not None and definite:
                add(v, t)

    def go(e, p, definite):
        if isinstance(e, ast.UnaryOp) and isinstance(e.op, ast.Not):
            return go(e.operand, not p, definite)
        if isinstance(e, ast.BoolOp):
            conj = isinstance(e.op, ast.And) == p
            for v in e.values:
                go(v, p, definite and conj)
            return
        atom(e, p, definite)
    go(test, pol, True)
    return out


def _refine(state, test, pol, fi):
    facts = _test_facts(test, pol, fi)
    if not facts:
        return state
    st = dict(state)
    for v, tags in facts.items():
        if v not in st:
            continue
        native = "NATIVE" in tags or ("ISNATIVE" in tags and ("SUBF8" in tags or {"KINDF", "SIZE8"} <= tags))
        new = set()
        for a in st[v]:
            if native:
                new.add({_ARR: _F8, _RAW: _UNK, _BAD: _F8}.get(a, a))
            elif "UNKNOWN" in tags:
                new.add({_ARR: _UNK, _RAW: _UNK}.get(a, a))
            else:
                new.add(a)
        st[v] = frozenset(new)
    return st


class _ArrayFlow:
    """forward dataflow over the statement CFG of one python function in the domain above"""

    def __init__(self, fi, init, depth=0):
        self.fi = fi
        self.depth = depth
        self.cfg = rules.cfg_of(fi)
        cfg = self.cfg
        self.IN = {cfg.entry.id: dict(init)}
        todo = [cfg.entry.id]
        rounds = 0
        while todo:
            rounds += 1
            if rounds > 20000:
                raise AnalysisError("array-kind dataflow of %s did not converge" % fi.qualname)
            i = todo.pop()
            n = cfg.node(i)
            out = self.transfer(n, self.IN[i])
            for j in cfg.g.successors(i):
                labs = cfg.g[i][j]["labels"]
                o = out
                test = None
                if n.kind == "branch":
                    test = n.ast.test
                elif n.kind == "loop" and isinstance(n.ast, ast.While):
                    test = n.ast.test
                if test is not None and len(labs - {"back"}) == 1 and next(iter(labs - {"back"})) in ("T", "F"):
                    o = _refine(out, test, "T" in labs, fi)
                old = self.IN.get(j)
                if old is None:
                    self.IN[j] = dict(o)
                    todo.append(j)
                else:
                    ch = False
                    for k, v in o.items():
                        nv = old.get(k, frozenset()) | v
                        if nv != old.get(k):
                            old[k] = nv
                            ch = True
                    if ch:
                        todo.append(j)

    # -- expressions ------------------------------------------------------
    def value(self, e, st):
        if isinstance(e, ast.Name):
            return st.get(e.id, _UNKS)
        if isinstance(e, ast.IfExp):
            return self.value(e.body, _refine(st, e.test, True, self.fi)) | self.value(e.orelse, _refine(st, e.test, False, self.fi))
        if not isinstance(e, ast.Call):
            return _UNKS
        nm = call_name(e)
        f = e.func
        if isinstance(f, ast.Attribute) and nm == "astype" and not _is_np(f):
            dt = e.args[0] if e.args else kwarg(e, "dtype")
            cp = kwarg(e, "copy")
            copies = cp is None or const_value(cp) is True
            return self._convert(self.value(f.value, st), _dtype_kind(dt, self.fi), copies, raw_ok=False)
        if isinstance(f, ast.Attribute) and nm == "copy" and not e.args and not _is_np(f):
            return frozenset({_F8: _F8P, _RAW: _UNK}.get(a, a) for a in self.value(f.value, st))
        if _is_np(f) and nm in _NP_ARRAYERS and e.args:
            base = self.value(e.args[0], st)
            dt = kwarg(e, "dtype")
            if dt is None and nm != "atleast_1d" and len(e.args) >= 2:
                dt = e.args[1]
            if dt is None:
                copies = nm == "array" and (kwarg(e, "copy") is None or const_value(kwarg(e, "copy")) is True)
                return frozenset({_RAW: _ARR, _F8: _F8P if copies else _F8}.get(a, a) for a in base)
            cp = kwarg(e, "copy")
            copies = nm == "array" and (cp is None or const_value(cp) is True)
            return self._convert(base, _dtype_kind(dt, self.fi), copies, raw_ok=True)
        h = self._helper(e)
        if h is not None and self.depth < 3:
            hf, bound = h
            init = {p: _UNKS for p in hf.params}
            for p, a in bound.items():
                init[p] = self.value(a, st)
            try:
                sub = _ArrayFlow(hf, init, self.depth + 1)
            except AnalysisError:
                return _UNKS
            return sub.returned()
        return _UNKS

    def value_tuple(self, call, st, k):
        """values of `a, b = helper(x, y)`: position by position over the tuples the helper returns"""
        h = self._helper(call)
        unk = [_UNKS] * k
        if h is None or self.depth >= 3:
            return unk
        hf, bound = h
        init = {p: _UNKS for p in hf.params}
        for p, a in bound.items():
            init[p] = self.value(a, st)
        try:
            sub = _ArrayFlow(hf, init, self.depth + 1)
        except AnalysisError:
            return unk
        out = [set() for _ in range(k)]
        seen = False
        for n in sub.cfg.nodes:
            if n.kind == "return" and n.id in sub.IN:
                v = n.ast.value
                if not (isinstance(v, ast.Tuple) and len(v.elts) == k):
                    return unk
                seen = True
                for i, e in enumerate(v.elts):
                    out[i] |= sub.value(e, sub.IN[n.id])
        return [frozenset(o) for o in out] if seen else unk

    @staticmethod
    def _convert(base, kind, copies, raw_ok):
        out = set()
        for a in base:
            if a == _UNK or (a == _RAW and not raw_ok):
                out.add(_UNK)
            elif kind is None:
                out.add(_UNK)
            elif kind == "other":
                out.add(_BAD)
            elif copies or a in (_F8P, _BAD):
                out.add(_F8P)         # a conversion that copies, or that has to convert (another dtype), yields a new array
            else:
                out.add(_F8)
        return frozenset(out)

    def _helper(self, call):
        """(FuncInfo, {parameter: argument expr}) of a call of a function / method of the same module"""
        f = call.func
        fi = self.fi
        tgt = None
        skip = 0
        if isinstance(f, ast.Name) and f.id in fi.module.funcs:
            tgt = fi.module.funcs[f.id]
        elif isinstance(f, ast.Attribute) and isinstance(f.value, ast.Name) and f.value.id in ("self", "cls") and fi.cls and ("%s.%s" % (fi.cls, f.attr)) in fi.module.funcs:
            tgt = fi.module.funcs["%s.%s" % (fi.cls, f.attr)]
            skip = 1
        if tgt is None or any(isinstance(a, ast.Starred) for a in call.args) or any(k.arg is None for k in call.keywords):
            return None
        ps = [p for p in tgt.params if not p.startswith("*")][skip:]
        bound = {}
        for p, a in zip(ps, call.args):
            bound[p] = a
        for k in call.keywords:
            if k.arg in ps:
                bound[k.arg] = k.value
        return tgt, bound

    def returned(self):
        out = set()
        cfg = self.cfg
        for n in cfg.nodes:
            if n.kind == "return" and n.id in self.IN:
                out |= self.value(n.ast.value, self.IN[n.id]) if n.ast.value is not None else _UNKS
        if cfg.exit.id in self.IN and any("fall" in cfg.g[p][cfg.exit.id]["labels"] for p in cfg.g.predecessors(cfg.exit.id) if p in self.IN):
            out |= _UNKS
        return frozenset(out) if out else _UNKS

    # -- statements -------------------------------------------------------
    def transfer(self, n, st):
        a = n.ast
        defs = self.cfg.defs_uses(n)[0] if a is not None else []
        if a is None or n.kind in ("branch", "return", "raise"):
            return st
        st = dict(st)
        if n.kind == "stmt" and isinstance(a, ast.Assign) and len(a.targets) == 1:
            t = a.targets[0]
            if isinstance(t, ast.Name):
                st[t.id] = self.value(a.value, st)
                return st
            if isinstance(t, (ast.Tuple, ast.List)) and isinstance(a.value, (ast.Tuple, ast.List)) and len(t.elts) == len(a.value.elts) \
                    and all(isinstance(x, ast.Name) for x in t.elts):
                vals = [self.value(v, st) for v in a.value.elts]
                for x, v in zip(t.elts, vals):
                    st[x.id] = v
                return st
            if isinstance(t, (ast.Tuple, ast.List)) and isinstance(a.value, ast.Call) and all(isinstance(x, ast.Name) for x in t.elts):
                vals = self.value_tuple(a.value, st, len(t.elts))
                for x, v in zip(t.elts, vals):
                    st[x.id] = v
                return st
            if isinstance(t, (ast.Attribute, ast.Subscript)):
                # `v.dtype = ...`, `v.shape = ...`: the array is changed in place; an element store leaves kind and dtype alone
                b = t.value
                if isinstance(t, ast.Attribute) and isinstance(b, ast.Name) and b.id in st:
                    st[b.id] = _UNKS
                return st
        if n.kind == "stmt" and isinstance(a, ast.AnnAssign) and isinstance(a.target, ast.Name) and a.value is not None:
            st[a.target.id] = self.value(a.value, st)
            return st
        if n.kind == "stmt" and isinstance(a, ast.Expr) and isinstance(a.value, ast.Call) and isinstance(a.value.func, ast.Attribute) \
                and isinstance(a.value.func.value, ast.Name) and a.value.func.attr in ("byteswap", "resize", "setflags", "sort", "fill", "partition"):
            v = a.value.func.value.id
            if v in st and a.value.func.attr in ("byteswap", "resize", "setflags"):
                st[v] = _UNKS
            return st
        for d in defs:
            st[d] = _UNKS
        return st


def _callee_of(fi, call, nid):
    """where a call goes: ('ext', None, 0) to the compiled extension (a `super().m(...)` call, or `self.m(...)` with m not defined by the
    python class: inherited from the compiled base); ('py', FuncInfo, n) to a function / constructor / method of this module, n leading
    parameters (self, cls) not being call arguments; None for anything else (library, builtin, unknown object)"""
    f = call.func
    mod = fi.module
    if isinstance(f, ast.Attribute) and isinstance(f.value, ast.Call) and call_name(f.value) == "super":
        return ("ext", None, 0)
    if isinstance(f, ast.Name):
        if f.id in mod.funcs:
            return ("py", mod.funcs[f.id], 0)
        c = f.id if f.id in mod.classes else (fi.cls if f.id == "cls" else None)
        if c and (c + ".__init__") in mod.funcs:
            return ("py", mod.funcs[c + ".__init__"], 1)
        return None
    if isinstance(f, ast.Attribute) and isinstance(f.value, ast.Name):
        base, m = f.value.id, f.attr
        cls = None
        if base in ("self", "cls") and fi.cls:
            cls = fi.cls
            if (cls + "." + m) not in mod.funcs:
                return ("ext", None, 0)
        elif base in mod.classes:
            cls = base
        else:
            cfg, RIN = _py_rin(fi)
            ds = RIN.get(nid, {}).get(base, set())
            if len(ds) == 1 and next(iter(ds)) != cfg.entry.id:
                a = cfg.node(next(iter(ds))).ast
                if isinstance(a, ast.Assign) and isinstance(a.value, ast.Call):
                    g = a.value.func
                    if isinstance(g, ast.Name) and g.id in mod.classes:
                        cls = g.id
                    elif isinstance(g, ast.Attribute) and isinstance(g.value, ast.Name) and g.value.id in mod.classes:
                        cls = g.value.id
        if cls and (cls + "." + m) in mod.funcs:
            t = mod.funcs[cls + "." + m]
            static = any(norm(d) == "staticmethod" for d in t.node.decorator_list)
            return ("py", t, 0 if static else 1)
    return None


def _extension_atoms(fi, flow, v, depth=0, stack=()):
    """(atoms, n): what the variable `v` of `fi` may be at the n places where it is handed to the compiled extension, directly or through
    functions / methods of this module it is passed to (they are analysed with what they are given)"""
    cfg = flow.cfg
    out, cnt = set(), 0
    for n in cfg.nodes:
        if n.id not in flow.IN:
            continue
        a = n.ast
        for c in rules.stmts_calls(n):
            pos = [i for i, x in enumerate(c.args) if isinstance(x, ast.Name) and x.id == v]
            kws = [k.arg for k in c.keywords if k.arg is not None and isinstance(k.value, ast.Name) and k.value.id == v]
            if not pos and not kws:
                continue
            if _is_np(c.func) or call_name(c) in _NOT_SINKS:
                continue
            if isinstance(a, ast.Assign) and a.value is c and any(isinstance(t_, ast.Name) and t_.id == v for t in a.targets for t_ in rules._flat_targets(t)):
                continue            # `v = helper(v)` / `v, w = helper(v, w)`: a conversion step, followed by value()
            k = _callee_of(fi, c, n.id)
            if k is None:
                continue
            st = flow.IN[n.id]
            if k[0] == "ext":
                out |= st.get(v, _UNKS)
                cnt += 1
                continue
            callee, skip = k[1], k[2]
            if depth >= 3 or callee.qualname in stack or any(isinstance(x, ast.Starred) for x in c.args) or any(kk.arg is None for kk in c.keywords):
                out |= _UNKS
                cnt += 1
                continue
            ps = [p for p in callee.params if not p.startswith("*")][skip:]
            init = {p: _UNKS for p in callee.params}
            mine = []
            for i, x in enumerate(c.args):
                if i < len(ps) and isinstance(x, ast.Name):
                    init[ps[i]] = st.get(x.id, _UNKS)
                    if x.id == v:
                        mine.append(ps[i])
            for kk in c.keywords:
                if kk.arg in ps and isinstance(kk.value, ast.Name):
                    init[kk.arg] = st.get(kk.value.id, _UNKS)
                    if kk.value.id == v:
                        mine.append(kk.arg)
            try:
                sub = _ArrayFlow(callee, init, depth + 1)
            except AnalysisError:
                out |= _UNKS
                cnt += 1
                continue
            for p in mine:
                o, k2 = _extension_atoms(callee, sub, p, depth + 1, stack + (fi.qualname,))
                out |= o
                cnt += k2
    return out, cnt


def f8_atoms(fi, names):
    """{name: (atoms the argument may be where it is handed to the compiled extension, number of such places)}; ({UNK}, 0) when the
    function could not be analysed"""
    try:
        flow = _ArrayFlow(fi, {p: (frozenset([_RAW]) if not p.startswith("*") else _UNKS) for p in fi.params})
    except AnalysisError:
        return {n: (set(_UNKS), 0) for n in names}
    return {v: _extension_atoms(fi, flow, v) for v in names}


def _norm_f8(fi, names, private=()):
    """{name: True / False / None}: is the argument `name`, wherever it is handed to the compiled extension - by this function or by the
    functions / methods of the module it passes it to - a native float64 ndarray with at least one dimension on every path, and, for the
    names in `private`, a copy of the caller's data (the C++ object keeps a reference to it)?  True: on every path; False: some path
    hands over the caller's object unconverted, an array whose dtype was not made (or tested to be) native float64, or - for `private` -
    possibly the caller's own array; None: a construct on the way is not in the table, or no hand-over was found."""
    res = {}
    for v, (seen, nsink) in f8_atoms(fi, names).items():
        if not nsink:
            res[v] = None
            continue
        good = {_F8P} if v in private else {_F8P, _F8}
        bad = {_RAW, _ARR, _BAD} | ({_F8} if v in private else set())
        res[v] = True if seen <= good else (False if seen & bad else None)
    return res


# ---------------------------------------------------------------------------
# which caller value reaches the compiled extension: provenance of an argument through conversions and same-class helper methods
# ---------------------------------------------------------------------------
_rd_cache = {}


def _py_rin(fi):
    c = _rd_cache.get(id(fi.node))
    if c is None:
        cfg = rules.cfg_of(fi)
        c = (cfg, cfg.view().reaching_defs()[0])
        _rd_cache[id(fi.node)] = c
    return c


_VALUE_KEEPING = ("check_filename", "str", "int", "index", "bool")      # calls that hand their first argument on as the same thing (file name, count, flag)


def _origin(fi, e, nid, depth=0):
    """what the value of expression `e`, evaluated at CFG node `nid` of `fi`, stands for: 'param:<name>' when on every path it is that
    parameter, possibly after array / dtype / file-name / integer conversions; 'expr:<text>' for an argument-less method call or an attribute
    of self; 'const:<repr>' for a literal; None for anything else"""
    cfg, RIN = _py_rin(fi)
    if depth > 10:
        return None
    if isinstance(e, ast.Constant):
        return "const:%r" % (e.value,)
    if isinstance(e, ast.Name):
        defs = RIN.get(nid, {}).get(e.id)
        if not defs:
            return None
        outs = set()
        for d in defs:
            if d == cfg.entry.id:
                outs.add("param:" + e.id)
                continue
            a = cfg.node(d).ast
            if isinstance(a, ast.Assign) and len(a.targets) == 1 and isinstance(a.targets[0], ast.Name) and a.targets[0].id == e.id:
                outs.add(_origin(fi, a.value, d, depth + 1))
            elif isinstance(a, ast.AnnAssign) and isinstance(a.target, ast.Name) and a.target.id == e.id and a.value is not None:
                outs.add(_origin(fi, a.value, d, depth + 1))
            else:
                outs.add(None)
        return outs.pop() if len(outs) == 1 else None
    if isinstance(e, ast.IfExp):
        a, b = _origin(fi, e.body, nid, depth + 1), _origin(fi, e.orelse, nid, depth + 1)
        return a if a == b else None
    if isinstance(e, ast.Call):
        nm = call_name(e)
        f = e.func
        if isinstance(f, ast.Attribute) and nm in ("astype", "copy") and not _is_np(f):
            return _origin(fi, f.value, nid, depth + 1)
        if _is_np(f) and nm in _NP_ARRAYERS and e.args:
            return _origin(fi, e.args[0], nid, depth + 1)
        if nm in _VALUE_KEEPING and e.args and (isinstance(f, ast.Name) or dotted_name(f) == "operator.index"):
            return _origin(fi, e.args[0], nid, depth + 1)
        if not e.args and not e.keywords and (dotted_name(f) or "").startswith("self."):
            return "expr:" + norm(e)
        return None
    if isinstance(e, ast.Attribute) and (dotted_name(e) or "").startswith("self."):
        return "expr:" + norm(e)
    return None


def _param_deps(fi, e, nid):
    """parameters of fi that the value of e at node nid is computed from (closure over reaching definitions)"""
    cfg, RIN = _py_rin(fi)
    out, seen = set(), set()
    todo = [(e, nid)]
    while todo:
        x, at = todo.pop()
        for nmn in [y for y in ast.walk(x) if isinstance(y, ast.Name) and isinstance(y.ctx, ast.Load)]:
            for d in RIN.get(at, {}).get(nmn.id, ()):
                if d == cfg.entry.id:
                    out.add(nmn.id)
                elif (nmn.id, d) not in seen:
                    seen.add((nmn.id, d))
                    a = cfg.node(d).ast
                    v = getattr(a, "value", None)
                    if isinstance(v, ast.AST):
                        todo.append((v, d))
    return out


def _term(fi, e, nid, bound):
    """the expression in the terms of the outermost caller: bound maps this function's parameters to such terms (None: identity)"""
    o = _origin(fi, e, nid)
    if o is not None and o.startswith("param:"):
        p = o[6:]
        if bound is None:
            return o
        if p in bound:
            return bound[p]
        if p in fi.defaults:
            return _origin(fi, fi.defaults[p], nid) if isinstance(fi.defaults[p], ast.Constant) else None
        return None
    if o is not None and o.startswith("expr:") and bound is not None:
        return "inner-" + o           # an attribute of the callee's own object, not of the caller's
    if o is not None:
        return o
    deps = set()
    for p in _param_deps(fi, e, nid):
        t = ("param:" + p) if bound is None else bound.get(p)
        if isinstance(t, tuple):
            deps |= set(t[1])
        elif t is not None:
            deps.add(t)
    return ("from", frozenset(deps))


def _bind(callee, call, skip, term_of):
    ps = [p for p in callee.params if not p.startswith("*")][skip:]
    if any(isinstance(a, ast.Starred) for a in call.args) or any(k.arg is None for k in call.keywords) or len(call.args) > len(ps):
        return None
    bound = {}
    for p, a in zip(ps, call.args):
        bound[p] = term_of(a)
    for k in call.keywords:
        if k.arg not in ps or k.arg in bound:
            return None
        bound[k.arg] = term_of(k.value)
    return bound


def _is_super_call(c, target):
    f = c.func
    return isinstance(f, ast.Attribute) and f.attr == target and isinstance(f.value, ast.Call) and call_name(f.value) == "super"


def _extension_args(mod, cls, meth, bound, target, depth=0):
    """terms (in the outermost caller's vocabulary) of the arguments with which method cls.meth, called with its parameters bound to
    `bound`, calls the compiled base class (`super().<target>(...)`), directly or through methods of the same class; None when the
    call is not found or not unique"""
    fi = mod.funcs.get("%s.%s" % (cls, meth))
    if fi is None or depth > 3:
        return None
    cfg, _ = _py_rin(fi)
    ext = [(n, c) for n in cfg.nodes for c in rules.stmts_calls(n) if _is_super_call(c, target)]
    if len(ext) == 1:
        n, c = ext[0]
        if c.keywords or any(isinstance(a, ast.Starred) for a in c.args):
            return None
        return [_term(fi, a, n.id, bound) for a in c.args]
    if ext:
        return None
    found = []
    for n in cfg.nodes:
        for c in rules.stmts_calls(n):
            f = c.func
            nxt = None
            if isinstance(f, ast.Attribute) and isinstance(f.value, ast.Name) and ("%s.%s" % (cls, f.attr)) in mod.funcs and f.attr != meth:
                nxt = f.attr
            elif isinstance(f, ast.Name) and f.id in ("cls", cls) and target == "__init__":
                nxt = "__init__"
            if nxt is None:
                continue
            callee = mod.funcs["%s.%s" % (cls, nxt)]
            b = _bind(callee, c, 1, lambda a, n=n: _term(fi, a, n.id, bound))
            if b is None:
                continue
            r = _extension_args(mod, cls, nxt, b, target, depth + 1)
            if r is not None:
                found.append(r)
    return found[0] if len(found) == 1 else None


def _judge_terms(got, want):
    """True: every argument is the wanted caller value; False: some argument is positively something else (another parameter, a
    literal, a value not computed from the wanted one); None: not resolved"""
    if got is None or len(got) != len(want):
        return None if got is None else False
    verdict = True
    for g, w in zip(got, want):
        if g == w:
            continue
        if isinstance(g, tuple):
            if w in g[1] and len(g[1]) == 1:
                verdict = None if verdict is not False else False      # computed from the wanted value by something not in the table
            else:
                verdict = False
        elif g is None:
            verdict = None if verdict is not False else False
        else:
            verdict = False
    return verdict


def one_shot_rules(chk, hm):
    """HTM.match builds a Matcher on the second point set at the tree's own depth and returns what matching the first set against it gives:
    decided on what reaches the compiled Matcher (its constructor and its match method), whichever python entry points of the Matcher
    class are used on the way.  EVERY Matcher the method constructs is judged (a branch that builds the tree on another point set, e.g.
    with the roles of the two lists exchanged, groups and orders its pairs by the wrong list), and every value the method returns."""
    mod = hm.module
    cfg, RIN = _py_rin(hm)
    ctor = []
    for n in cfg.nodes:
        for c in rules.stmts_calls(n):
            f = c.func
            if isinstance(f, ast.Name) and f.id == "Matcher":
                ctor.append((n, c, "__init__"))
            elif isinstance(f, ast.Attribute) and isinstance(f.value, ast.Name) and f.value.id == "Matcher" and ("Matcher." + f.attr) in mod.funcs:
                ctor.append((n, c, f.attr))
    key1 = "HTM.match::builds-matcher-on-second-set-at-own-depth"
    key2 = "HTM.match::delegates-first-set-radius-maxmatch-file"
    msg1 = "every compiled Matcher the method constructs is constructed with (self.get_depth(), ra2, dec2)"
    msg2 = "and the method returns what the compiled Matcher.match gives for (ra1, dec1, radius, maxmatch, <checked file name>): the same code path as the reusable matcher"
    if not ctor:
        chk.ob("R12.7", key1, None, hm.where(), msg1 + " -- no construction of a Matcher found in the method")
        chk.ob("R12.7", key2, None, hm.where(), msg2 + " -- not looked at")
        return
    want = ["expr:self.get_depth()", "param:ra2", "param:dec2"]
    cverd = []          # (verdict, node, call, terms reaching the extension constructor)
    for n, c, meth in ctor:
        callee = mod.funcs.get("Matcher." + meth)
        got = None
        if callee is not None:
            b = _bind(callee, c, 1, lambda a, n=n: _term(hm, a, n.id, None))
            if b is not None:
                got = _extension_args(mod, "Matcher", meth, b, "__init__")
        cverd.append((_judge_terms(got, want), n, c, got))
    badc = [x for x in cverd if x[0] is False]
    unkc = [x for x in cverd if x[0] is None]
    ok1 = False if badc else (None if unkc else True)
    chk.ob("R12.7", key1, ok1, hm.where(badc[0][2]) if badc else hm.where(cverd[0][2]),
           msg1 + " (%d construction(s); reaching the extension: %s)%s"
           % (len(cverd), [x[3] for x in cverd],
              "" if not badc else " -- `%s` (line %s) builds the tree on something else than the second point set at the object's depth: the circles are then searched "
              "around the wrong points and the pairs are grouped and ordered by the wrong list" % (norm(badc[0][2]), getattr(badc[0][2], "lineno", "?"))))
    # the objects, and the values returned
    objs = {}           # ctor node id -> name the object is bound to
    for n, c, meth in ctor:
        a = n.ast
        if isinstance(a, ast.Assign) and a.value is c and len(a.targets) == 1 and isinstance(a.targets[0], ast.Name):
            objs[n.id] = a.targets[0].id
    ctor_calls = [c for _, c, _ in ctor]

    def is_matcher_object(recv, at):
        if any(recv is c for c in ctor_calls):
            return True
        if isinstance(recv, ast.Name):
            ds = RIN.get(at, {}).get(recv.id, set())
            return bool(ds) and all(d in objs and objs[d] == recv.id for d in ds)
        return False

    def match_call_of(v, at):
        return isinstance(v, ast.Call) and isinstance(v.func, ast.Attribute) and ("Matcher." + v.func.attr) in mod.funcs and is_matcher_object(v.func.value, at)

    def judge_call(v, at):
        m2 = mod.funcs["Matcher." + v.func.attr]
        b = _bind(m2, v, 1, lambda x, at=at: _term(hm, x, at, None))
        g2 = _extension_args(mod, "Matcher", v.func.attr, b, "match") if b is not None else None
        return _judge_terms(g2, ["param:ra1", "param:dec1", "param:radius", "param:maxmatch", "param:file"]), g2

    def feeding_match_calls(e, at):
        """the Matcher.match calls (on objects constructed here) whose result the value of e at node `at` is computed from"""
        out, seen = [], set()
        todo = [(e, at)]
        while todo:
            x, here = todo.pop()
            for y in ast.walk(x):
                if match_call_of(y, here) and not any(y is o for o, _ in out):
                    out.append((y, here))
            for nmn in [y for y in ast.walk(x) if isinstance(y, ast.Name) and isinstance(y.ctx, ast.Load)]:
                for d in RIN.get(here, {}).get(nmn.id, ()):
                    if d != cfg.entry.id and (nmn.id, d) not in seen:
                        seen.add((nmn.id, d))
                        val = getattr(cfg.node(d).ast, "value", None)
                        if isinstance(val, ast.AST):
                            todo.append((val, d))
        return out

    results = []
    for r in cfg.nodes:
        if r.kind != "return" or r.ast.value is None:
            continue
        v = r.ast.value
        at = r.id
        if isinstance(v, ast.Name):
            ds = RIN.get(r.id, {}).get(v.id, set())
            da = cfg.node(next(iter(ds))).ast if len(ds) == 1 and next(iter(ds)) != cfg.entry.id else None
            if isinstance(da, ast.Assign) and len(da.targets) == 1 and isinstance(da.targets[0], ast.Name):
                v, at = da.value, next(iter(ds))
        elif isinstance(v, ast.Tuple) and v.elts and all(isinstance(x, ast.Name) for x in v.elts):
            # `a, b, c = <call>; return a, b, c`: the result of the call, unpacked and packed again in the same order
            dss = [RIN.get(r.id, {}).get(x.id, set()) for x in v.elts]
            if all(len(d_) == 1 for d_ in dss) and len({next(iter(d_)) for d_ in dss}) == 1 and next(iter(dss[0])) != cfg.entry.id:
                da = cfg.node(next(iter(dss[0]))).ast
                if isinstance(da, ast.Assign) and len(da.targets) == 1 and isinstance(da.targets[0], (ast.Tuple, ast.List)) \
                        and [norm(t_) for t_ in da.targets[0].elts] == [x.id for x in v.elts] and isinstance(da.value, ast.Call):
                    v, at = da.value, next(iter(dss[0]))
        results.append((r, v, at))
    if not results:
        chk.ob("R12.7", key2, None, hm.where(), msg2 + " -- no return statement")
        return
    verdicts = []
    gots = []
    notes = []
    for r, v, at in results:
        ok = None
        g2 = None
        if match_call_of(v, at):
            ok, g2 = judge_call(v, at)
            if ok is False:
                notes.append("`%s` (line %s) does not hand over (ra1, dec1, radius, maxmatch, file)" % (norm(v)[:80], getattr(v, "lineno", "?")))
        else:
            # a value put together from the result of a match call (re-ordered, selected, re-packed): it is not judged as a whole, but the
            # match call it comes from still has to be the match of the first set: positively something else is a violation
            for mc, here in feeding_match_calls(v, at):
                o2, g2 = judge_call(mc, here)
                if o2 is False:
                    ok = False
                    notes.append("the value returned at line %s is put together from `%s` (line %s), which does not match (ra1, dec1, radius, maxmatch, file) "
                                 "against the tree" % (getattr(r.ast, "lineno", "?"), norm(mc)[:80], getattr(mc, "lineno", "?")))
        verdicts.append(ok)
        gots.append(g2)
    ok = False if False in verdicts else (None if None in verdicts else True)
    bad_r = [r for (r, _, _), vd in zip(results, verdicts) if vd is False]
    chk.ob("R12.7", key2, ok, hm.where((bad_r or [results[0][0]])[0].ast), msg2 + " (reaching it: %s)%s" % (gots, "" if not notes else " -- " + "; ".join(notes[:2])))


def _size_checks(fi):
    """normalised tests that control a raise"""
    cfg = rules.cfg_of(fi)
    view = cfg.view()
    out = []
    for n in rules.raise_nodes(cfg):
        for t, lab in rules.controlling_tests(view, n):
            if lab == "T":
                out.append(t)
    return out


def test_terms(fi):
    """{branch node id: bool_term of its test} with every local name of the test replaced by the expression it was assigned: a name that is
    not a parameter, whose one reaching definition at the test is a plain `name = <expr>`, and whose own operands are the same values at the
    test as at the assignment (same reaching definitions).  A named condition (`ok = a == 1 or a == n; if not ok: raise`), a named size
    (`n = ra.size`) and the test written in place all read the same."""
    import copy
    from vcheck.cfg import func_params
    cfg = rules.cfg_of(fi)
    view = cfg.view()
    RIN, _ = view.reaching_defs()
    params = set(func_params(fi.node))

    def value_at(name, at, depth):
        ds = RIN.get(at.id, {}).get(name, set())
        if name in params or len(ds) != 1 or depth <= 0:
            return None
        dn = cfg.node(next(iter(ds)))
        a = getattr(dn, "ast", None)
        if not (isinstance(a, ast.Assign) and len(a.targets) == 1):
            return None
        tgt, val = a.targets[0], a.value
        if isinstance(tgt, (ast.Tuple, ast.List)) and isinstance(val, (ast.Tuple, ast.List)) and len(tgt.elts) == len(val.elts) \
                and not any(isinstance(x, ast.Starred) for x in list(tgt.elts) + list(val.elts)):
            # `n1, n2 = a.size, b.size`: all right-hand sides are evaluated before any name is bound, so the component
            # that goes to `name` is its value provided no target of the statement is read on the right
            tn = [t.id if isinstance(t, ast.Name) else None for t in tgt.elts]
            if None in tn or tn.count(name) != 1:
                return None
            rhs_names = {x.id for x in ast.walk(val) if isinstance(x, ast.Name)}
            if rhs_names & set(tn):
                return None
            val = val.elts[tn.index(name)]
        elif not (isinstance(tgt, ast.Name) and tgt.id == name):
            return None
        used = {x.id for x in ast.walk(val) if isinstance(x, ast.Name) and isinstance(x.ctx, ast.Load)}
        if name in used or any(RIN.get(dn.id, {}).get(u, set()) != RIN.get(at.id, {}).get(u, set()) for u in used):
            return None
        if any(isinstance(x, (ast.Lambda, ast.NamedExpr, ast.Yield, ast.Await)) for x in ast.walk(a.value)):
            return None
        return subst(copy.deepcopy(val), dn, depth - 1)

    def subst(e, at, depth):
        class T(ast.NodeTransformer):
            def visit_Name(self, n):
                if isinstance(n.ctx, ast.Load):
                    v = value_at(n.id, at, depth)
                    if v is not None:
                        return v
                return n

            def visit_Lambda(self, n):
                return n
        return ast.fix_missing_locations(T().visit(e))
    out = {}
    for b in cfg.nodes:
        t = getattr(getattr(b, "ast", None), "test", None)
        if b.kind == "branch" and isinstance(t, ast.AST):
            out[b.id] = rules.bool_term(subst(copy.deepcopy(t), b, 6))
    return out


def raise_condition_x(fi):
    """when the function raises: the disjunction, over its raise statements, of the conjunction of the tests that control them (as
    rules.raise_condition), each test read through test_terms"""
    cfg = rules.cfg_of(fi)
    view = cfg.view()
    tt = test_terms(fi)
    out = []
    for n in rules.raise_nodes(cfg):
        conj = []
        for b, lab in view.controlling_branches(n):
            if b.kind == "branch" and b.id in tt:
                conj.append(tt[b.id] if lab == "T" else sp.Not(tt[b.id]))
        out.append(sp.And(*conj) if conj else sp.true)
    return sp.Or(*out) if out else sp.false


def _atom_is_read(sym, params):
    """an atom of bool_term whose operands are made of the function's parameters, constants, attributes and len() only (a size comparison
    of the arguments that the rule can reason about), as opposed to one that hides a call or a local that was not resolved"""
    txt = sym.name
    if "[" not in txt or not txt.endswith("]"):
        return False
    for part in txt[txt.index("[") + 1:-1].split("|"):
        try:
            e = ast.parse(part, mode="eval").body
        except SyntaxError:
            return False
        for x in ast.walk(e):
            if isinstance(x, ast.Name) and x.id not in params and x.id != "len":
                return False
            if isinstance(x, ast.Call) and not (isinstance(x.func, ast.Name) and x.func.id == "len"):
                return False
            if isinstance(x, (ast.Lambda, ast.Subscript, ast.IfExp, ast.ListComp, ast.GeneratorExp, ast.SetComp, ast.DictComp)):
                return False
    return True


def size_check_verdict(fi, want_src):
    """(ok, raise condition): True when the stated condition implies that the function raises; False when it does not although every
    condition that controls a raise is a comparison of the arguments that was read; None when the raise depends on conditions that were
    not read (a call, an unresolved local) and some truth value of those would make the implication hold"""
    import itertools
    from vcheck.cfg import func_params
    want = rules.bool_term(ast.parse(want_src, mode="eval").body)
    rc = raise_condition_x(fi)
    if rules.bool_implies(want, rc):
        return True, rc
    params = set(func_params(fi.node))
    known = want.atoms(sp.Symbol)
    opaque = sorted((a for a in rc.atoms(sp.Symbol) if a not in known and not _atom_is_read(a, params)), key=str)
    if not opaque:
        return False, rc
    if len(opaque) > 6:
        return None, rc
    for vals in itertools.product((True, False), repeat=len(opaque)):
        if rules.bool_implies(want, rc.subs(dict(zip(opaque, vals)))):
            return None, rc
    return False, rc


def python_rules(chk, repo, m):
    hm = repo.func(H + "HTM.match")
    mi = repo.func(H + "Matcher.__init__")
    mm = repo.func(H + "Matcher.match")
    rp = repo.func(H + "read_pairs")
    cf = repo.func(H + "check_filename")
    for f in (hm, mi, mm, rp, cf):
        chk.analysed_unit(f.qualname)
    for fi, names in ((hm, ["ra1", "dec1", "ra2", "dec2", "radius"]), (mi, ["ra", "dec"]), (mm, ["ra", "dec", "radius"])):
        # the arrays that the C++ Matcher object keeps a reference to (constructor) have to be private copies; the arrays of a match call
        # are only read during the call, so there the demand is native float64 with >= 1 dimension, copied or not
        keeps = names if fi is mi else ()
        res = _norm_f8(fi, names, private=keeps)
        for n, ok in res.items():
            chk.ob("R12.7", "%s::%s-becomes-fresh-float64-1d" % (fi.qualname.split("htm.htm.")[-1], n), ok, fi.where(),
                   "wherever `%s` is handed on it is a native float64 ndarray with at least one dimension on every path, as `np.atleast_1d(%s).astype('f8')` makes it%s "
                   "(the C++ side reads *(double*) elements through the strides: an unconverted, byte-swapped or other-typed array is read wrongly)"
                   % (n, n, " - and a private copy, since the C++ object keeps a reference to it" if keeps else ""))
    # both halves together: an input array that Matcher::match walks through its bare data pointer has to be handed over by the python
    # wrapper as a new (hence contiguous) array; read through the strides, any layout will do
    bare = unstrided_reads(m.decl)
    at = f8_atoms(mm, ["ra", "dec", "radius"])
    for cpar, pyname in zip((m.p_ra, m.p_dec, m.p_rad), ("ra", "dec", "radius")):
        if ("param", cpar) in bare:
            seen, nsink = at[pyname]
            okc = None if not nsink else (True if seen <= {_F8P} else (False if seen & {_F8, _ARR, _RAW, _BAD} else None))
        else:
            okc = True
        chk.ob("R12.7", "Matcher.match::%s-read-through-strides-or-contiguous" % pyname, okc, mm.where(),
               "the elements of `%s` are read by the C++ side through the array's strides (PyArray_GETPTR1)%s"
               % (pyname, "" if ("param", cpar) not in bare else " -- they are read through the bare data pointer, which is right only for a contiguous array: the python wrapper "
                  "has to hand over a new array on every path (it may hand over: %s)" % sorted(at[pyname][0])))

    ok, rc = size_check_verdict(mi, "ra.size != dec.size")
    chk.ob("R12.7", "Matcher.__init__::ra-dec-size-check", ok, mi.where(),
           "unequal coordinate arrays are rejected (raises when: %s)" % rc)
    ok, rc = size_check_verdict(mm, "ra.size != dec.size or (radius.size != 1 and radius.size != ra.size)")
    chk.ob("R12.7", "Matcher.match::size-checks", ok, mm.where(),
           "unequal coordinate arrays and a radius array of the wrong length are rejected (the C++ loop indexes the radius with the point index); raises when: %s" % rc)
    ok, rc = size_check_verdict(hm, "ra1.size != dec1.size or (radius.size != 1 and radius.size != ra1.size)")
    chk.ob("R12.7", "HTM.match::size-checks", ok, hm.where(),
           "first-set sizes and the radius length are checked before delegation (raises when: %s)" % rc)
    # super().__init__(depth, ra, dec) and super().match(ra, dec, radius, maxmatch, filename) in C++ order
    sup = [c for c in walk_no_nested(mi.node) if isinstance(c, ast.Call) and call_name(c) == "__init__"]
    ok = len(sup) == 1 and [norm(a) for a in sup[0].args] == ["depth", "ra", "dec"]
    chk.ob("R12.7", "Matcher.__init__::extension-call-roles", ok, mi.where(), "the extension constructor receives (depth, ra, dec)")
    sup = [c for c in walk_no_nested(mm.node) if isinstance(c, ast.Call) and call_name(c) == "match"]
    cpp = ["ra", "dec", "radius", "maxmatch"]
    ok = len(sup) == 1 and [norm(a) for a in sup[0].args[:4]] == cpp and len(sup[0].args) == 5 and len(m.params) == 5
    fname_var = norm(sup[0].args[4]) if ok else None
    chk.ob("R12.7", "Matcher.match::extension-call-roles", ok, mm.where(), "the extension method receives (ra, dec, radius, maxmatch, filename) in the C++ parameter order %s" % m.params)
    # the file name: None -> "" (the C++ side tests fname != "")
    fdef = [x for x in walk_no_nested(mm.node) if isinstance(x, ast.Assign) and norm(x.targets[0]) == fname_var]
    ok = len(fdef) == 1 and isinstance(fdef[0].value, ast.Call) and call_name(fdef[0].value) == "check_filename" and norm(fdef[0].value.args[0]) == "file" \
        and const_value(kwarg(fdef[0].value, "convert_none")) is True
    chk.ob("R12.7", "Matcher.match::file-none-becomes-empty-string", ok, mm.where(), "file=None reaches the extension as '' (in-memory mode), a name as str(name)")
    from vcheck import symx
    se = symx.SymEval(repo)
    r1 = se.run(cf, {"filename": None}, {"convert_none": True})
    chk.ob("R12.7", "check_filename[None,convert_none]", r1 == "", cf.where(), "check_filename(None, convert_none=True) == '' (got %r)" % (r1,))
    # one-shot: Matcher(depth, ra2, dec2).match(ra1, dec1, radius, maxmatch=maxmatch, file=filename)
    one_shot_rules(chk, hm)
    dm = hm.defaults.get("maxmatch"), mm.defaults.get("maxmatch")
    chk.ob("R12.7", "maxmatch-defaults-agree", all(d is not None for d in dm) and const_value(dm[0]) == const_value(dm[1]), hm.where(), "both entry points default to the same maxmatch (%s)" % [const_value(d) for d in dm])
    # pair file format <-> reader
    fmt = getattr(m, "fmt", None)
    dt = None
    delim = None
    okmode = False
    mode_known = True
    for x in walk_no_nested(rp.node):
        if isinstance(x, ast.Call) and call_name(x) == "Recfile":
            delim = const_value(kwarg(x, "delim")) if kwarg(x, "delim") is not None else None
            dexpr = kwarg(x, "dtype")
            mode = _recfile_mode(repo, x)
            mode_known = mode is not None       # a mode that is not a constant is not judged (no verdict)
            okmode = mode == "r" and dexpr is not None
            if dexpr is not None:
                # the dtype literal: written in place, a single-definition local, or a module-level constant
                dexpr = rules.expand(dexpr, rp.node)
                if isinstance(dexpr, ast.Name) and dexpr.id in rp.module.consts:
                    dexpr = rp.module.consts[dexpr.id]
                try:
                    dt = ast.literal_eval(_dtype_spellings_to_codes(dexpr, rp))
                except Exception:
                    dt = None
    located = fmt is not None and dt is not None and delim is not None and mode_known
    ok = located
    if ok:
        pd = cstr.printf_directives(fmt)
        convs = pd["directives"]
        lits = [fmt[a["end"]:b["start"]] for a, b in zip(convs, convs[1:])] + [pd["suffix"]]
        okmode = okmode and pd["literal_prefix"] == ""
        ok = len(convs) == len(dt) == 3 and okmode
        if ok:
            for d, (nm, ty) in zip(convs, dt):
                if ty == "i8":
                    ok = ok and d.get("conv") == "d" and d.get("length") in ("l", "ll")
                elif ty == "f8":
                    ok = ok and d.get("conv") in ("g", "e") and (d.get("prec") or 0) >= 16
                else:
                    ok = False
            ok = ok and [nm for nm, ty in dt] == ["i1", "i2", "d12"] and lits == [delim, delim, "\n"]
    # a locator first: when the statement that writes a pair is not in the emission loop of Matcher::match (moved into a class or helper that
    # is not followed) or the reader's Recfile(...) call is not found, the two sides cannot be compared and nothing is contradicted
    chk.ob("R12.5", "pair-file-format-agrees-with-reader", bool(ok) if located else None, rp.where(),
           "fprintf format %r writes long, long, double(%%.16g or better) separated by the reader's delimiter %r and ended by a newline; the reader's dtype is %s%s"
           % (fmt, delim, dt, "" if located else " -- not compared: " + ("the fprintf of a pair was not located in Matcher::match" if fmt is None else "the reader's dtype / delimiter was not located")))


# ---------------------------------------------------------------------------
def quadtree_rule(chk):
    """R12.9: a triangle found wholly inside the search circle above the leaf level stands for ALL its leaf descendants: the expansion
    must visit the four children (id<<2)+0..3 at every level (or, in closed form, the 4^level consecutive leaf ids from id << 2*level).
    This is the one place of the vendored cover code where 'none missing' reduces to a counting fact visible in the source."""
    decls = cfront.load_tu("spatialconvex")
    fs = cfront.functions(decls)
    where = "esutil/htm/htm_src/SpatialConvex.cpp"
    for nm, callee in (("SpatialConvex::setfull", "setfull"), ("SpatialConvex::testPartial", "testSubTriangle")):
        fn = fs.get(nm)
        if fn is None:
            chk.ob("R12.9", nm + "::present", None, where, "function not found in the vendored cover code")
            continue
        chk.analysed_unit("SpatialConvex.cpp:" + nm)
        ps = cfront.params_of(fn)
        idp = next((p for p in ps if p == "id"), None) or (ps[0] if callee == "setfull" else ps[1])
        lvl = next((p for p in ps if p == "level"), None) or (ps[1] if callee == "setfull" else ps[0])
        calls = [x for x in walk(cfront.body_of(fn)) if x.get("kind") in ("CallExpr", "CXXMemberCallExpr") and callee_name(x) == callee]
        idpos = 0 if callee == "setfull" else 1
        lvpos = 1 - idpos
        if calls:
            ok, why = _four_children(fn, calls, idp, lvl, idpos, lvpos)
            chk.ob("R12.9", nm + "::four-children-per-level", ok, where,
                   "while levels remain the descent visits exactly the children 4*id+0..3, one level down (%s)" % why)
        elif callee == "setfull":
            # closed form: a loop over consecutive leaf ids
            loops = [x for x in walk(cfront.body_of(fn)) if x.get("kind") in ("ForStmt", "WhileStmt")]
            defs = {}
            for x in walk(cfront.body_of(fn)):
                if x.get("kind") == "VarDecl" and init_of(x) is not None:
                    defs[x["name"]] = render(init_of(x)).replace(" ", "")
            first = [k for k, t in defs.items() if t in ("(%s<<(2*%s))" % (idp, lvl), "(%s<<(%s*2))" % (idp, lvl), "(%s<<(%s<<1))" % (idp, lvl))]
            count = [k for k, t in defs.items() if t in ("(1<<(2*%s))" % lvl, "(1<<(%s*2))" % lvl, "(1<<(%s<<1))" % lvl)]
            if len(loops) == 1 and first:
                chk.ob("R12.9", nm + "::closed-form-covers-4^level-leaves", bool(count), where,
                       "a full node at `level` above the leaves has 4^level = 1 << 2*level leaf descendants starting at id << 2*level; the loop must run over all of them "
                       "(definitions found: %s)" % defs)
            else:
                chk.ob("R12.9", nm + "::expansion-recognised", None, where, "neither the four-way recursion nor a closed-form leaf loop was recognised")
        else:
            chk.ob("R12.9", nm + "::expansion-recognised", None, where, "the four sub-triangle tests were not found")


INT_TYPES = ("int", "long", "unsigned", "size_t", "npy_intp", "npy_int64", "int64_t", "uint64", "int64", "uint32", "int32", "uint64_t", "int32_t", "uint32_t",
             "Py_ssize_t", "ssize_t", "short", "char", "bool")


def _is_int_typed(x):
    q = (x.get("type") or {}).get("qualType", "")
    q = q.replace("const ", "").replace("unsigned ", "").replace("signed ", "").replace(" int", "").strip()
    return q in INT_TYPES


def guard_facts(view, n):
    """atomic facts that hold whenever node n runs, read off its controlling branches: relational atoms in the canonical
    forms `a<b`, `a<=b`, `a==b`, `a!=b` (text without blanks); `!x` and the branch label set the polarity; `||` under a negative
    polarity and `&&` under a positive one split into their parts; a negated comparison is flipped only for integer operands (for
    floating-point operands !(a<=b) is not a>b: NaN), otherwise it is kept as the fact `!(a<=b)`."""
    facts = set()

    def rel(op, a, b, pos, ints):
        ta, tb = render(a).replace(" ", ""), render(b).replace(" ", "")
        if not pos:
            if op in ("==", "!="):
                op = "!=" if op == "==" else "=="
            elif ints:
                op = {"<": ">=", "<=": ">", ">": "<=", ">=": "<"}[op]
            else:
                op2, x, y = (op, ta, tb) if op in ("<", "<=") else ({">": "<", ">=": "<="}[op], tb, ta)
                facts.add("!(%s%s%s)" % (x, op2, y))
                return
        if op in (">", ">="):
            op, ta, tb = {">": "<", ">=": "<="}[op], tb, ta
        if op in ("==", "!=") and tb < ta:
            ta, tb = tb, ta
        facts.add("%s%s%s" % (ta, op, tb))

    def go(e, pos):
        e = strip(e)
        k = e.get("kind")
        if k == "UnaryOperator" and e.get("opcode") == "!":
            return go(e["inner"][0], not pos)
        if k == "BinaryOperator" and e.get("opcode") in ("&&", "||"):
            if (e["opcode"] == "&&") == pos:
                go(e["inner"][0], pos)
                go(e["inner"][1], pos)
            else:
                facts.add(("" if pos else "!") + "(" + render(e).replace(" ", "") + ")")
            return
        if k == "BinaryOperator" and e.get("opcode") in ("<", "<=", ">", ">=", "==", "!="):
            a, b = e["inner"]
            return rel(e["opcode"], a, b, pos, _is_int_typed(strip(a)) and _is_int_typed(strip(b)))
        facts.add(("" if pos else "!") + render(e).replace(" ", ""))

    for b, lab in view.controlling_branches(n):
        if b.kind == "branch" and isinstance(b.c, dict):
            go(b.c, lab == "T")
    return facts


def _assigned_names(fn):
    out = set()
    for x in walk(cfront.body_of(fn)):
        k = x.get("kind")
        if (k == "BinaryOperator" and x.get("opcode") == "=") or k == "CompoundAssignOperator" or (k == "UnaryOperator" and x.get("opcode") in ("++", "--")):
            t = strip(x["inner"][0])
            if t.get("kind") == "DeclRefExpr":
                out.add(t["referencedDecl"]["name"])
    return out


def _four_children(fn, calls, idp, lvl, idpos, lvpos):
    """(ok, text): are the recursive calls exactly on 4*id+0..3 with one level less, made exactly while levels remain.  Decided on
    terms: locals that are defined once are folded in, a counted loop `for (k = 0; k < 4; k++)` around a call stands for its four
    iterations, `x << 2` is 4*x."""
    import sympy as sp
    assigned = _assigned_names(fn)
    low = csymx.Lower(fn)
    loopvars = {}
    for x in walk(cfront.body_of(fn)):
        if x.get("kind") == "ForStmt":
            parts = x.get("inner", [])
            if len(parts) >= 5 and isinstance(parts[0], dict) and parts[0].get("kind") == "DeclStmt":
                vd = [v for v in parts[0].get("inner", []) if v.get("kind") == "VarDecl"]
                cond, inc = parts[2], parts[3]
                if len(vd) == 1 and init_of(vd[0]) is not None and cond and inc:
                    k = vd[0]["name"]
                    try:
                        i0 = low.expr(init_of(vd[0]))
                        c = low.expr(cond)
                    except Exception:
                        continue
                    incs = strip(inc)
                    if incs.get("kind") == "UnaryOperator" and incs.get("opcode") == "++" and i0.is_Integer and c.is_Relational \
                            and c.lhs == sp.Symbol(k) and c.rhs.is_Integer and c.rel_op in ("<", "<="):
                        hi = int(c.rhs) + (1 if c.rel_op == "<=" else 0)
                        writes_in_body = {t for t in assigned if t == k}
                        body_incs = [y for y in walk(parts[4]) if y.get("kind") in ("UnaryOperator", "CompoundAssignOperator", "BinaryOperator")
                                     and y.get("opcode") in ("++", "--", "=", "+=", "-=") and strip(y["inner"][0]).get("kind") == "DeclRefExpr"
                                     and strip(y["inner"][0])["referencedDecl"]["name"] == k] if len(parts) > 4 and isinstance(parts[4], dict) else []
                        if not body_incs:
                            loopvars[id(x)] = (k, list(range(int(i0), hi)), x)
    for x in walk(cfront.body_of(fn)):
        if x.get("kind") == "VarDecl" and init_of(x) is not None and x["name"] not in assigned and x["name"] not in [v[0] for v in loopvars.values()]:
            try:
                low.env[x["name"]] = low.expr(init_of(x))
            except Exception:
                pass
    idsym, lvsym = sp.Symbol(idp), sp.Symbol(lvl)
    g = cfront.CCFG(fn)
    v = g.view()
    ids, levels, arms = [], [], set()
    for n in g.nodes:
        if not isinstance(n.c, dict):
            continue
        here = [c for c in calls if any(y is c for y in walk(n.c))]
        if not here:
            continue
        encl = [lv for lv in loopvars.values() if any(y is here[0] for y in walk(lv[2]))]
        for b, lab in v.controlling_branches(n):
            if b.kind == "branch":
                arms.add((render(b.c).replace(" ", ""), lab))
        for c in here:
            a = cfront.call_args(c)
            try:
                t_id = low.expr(a[idpos])
                t_lv = low.expr(a[lvpos])
            except Exception as e:
                return None, "argument not understood: %s" % e
            vals = [{}]
            for k, rng, _ in encl:
                vals = [dict(d, **{k: r}) for d in vals for r in rng]
            for d in vals:
                sub = {sp.Symbol(k): r for k, r in d.items()}
                ids.append(sp.expand(t_id.subs(sub)))
                levels.append(sp.expand(t_lv.subs(sub)))
    postdec = {("%s--" % lvl, "T")}
    guards_ok = None
    if arms == postdec:
        guards_ok, want_level = True, lvsym
    else:
        want_level = lvsym - 1
        nonzero = {("(%s==0)" % lvl, "F"), ("(%s!=0)" % lvl, "T"), ("(%s>0)" % lvl, "T"), (lvl, "T"), ("(!%s)" % lvl, "F"), ("!%s" % lvl, "F"),
                   ("(0==%s)" % lvl, "F"), ("(0!=%s)" % lvl, "T"), ("(0<%s)" % lvl, "T"), ("(%s<1)" % lvl, "F"), ("(%s>=1)" % lvl, "T")}
        if len(arms) == 1 and arms <= nonzero:
            guards_ok = True
        elif not arms:
            guards_ok = False
    found = "children %s at level %s under %s" % (sorted(map(str, ids)), sorted(set(map(str, levels))), sorted(arms))
    if guards_ok is None:
        return None, "the test that decides whether levels remain was not recognised; " + found
    affine = all(sp.Poly(t, idsym).degree() <= 1 and not (t.free_symbols - {idsym}) for t in ids) if ids else False
    if not affine:
        return None, "child ids are not affine in the id; " + found
    want = sorted([4 * idsym + j for j in range(4)], key=str)
    ok = guards_ok and sorted(ids, key=str) == want and all(sp.expand(t - want_level) == 0 for t in levels)
    return bool(ok), found


def _cond_atoms(view, n):
    """the conditions under which cfg node n runs, as structured atoms read off its controlling branches:
    ('rel', a, b, outcomes) - the comparison of the texts a < b (ordered as strings) has one of `outcomes`, a subset of
    {'lt', 'eq', 'gt', 'un'} ('un': unordered, a NaN operand) - or ('bool', text, polarity); each with the names it reads.
    `!x` and the branch label set the polarity, `&&` under a positive and `||` under a negative polarity split into their parts."""
    out = []
    ALL = frozenset(("lt", "eq", "gt", "un"))

    def names_of(e):
        s = set()
        for y in walk(e):
            if y.get("kind") == "DeclRefExpr":
                s.add(y.get("referencedDecl", {}).get("name"))
            elif y.get("kind") == "MemberExpr":
                s.add(y.get("name"))
        s.discard(None)
        return frozenset(s)

    def go(e, pos):
        e = strip(e)
        k = e.get("kind")
        if k == "UnaryOperator" and e.get("opcode") == "!":
            return go(e["inner"][0], not pos)
        if k == "BinaryOperator" and e.get("opcode") in ("&&", "||") and (e["opcode"] == "&&") == pos:
            go(e["inner"][0], pos)
            go(e["inner"][1], pos)
            return
        if k == "BinaryOperator" and e.get("opcode") in ("<", "<=", ">", ">=", "==", "!="):
            a, b = render(e["inner"][0]).replace(" ", ""), render(e["inner"][1]).replace(" ", "")
            oc = {"<": {"lt"}, "<=": {"lt", "eq"}, ">": {"gt"}, ">=": {"gt", "eq"}, "==": {"eq"}, "!=": {"lt", "gt", "un"}}[e["opcode"]]
            if b < a:
                a, b = b, a
                oc = {{"lt": "gt", "gt": "lt"}.get(o, o) for o in oc}
            oc = frozenset(oc)
            out.append(("rel", a, b, oc if pos else ALL - oc, names_of(e)))
            return
        out.append(("bool", render(e).replace(" ", ""), pos, names_of(e)))

    for b, lab in view.controlling_branches(n):
        if b.kind in ("branch", "loop") and isinstance(b.c, dict) and lab in ("T", "F"):
            go(b.c, lab == "T")
    return out


def _atoms_exclude(a1, a2):
    """can the two atoms not hold for the same values of the variables they read"""
    if a1[0] != a2[0]:
        return False
    if a1[0] == "bool":
        return a1[1] == a2[1] and a1[2] != a2[2]
    return a1[1] == a2[1] and a1[2] == a2[2] and not (a1[3] & a2[3])


def handed_over_once_rules(chk, rule, fs, where):
    """R12.9 (continued), each once: the cover is a list of triangles, and every second-set point filed under a listed triangle is
    paired with the input point once per listing.  So, in every method of the vendored cover code that works on ONE triangle - a
    stored node given by its position p in the node array, or a triangle given by its HTM id (a parameter whose value reaches the
    result lists: found by following the arguments to ValVec<uint64>::append / leafNumberById) - a call that hands over that WHOLE
    triangle (the node position itself to a method that walks stored nodes: fillChildren(p), triangleTest(p); the id `N(p).id_`, or
    the id parameter itself, to a result list or to the id argument of a method that passes it on: append, setfull, testPartial,
    testSubTriangle) settles the triangle: no control-flow path may carry, before or after it, a second call that hands over the
    same triangle or one of its children (`N(p).childID_[k]`, a value computed from the id such as (id << 2) + k).  A pair of such
    calls whose controlling conditions cannot hold together (x / !x, a == b / a < b, ... over variables that are not written in
    between) is no path; a pair that is separated only by conditions on variables written in between is not judged."""
    import networkx as nx
    sinks, positions = id_sink_positions(fs)
    walkers = {}
    bodies = []
    seen = set()
    for name, fn in sorted(fs.items()):
        if "::" not in name or id(fn) in seen or not cfront.has_body(fn):
            continue
        seen.add(id(fn))
        short = name.split("::")[-1]
        nps = _node_index_params(fn)
        ps = cfront.params_of(fn)
        if len(nps) == 1:
            walkers.setdefault(short, set()).add(ps.index(nps[0]))
        bodies.append((name, short, fn, nps, ps))
    for name, short, fn, nps, ps in bodies:
        par = nps[0] if len(nps) == 1 else None
        idpars = [ps[i] for i in sorted(sinks.get(short, ())) if i < len(ps) and ps[i] not in nps]
        if par is None and not idpars:
            continue
        key = "%s::a-triangle-is-handed-over-once" % short
        fw = "%s:%s" % (where, fn.get("line", "?"))
        sdl = _single_def_locals(fn)
        idexpr = ("index_->nodes_.vector_[%s].id_" % par).replace(" ", "") if par else None
        childpre = ("index_->nodes_.vector_[%s].childID_[" % par).replace(" ", "") if par else None
        try:
            g = cfront.CCFG(fn)
            v = g.view()
        except AnalysisError:
            continue
        cover = []        # (cfg node, call, subject, 'whole' | 'part', line)
        for n in g.nodes:
            if not isinstance(n.c, dict) or n.kind == "case":      # a case label's node carries the whole labelled statement, whose parts have nodes of their own
                continue
            for x in walk(n.c):
                if x.get("kind") not in ("CallExpr", "CXXMemberCallExpr"):
                    continue
                cn = callee_name(x)
                args = cfront.call_args(x)
                ln = x.get("line") or next((y["line"] for y in walk(x) if y.get("line")), None) or n.c.get("line") or fn.get("line", "?")
                got = set()
                if par is not None:
                    for pos in sorted(walkers.get(cn, ())):
                        if pos < len(args):
                            e = _through_locals(args[pos], sdl)
                            t = render(e).replace(" ", "")
                            if e.get("kind") == "DeclRefExpr" and e.get("referencedDecl", {}).get("kind") == "ParmVarDecl" and e["referencedDecl"].get("name") == par:
                                got.add((par, "whole"))
                            elif t.startswith(childpre):
                                got.add((par, "part"))
                for pos in sorted(positions(x)):
                    if pos >= len(args):
                        continue
                    e = _through_locals(args[pos], sdl)
                    t = render(e).replace(" ", "")
                    if par is not None and t == idexpr:
                        got.add((par, "whole"))
                    elif par is not None and idexpr in t:
                        got.add((par, "part"))
                    for q in idpars:
                        if e.get("kind") == "DeclRefExpr" and e.get("referencedDecl", {}).get("kind") == "ParmVarDecl" and e["referencedDecl"].get("name") == q:
                            got.add((q, "whole"))
                        elif q in _value_params(e, [q]):
                            got.add((q, "part"))
                for s, what in sorted(got):
                    cover.append((n, x, s, what, ln))
        if not any(c[3] == "whole" for c in cover):
            continue
        chk.analysed_unit("SpatialConvex.cpp:" + name)
        assigned = _assigned_names(fn)
        rewritten = sorted({c[2] for c in cover} & assigned)
        if rewritten:
            chk.ob(rule, key, None, fw, "the triangle the method works on (`%s`) is reassigned in its body; the calls that hand it over were not compared" % ", ".join(rewritten))
            continue
        bad, undecided, pairs = [], [], 0
        donep = set()
        for A in cover:
            if A[3] != "whole":
                continue
            for B in cover:
                if B is A or B[2] != A[2] or B[0] is A[0] or B[1] is A[1] or (id(B[1]), id(A[1])) in donep:
                    continue
                donep.add((id(A[1]), id(B[1])))
                if nx.has_path(g.g, A[0].id, B[0].id):
                    first, second = A, B
                elif nx.has_path(g.g, B[0].id, A[0].id):
                    first, second = B, A
                else:
                    continue
                pairs += 1
                between = (nx.descendants(g.g, first[0].id) | {first[0].id}) & (nx.ancestors(g.g, second[0].id) | {second[0].id})
                written = set()
                for i in between:
                    written |= set(g.defs_uses(g.node(i))[0])
                a1, a2 = _cond_atoms(v, first[0]), _cond_atoms(v, second[0])
                if any(_atoms_exclude(p_, q_) and not ((p_[-1] | q_[-1]) & written) for p_ in a1 for q_ in a2):
                    continue
                desc = "`%s` (line %s) and then `%s` (line %s)" % (render(first[1])[:70], first[4], render(second[1])[:70], second[4])
                if any(p_[-1] & written for p_ in a1 + a2):
                    undecided.append(desc)
                else:
                    bad.append((desc, second[4]))
        subjects = sorted({c[2] for c in cover if c[3] == "whole"})
        base = ("the method works on one triangle (%s); a call that hands the whole of it over (%s) is on no path together with another call that hands over the same triangle "
                "or one of its children (%d call(s) compared)"
                % (", ".join(("node position `%s`" % s) if s == par else ("HTM id `%s`" % s) for s in subjects),
                   ", ".join(sorted({str(callee_name(c[1])) for c in cover if c[3] == "whole"})), len(cover)))
        if bad:
            chk.ob(rule, key, False, "%s:%s" % (where, bad[0][1]),
                   base + " -- %s can both run in one call: the triangle is handed over whole and then handed over / descended into again, so its leaf triangles are "
                   "listed more than once and every point filed under them is reported as a pair once per listing" % "; ".join(b_[0] for b_ in bad[:3]))
        elif undecided:
            chk.ob(rule, key, None, fw, base + " -- %s are separated only by conditions on variables that are written in between; not judged" % "; ".join(undecided[:2]))
        else:
            chk.ob(rule, key, True, fw, base)


def fill_children_rules(chk, rule="R12.9"):
    """R12.9 (continued): when a stored node lies wholly inside the circle, SpatialConvex::fillChildren hands over all its leaf
    descendants.  Two structural necessary conditions: (a) what is handed over are HTM triangle ids (the `id_` member of the node
    record), never positions in the node array, which is what the parameter and the `childID_` entries are; (b) a node that has
    stored children is expanded through all four of them, so a node is treated as a leaf only when its first child slot is empty."""
    decls = cfront.load_tu("spatialconvex")
    fs = cfront.functions(decls)
    fn = fs.get("SpatialConvex::fillChildren")
    where = "esutil/htm/htm_src/SpatialConvex.cpp"
    handed_over_once_rules(chk, rule, fs, where)
    if fn is None:
        chk.ob(rule, "fillChildren::present", None, where, "function not found")
        return
    chk.analysed_unit("SpatialConvex.cpp:SpatialConvex::fillChildren")
    par = cfront.params_of(fn)[0]
    g = cfront.CCFG(fn)
    v = g.view()
    idexpr = "index_->nodes_.vector_[%s].id_" % par
    child0 = "index_->nodes_.vector_[%s].childID_[0]" % par
    handed = []      # (node, callee, rendered id argument)
    recur = []
    for n in g.nodes:
        if not isinstance(n.c, dict):
            continue
        for x in walk(n.c):
            if x.get("kind") in ("CallExpr", "CXXMemberCallExpr"):
                cn = callee_name(x)
                a = cfront.call_args(x)
                if cn == "append" and a:
                    handed.append((n, cn, render(a[0])))
                elif cn == "setfull" and a:
                    handed.append((n, cn, render(a[0])))
                elif cn == "leafNumberById" and a:
                    handed.append((n, cn, render(a[0])))
                elif cn == "fillChildren" and a:
                    recur.append((n, render(a[0])))
    if not handed:
        chk.ob(rule, "fillChildren::hands-over-triangle-ids", None, where, "no append / setfull / leafNumberById call recognised")
        return
    bad = [(cn, t) for n, cn, t in handed if t != idexpr]
    chk.ob(rule, "fillChildren::hands-over-triangle-ids", not bad, "%s:%s" % (where, fn.get("line", "?")),
           "every id handed to the result lists is the node's HTM id `N(%s).id_`, not its position in the node array%s"
           % (par, "" if not bad else " -- found %s" % bad[:3]))
    # (b) leaf actions only for nodes without stored children; nodes with stored children recurse into all four
    leafacts = []
    for n, cn, t in handed:
        ts = [(render(b.c).replace(" ", ""), lab) for b, lab in v.controlling_branches(n) if b.kind == "branch"]
        in_range_arm = ("range_", "T") in ts
        if in_range_arm:
            continue
        haschild = None
        for t_, lab in ts:
            if t_ in ("(%s!=0)" % child0.replace(" ", ""), child0.replace(" ", "")):
                haschild = (lab == "T")
            if t_ in ("(%s==0)" % child0.replace(" ", ""), "!" + child0.replace(" ", "")):
                haschild = (lab != "T")
        leafacts.append((n, cn, haschild))
    okb = bool(leafacts) and all(h is False for _, _, h in leafacts)
    chk.ob(rule, "fillChildren::leaf-action-only-without-stored-children", okb if leafacts else None, "%s:%s" % (where, fn.get("line", "?")),
           "a node is expanded by id (setfull) or recorded as a leaf only when it has no stored children (first child slot empty); nodes with stored "
           "children must be expanded through them%s" % ("" if okb else " -- not controlled by the stored-children test: %s" % [(cn, h) for _, cn, h in leafacts if h is not False][:3]))
    okr = False
    for n, t in recur:
        lp = [b for b, lab in v.controlling_branches(n) if b.kind == "loop" and lab == "T"]
        ts = [(render(b.c).replace(" ", ""), lab) for b, lab in v.controlling_branches(n) if b.kind == "branch"]
        if lp and render(lp[0].c).replace(" ", "").endswith("<4)") and t.replace(" ", "") == ("index_->nodes_.vector_[%s].childID_[%s]" % (par, render(lp[0].c["inner"][0]))).replace(" ", "") \
                and ("(%s!=0)" % child0.replace(" ", ""), "T") in ts:
            okr = True
    chk.ob(rule, "fillChildren::recurses-into-all-four-stored-children", okr if recur else None, "%s:%s" % (where, fn.get("line", "?")),
           "a node with stored children recurses into childID_[0..3]")


# ---------------------------------------------------------------------------
def _single_def_locals(fn):
    """local name -> initialiser, for locals that are declared with an initialiser and never written afterwards"""
    assigned = _assigned_names(fn)
    out = {}
    for x in walk(cfront.body_of(fn)):
        if x.get("kind") == "VarDecl" and x.get("name") and init_of(x) is not None and x["name"] not in assigned:
            out[x["name"]] = init_of(x)
    return out


def _through_locals(e, sdl, depth=0):
    """the expression with casts and parentheses stripped, a single-definition local replaced by its initialiser"""
    e = strip(e)
    while isinstance(e, dict) and e.get("kind") in ("CStyleCastExpr", "CXXStaticCastExpr", "CXXFunctionalCastExpr", "ParenExpr", "ImplicitCastExpr") and e.get("inner"):
        e = strip(e["inner"][-1])
    if isinstance(e, dict) and e.get("kind") == "DeclRefExpr" and e.get("referencedDecl", {}).get("kind") == "VarDecl" and e["referencedDecl"].get("name") in sdl and depth < 4:
        return _through_locals(sdl[e["referencedDecl"]["name"]], sdl, depth + 1)
    return e


def _value_params(e, params):
    """parameters whose VALUE the integer expression is computed from (through arithmetic, shifts, casts); a parameter that only selects
    an element (array subscript, member of a record found through it) is not one of them"""
    out = set()
    todo = [e]
    while todo:
        x = todo.pop()
        if not isinstance(x, dict):
            continue
        k = x.get("kind")
        if k in ("ArraySubscriptExpr", "MemberExpr", "CallExpr", "CXXMemberCallExpr", "CXXOperatorCallExpr"):
            continue
        if k == "DeclRefExpr":
            rd = x.get("referencedDecl", {})
            if rd.get("kind") == "ParmVarDecl" and rd.get("name") in params:
                out.add(rd["name"])
            continue
        todo.extend(x.get("inner", []) or [])
    return out


def id_sink_positions(fs):
    """{method short name: argument positions whose value ends up, as a triangle id, in one of the result lists}: the argument of
    ValVec<uint64>::append and of SpatialIndex::leafNumberById, and - to a fixed point - every parameter of a method of the file whose
    value is handed (as it is, or shifted / offset for the children) to such a position"""
    sinks = {}

    def positions(x):
        cn = callee_name(x)
        if x.get("kind") == "CXXMemberCallExpr" and cn == "append" and x["inner"][0].get("inner"):
            rt = (strip(x["inner"][0]["inner"][0]).get("type") or {}).get("qualType", "")
            return {0} if "ValVec<uint64>" in rt.replace(" ", "") else set()
        if cn == "leafNumberById":
            return {0}
        return sinks.get(cn, set())
    changed = True
    while changed:
        changed = False
        for name, fn in sorted(fs.items()):
            if "::" not in name or not cfront.has_body(fn):
                continue
            short = name.split("::")[-1]
            ps = cfront.params_of(fn)
            nodepos = _node_index_params(fn)     # a parameter that is a position in the node array is no id, wherever it is handed to
            for x in walk(cfront.body_of(fn)):
                if x.get("kind") not in ("CallExpr", "CXXMemberCallExpr"):
                    continue
                args = cfront.call_args(x)
                for pos in positions(x):
                    if pos < len(args):
                        for p_ in _value_params(args[pos], [q for q in ps if q not in nodepos]):
                            i = ps.index(p_)
                            if i not in sinks.setdefault(short, set()):
                                sinks[short].add(i)
                                changed = True
    return sinks, positions


def _node_index_params(fn):
    """parameters of the method that are used as a position in the node array (`index_->nodes_.vector_[p]`)"""
    ps = cfront.params_of(fn)
    out = []
    for x in walk(cfront.body_of(fn)):
        if x.get("kind") == "ArraySubscriptExpr" and render(strip(x["inner"][0])).replace(" ", "").endswith("nodes_.vector_"):
            ix = strip(x["inner"][1])
            if ix.get("kind") == "DeclRefExpr" and ix.get("referencedDecl", {}).get("kind") == "ParmVarDecl" and ix["referencedDecl"].get("name") in ps \
                    and ix["referencedDecl"]["name"] not in out:
                out.append(ix["referencedDecl"]["name"])
    return out


def node_walk_rules(chk, rule="R12.9"):
    """R12.9 (continued): the methods that walk the STORED part of the tree are given a position in the node array (they read
    `index_->nodes_.vector_[p]`), the methods that build the deeper levels on the fly are given an HTM id.  Two necessary conditions
    wherever a stored node is handled (fillChildren is covered by fill_children_rules; this covers every other such method, today
    triangleTest):
    (a) whatever is handed from there to a result list - directly, or as the id argument of a method that passes it on (testPartial,
        setfull, testSubTriangle: found by following the argument to the lists) - is the node's HTM id `N(p).id_`, not the position p nor
        a child position `childID_[k]`;
    (b) a node that has stored children is searched through ALL four of them: no child call is conditional on, and no exit from the
        loop over the children is taken because of, the result of a sibling - unless that result is only ever returned where the query
        region was shown not to cross an edge of the triangle (the documented sWALLOWED case), which is then not judged here."""
    decls = cfront.load_tu("spatialconvex")
    fs = cfront.functions(decls)
    where = "esutil/htm/htm_src/SpatialConvex.cpp"
    sinks, positions = id_sink_positions(fs)
    testers = None
    done = set()
    for name, fn in sorted(fs.items()):
        if "::" not in name or id(fn) in done or not cfront.has_body(fn):
            continue
        done.add(id(fn))
        short = name.split("::")[-1]
        nps = _node_index_params(fn)
        if len(nps) != 1:
            continue
        par = nps[0]
        chk.analysed_unit("SpatialConvex.cpp:" + name)
        fw = "%s:%s" % (where, fn.get("line", "?"))
        sdl = _single_def_locals(fn)
        idexpr = ("index_->nodes_.vector_[%s].id_" % par).replace(" ", "")
        g = cfront.CCFG(fn)
        v = g.view()
        # (a) ------------------------------------------------------------
        if short != "fillChildren":
            good, bad, unk = [], [], []
            for n in g.nodes:
                if not isinstance(n.c, dict):
                    continue
                for x in walk(n.c):
                    if x.get("kind") not in ("CallExpr", "CXXMemberCallExpr"):
                        continue
                    args = cfront.call_args(x)
                    for pos in sorted(positions(x)):
                        if pos >= len(args):
                            continue
                        e = _through_locals(args[pos], sdl)
                        t = render(e).replace(" ", "")
                        ln = x.get("line") or (n.c.get("line") if isinstance(n.c, dict) else None) or fn.get("line", "?")
                        if t == idexpr:
                            good.append((callee_name(x), t))
                        elif (e.get("kind") == "DeclRefExpr" and e.get("referencedDecl", {}).get("name") == par) or \
                                (t.startswith(("index_->nodes_.vector_[%s]." % par).replace(" ", "")) and not t.endswith(".id_")):
                            bad.append((callee_name(x), render(e), ln))
                        else:
                            unk.append((callee_name(x), render(e), ln))
            if good or bad or unk:
                ok = False if bad else (None if unk else True)
                chk.ob(rule, "%s::hands-over-triangle-ids" % short, ok, ("%s:%s" % (where, bad[0][2])) if bad else fw,
                       "`%s` is a position in the node array (the method reads index_->nodes_.vector_[%s]): every id it hands to the result lists, directly or as the id "
                       "argument of a method that passes it on (%s), is the node's HTM id `N(%s).id_`%s%s"
                       % (par, par, ", ".join("%s#%s" % (k_, sorted(v_)) for k_, v_ in sorted(sinks.items())), par,
                          "" if not bad else " -- %s: a position in the node array (9.. for the stored nodes) is reported where a triangle id is expected: ids outside the "
                          "valid range of the depth, wrong triangles" % "; ".join("`%s(%s)` at line %s" % b_ for b_ in bad[:3]),
                          "" if not unk else " -- not recognised: %s" % "; ".join("`%s(%s)` at line %s" % u_ for u_ in unk[:3])))
        # (b) ------------------------------------------------------------
        low = csymx.Lower(fn)
        cloops = _counted_loops(fn, low)
        childpre = ("index_->nodes_.vector_[%s].childID_[" % par).replace(" ", "")
        calls = []          # (cfg node, call, child numbers or None)
        for n in g.nodes:
            if not isinstance(n.c, dict):
                continue
            for x in walk(n.c):
                if x.get("kind") in ("CallExpr", "CXXMemberCallExpr") and callee_name(x) == short and cfront.call_args(x):
                    e = _through_locals(cfront.call_args(x)[0], sdl)
                    t = render(e).replace(" ", "")
                    if not (e.get("kind") == "ArraySubscriptExpr" and t.startswith(childpre)):
                        continue
                    ix = strip(e["inner"][1])
                    ks = None
                    encl = [lv for lv in cloops if any(y is x for y in walk(lv[2]))]
                    if ix.get("kind") == "IntegerLiteral":
                        ks = [int(ix.get("value"))]
                    elif ix.get("kind") == "DeclRefExpr":
                        lv = [l_ for l_ in encl if l_[0] == ix["referencedDecl"]["name"]]
                        if lv:
                            ks = list(lv[0][1])
                    calls.append((n, x, ks, encl))
        if not calls:
            if childpre in render(cfront.body_of(fn)).replace(" ", ""):
                chk.ob(rule, "%s::every-stored-child-is-searched" % short, None, fw, "the method looks at the stored children of node `%s` but no call of itself on "
                       "`N(%s).childID_[k]` was recognised" % (par, par))
            continue
        if any(ks is None for _, _, ks, _ in calls):
            chk.ob(rule, "%s::every-stored-child-is-searched" % short, None, fw, "the child number of a recursive call was not resolved: %s"
                   % [render(cfront.call_args(x)[0]) for _, x, ks, _ in calls if ks is None][:2])
            continue
        visited = sorted({k for _, _, ks, _ in calls for k in ks})
        missing = [k for k in range(4) if k not in visited]
        # conditions under which a child is NOT searched although an earlier / other one is
        ctl = {n.id: {(b.id, lab) for b, lab in v.controlling_branches(n)} for n, _, _, _ in calls}
        common = set.intersection(*ctl.values())
        culprits = []       # (cfg branch node, how)
        for n, x, ks, encl in calls:
            loop_ids = {m.id for m in g.nodes if m.kind == "loop" and any(m.c is lv[2]["inner"][2] for lv in encl)}
            for bid, lab in sorted(ctl[n.id] - common):
                if bid in loop_ids:
                    continue
                culprits.append((g.node(bid), "the call `%s` runs only on the %s side of" % (render(x)[:60], lab)))
            for lid in loop_ids:
                body = [m for m in g.nodes if any(b.id == lid and lab == "T" for b, lab in v.controlling_branches(m))]
                bids = {m.id for m in body} | {lid}
                for m in body:
                    for j in g.g.successors(m.id):
                        if j not in bids:
                            inner = [b for b, lab in v.controlling_branches(m) if b.id in bids and b.id != lid]
                            for b in inner or [m]:
                                culprits.append((b, "the loop over the children is left (`%s`) under" % (render(m.c)[:40] if isinstance(m.c, dict) else m.kind)))
        # a test of the child slot itself (`if (NC(p,k) != 0)`) skips nothing that exists
        real = []
        for b, how in culprits:
            t = render(b.c).replace(" ", "") if isinstance(b.c, dict) else ""
            names = {y.get("referencedDecl", {}).get("name") for y in walk(b.c)} if isinstance(b.c, dict) else set()
            if childpre in t and not any(callee_name(y) == short for y in walk(b.c) if y.get("kind") in ("CallExpr", "CXXMemberCallExpr")) \
                    and not any(nm in sdl and any(callee_name(y) == short for y in walk(sdl[nm]) if y.get("kind") in ("CallExpr", "CXXMemberCallExpr")) for nm in names if nm):
                continue
            if not any(b is r_[0] for r_ in real):
                real.append((b, how))
        key = "%s::every-stored-child-is-searched" % short
        base = ("a node with stored children is searched through all four of them, whatever the result for a sibling (children searched: %s, under %s)"
                % (visited, sorted(render(g.node(bid).c)[:60] + ":" + lab for bid, lab in common if isinstance(g.node(bid).c, dict) and g.node(bid).kind == "branch")))
        if missing:
            chk.ob(rule, key, False, fw, base + " -- child %s is never searched" % missing)
            continue
        if not real:
            chk.ob(rule, key, True, fw, base)
            continue
        # which results make it skip siblings, and where do they come from?
        enums = set()
        uses_result = False
        for b, how in real:
            exprs = [b.c] + [sdl[y["referencedDecl"]["name"]] for y in walk(b.c) if y.get("kind") == "DeclRefExpr" and y.get("referencedDecl", {}).get("name") in sdl]
            for ex in exprs:
                for y in walk(ex):
                    if y.get("kind") == "DeclRefExpr" and y.get("referencedDecl", {}).get("kind") == "EnumConstantDecl":
                        enums.add(y["referencedDecl"]["name"])
                    if y.get("kind") in ("CallExpr", "CXXMemberCallExpr") and callee_name(y) == short:
                        uses_result = True
        desc = "; ".join("%s `%s` (line %s)" % (how, render(b.c)[:90], b.c.get("line") or next((y["line"] for y in walk(b.c) if y.get("line")), "?")) for b, how in real[:2])
        if not enums or not uses_result:
            chk.ob(rule, key, None, fw, base + " -- %s: a condition that is not a test on the result of a sibling; not judged" % desc)
            continue
        if testers is None:
            testers = edge_testers(fs)
        sites, unjust = [], []
        seenf = set()
        for nm2, fn2 in sorted(fs.items()):
            if "::" not in nm2 or id(fn2) in seenf or not cfront.has_body(fn2):
                continue
            seenf.add(id(fn2))
            g2 = v2 = None
            for y in walk(cfront.body_of(fn2)):
                val = None
                if y.get("kind") == "ReturnStmt" and y.get("inner"):
                    val = strip(y["inner"][0])
                elif y.get("kind") == "BinaryOperator" and y.get("opcode") == "=":
                    val = strip(y["inner"][1])
                elif y.get("kind") == "VarDecl" and init_of(y) is not None:
                    val = strip(init_of(y))
                if val is None or not any(z.get("kind") == "DeclRefExpr" and z.get("referencedDecl", {}).get("kind") == "EnumConstantDecl"
                                          and z["referencedDecl"].get("name") in enums for z in walk(val)):
                    continue
                if g2 is None:
                    g2 = cfront.CCFG(fn2)
                    v2 = g2.view()
                host = [m for m in g2.nodes if isinstance(m.c, dict) and any(z is y for z in walk(m.c))]
                if not host and y.get("kind") == "ReturnStmt":
                    host = [m for m in g2.nodes if m.kind == "return" and isinstance(m.c, dict) and (m.c is y or any(z is val for z in walk(m.c)))]
                facts = guard_facts(v2, host[0]) if host else set()
                just = any(ft.startswith("!%s(" % t_) for ft in facts for t_ in testers)
                site = "%s line %s" % (nm2.split("::")[-1], y.get("line") or next((z["line"] for z in walk(y) if z.get("line")), "?"))
                sites.append(site)
                if not just:
                    unjust.append("%s (holds there: %s)" % (site, sorted(facts)[:4]))
        if not sites:
            chk.ob(rule, key, None, fw, base + " -- %s; no place that produces %s was found" % (desc, sorted(enums)))
        elif unjust:
            where_b = real[0][0].c.get("line") or next((y["line"] for y in walk(real[0][0].c) if y.get("line")), fn.get("line", "?"))
            chk.ob(rule, key, False, "%s:%s" % (where, where_b),
                   base + " -- %s: the remaining siblings are skipped when a child answers %s, and that answer is produced at %s without the query region having been "
                   "shown not to cross an edge of the triangle (no failed %s controls it): a circle that reaches across the border into a later sibling loses every "
                   "triangle - and every match - there" % (desc, sorted(enums), "; ".join(unjust[:2]), " / ".join(sorted(testers)) or "edge test"))
        else:
            chk.ob(rule, key, None, fw, base + " -- %s: siblings are skipped when a child answers %s, which is produced only where the region crosses no edge of the "
                   "triangle (%s); whether the region then lies wholly inside is a geometric claim that is not decided here" % (desc, sorted(enums), "; ".join(sites[:3])))


# ---------------------------------------------------------------------------
def _counted_loops(fn, low):
    """[(variable, [values it takes], ForStmt)] for the counted loops `for (T k = a; k < b; k++)` with literal bounds whose variable
    is not written in the body: such a loop stands for its iterations (constant evaluation, no input involved)"""
    import sympy as sp
    out = []
    for x in walk(cfront.body_of(fn)):
        if x.get("kind") != "ForStmt":
            continue
        parts = x.get("inner", [])
        if len(parts) < 5 or not isinstance(parts[0], dict) or parts[0].get("kind") != "DeclStmt":
            continue
        vd = [v for v in parts[0].get("inner", []) if v.get("kind") == "VarDecl"]
        cond, inc = parts[2], parts[3]
        if len(vd) != 1 or init_of(vd[0]) is None or not isinstance(cond, dict) or not isinstance(inc, dict):
            continue
        k = vd[0]["name"]
        try:
            i0 = low.expr(init_of(vd[0]))
            c = low.expr(cond)
        except Exception:
            continue
        incs = strip(inc)
        if not (incs.get("kind") == "UnaryOperator" and incs.get("opcode") == "++" and strip(incs["inner"][0]).get("kind") == "DeclRefExpr"
                and strip(incs["inner"][0])["referencedDecl"]["name"] == k):
            continue
        if not (getattr(i0, "is_Integer", False) and getattr(c, "is_Relational", False) and c.lhs == sp.Symbol(k) and getattr(c.rhs, "is_Integer", False)
                and c.rel_op in ("<", "<=", "!=")):
            continue
        hi = int(c.rhs) + (1 if c.rel_op == "<=" else 0)
        if hi < int(i0) or hi - int(i0) > 64:
            continue
        body_writes = [y for y in walk(parts[4]) if y.get("kind") in ("UnaryOperator", "CompoundAssignOperator", "BinaryOperator")
                       and y.get("opcode") in ("++", "--", "=", "+=", "-=", "*=", "/=", "%=", "<<=", ">>=") and y.get("inner")
                       and strip(y["inner"][0]).get("kind") == "DeclRefExpr" and strip(y["inner"][0])["referencedDecl"]["name"] == k] if isinstance(parts[4], dict) else [1]
        if not body_writes:
            out.append((k, list(range(int(i0), hi)), x))
    return out


def _is_vec(n):
    return "SpatialVector" in ((n.get("type") or {}).get("qualType", "")) if isinstance(n, dict) else False


def _edge_applications(fs):
    """[(function name, decl, its three vertex parameters, helper name, [(vertex, vertex) per call made, None where not resolved])] for every
    method that receives the three vertices of a triangle and applies a two-vertex helper to them.  Decided on resolved arguments: vertex
    parameters directly, through single-definition aliases, or through a local table initialised from the vertices and indexed by an
    expression that is evaluated for every iteration of a counted loop."""
    import sympy as sp
    out = []
    done = set()
    for name, fn in sorted(fs.items()):
        if "::" not in name or id(fn) in done or not cfront.has_body(fn):
            continue
        done.add(id(fn))
        pdecls = [p for p in fn.get("inner", []) if isinstance(p, dict) and p.get("kind") == "ParmVarDecl"]
        verts = [p.get("name") for p in pdecls if _is_vec(p) and "&" in p["type"]["qualType"] and p.get("name")]
        if len(verts) != 3:
            continue
        body = cfront.body_of(fn)
        low = csymx.Lower(fn)
        loops = _counted_loops(fn, low)
        # tables and aliases of the vertices
        written = set()
        for x in walk(body):
            if (x.get("kind") == "BinaryOperator" and x.get("opcode") == "=") or x.get("kind") == "CompoundAssignOperator":
                for y in walk(x["inner"][0]):
                    if y.get("kind") == "DeclRefExpr":
                        written.add(y["referencedDecl"]["name"])
                        break

        def direct(e):
            e = strip(e)
            while isinstance(e, dict) and e.get("kind") in ("UnaryOperator", "CXXConstructExpr") and e.get("inner") and \
                    (e.get("kind") == "CXXConstructExpr" and len(e["inner"]) == 1 or e.get("opcode") in ("&", "*")):
                e = strip(e["inner"][0])
            if isinstance(e, dict) and e.get("kind") == "DeclRefExpr":
                return e["referencedDecl"]["name"]
            return None
        tables, alias = {}, {}
        for x in walk(body):
            if x.get("kind") == "VarDecl" and x.get("name") and x["name"] not in written and init_of(x) is not None:
                it = strip(init_of(x))
                if it.get("kind") == "InitListExpr":
                    el = [direct(z) for z in it.get("inner", [])]
                    if el and all(z in verts for z in el):
                        tables[x["name"]] = el
                elif _is_vec(x) and direct(it) in verts:
                    alias[x["name"]] = direct(it)

        def vertex(arg, sub):
            e = strip(arg)
            while e.get("kind") == "UnaryOperator" and e.get("opcode") in ("*", "&"):
                e = strip(e["inner"][0])
            if e.get("kind") == "DeclRefExpr":
                nm = e["referencedDecl"]["name"]
                return nm if nm in verts else alias.get(nm)
            if e.get("kind") == "ArraySubscriptExpr":
                b, ix = strip(e["inner"][0]), e["inner"][1]
                if b.get("kind") == "DeclRefExpr" and b["referencedDecl"]["name"] in tables:
                    tab = tables[b["referencedDecl"]["name"]]
                    try:
                        v = low.expr(ix).subs(sub)
                    except Exception:
                        return None
                    if getattr(v, "is_Integer", False) and 0 <= int(v) < len(tab):
                        return tab[int(v)]
            return None
        percallee = {}
        for c in walk(body):
            if c.get("kind") not in ("CallExpr", "CXXMemberCallExpr"):
                continue
            cn = callee_name(c)
            args = cfront.call_args(c)
            vargs = [a for a in args if _is_vec(a)]
            if not cn or len(vargs) != 2:
                continue
            encl = [lv for lv in loops if any(y is c for y in walk(lv[2]))]
            subs = [{}]
            for k, rng, _ in encl:
                subs = [dict(list(d.items()) + [(sp.Symbol(k), r)]) for d in subs for r in rng]
            for sub in subs:
                percallee.setdefault(cn, []).append(tuple(vertex(a, sub) for a in vargs))
        for cn, pairs in sorted(percallee.items()):
            out.append((name, fn, verts, cn, pairs))
    return out


def edge_testers(fs):
    """short names of the methods that decide whether the query region crosses the boundary of a triangle: they apply a two-vertex
    helper to all three edges of the triangle they are given"""
    out = set()
    for name, fn, verts, cn, pairs in _edge_applications(fs):
        edges = {frozenset(p) for p in pairs if None not in p and p[0] != p[1]}
        want = {frozenset(e) for e in ((verts[0], verts[1]), (verts[1], verts[2]), (verts[2], verts[0]))}
        if want <= edges:
            out.add(name.split("::")[-1])
    return out


def triangle_edge_rule(chk, rule="R12.9"):
    """R12.9 (continued): a triangle is given to the cover code as three vertex parameters; whether a circle crosses its boundary is
    decided edge by edge through a two-vertex helper (eSolve).  Necessary for 'none missing': wherever a function that receives the
    three vertices of a triangle applies such a helper to two of them, it applies it to all three edges {a,b}, {b,c}, {c,a} - an edge
    left out makes a circle that clips the triangle only across that edge invisible, and the triangle is rejected with every point
    in it.  Decided on resolved arguments (see _edge_applications)."""
    decls = cfront.load_tu("spatialconvex")
    fs = cfront.functions(decls)
    src = "esutil/htm/htm_src/SpatialConvex.cpp"
    seen = 0
    for name, fn, verts, cn, pairs in _edge_applications(fs):
        edges = {frozenset(p) for p in pairs if None not in p and p[0] != p[1]}
        if not edges:
            continue            # the helper is not applied to edges of this triangle
        seen += 1
        chk.analysed_unit("SpatialConvex.cpp:" + name)
        want = {frozenset(e) for e in ((verts[0], verts[1]), (verts[1], verts[2]), (verts[2], verts[0]))}
        missing = sorted("-".join(sorted(e)) for e in want - edges)
        unresolved = [p for p in pairs if None in p]
        degenerate = [p for p in pairs if None not in p and p[0] == p[1]]
        ok = True if not missing else (None if unresolved else False)
        chk.ob(rule, "%s::%s-on-all-three-edges" % (name.split("::")[-1], cn), ok, "%s:%s" % (src, fn.get("line", "?")),
               "`%s` is applied to two vertices of the triangle (%s): it must be applied to all three edges%s%s"
               % (cn, ", ".join(verts), "" if not missing else " -- never applied to edge %s; the calls made are on %s" % (", ".join(missing), sorted("-".join(p) for p in pairs if None not in p)),
                  "" if not degenerate else " (degenerate call on %s)" % degenerate[:2]))
    chk.ob(rule, "triangle-edge-helpers-found", True if seen >= 1 else None, src, "%d function(s) apply a two-vertex helper to the edges of a triangle" % seen)


# ---------------------------------------------------------------------------
def _discriminant_region(x, dname, consts, sdl, const_value):
    """a comparison of the discriminant `dname` (or of its absolute value) with a constant, as (form, op, K): form 'D' / '|D|', op the
    relation read with the discriminant on the left, K the constant (None when not evaluated); None when x is not such a comparison"""
    def is_d(e):
        e = _through_locals(e, {})
        while isinstance(e, dict) and e.get("kind") in ("ParenExpr", "ImplicitCastExpr", "CStyleCastExpr", "CXXStaticCastExpr", "CXXFunctionalCastExpr") and e.get("inner"):
            e = strip(e["inner"][-1])
        if isinstance(e, dict) and e.get("kind") == "DeclRefExpr" and e.get("referencedDecl", {}).get("name") == dname:
            return "D"
        if isinstance(e, dict) and e.get("kind") in ("CallExpr", "CXXMemberCallExpr") and callee_name(e) in ("fabs", "abs", "fabsl", "std::abs", "std::fabs") \
                and cfront.call_args(e) and is_d(cfront.call_args(e)[0]) == "D":
            return "|D|"
        return None
    a, b = x["inner"]
    fa, fb = is_d(a), is_d(b)
    if bool(fa) == bool(fb):
        return None
    op = x["opcode"] if fa else {"<": ">", "<=": ">=", ">": "<", ">=": "<="}[x["opcode"]]
    return (fa or fb, op, const_value(b if fa else a, consts, 0, sdl))


def edge_crossing_rule(chk, rule="R12.9"):
    """R12.9 (continued): whether the search circle crosses an edge of a triangle is decided by the two-vertex helper that is applied to
    all three edges (eSolve): it solves a quadratic in the position along the edge.  A quadratic has real roots exactly when its
    discriminant is >= 0, whatever the size of its coefficients - and these shrink with the triangle and the circle (the discriminant
    like the square of their product), so no positive absolute bound separates 'no root' from 'root'.  Necessary for 'none missing':
    the helper answers 'no crossing' on the ground of the discriminant only where the discriminant is negative: a branch that leads
    to the negative answer alone because `D < K` / `D <= K` has K <= 0, and none does because D is ABOVE some bound.  Also the
    quantity under the square root carries no additive constant (it vanishes when all the quantities it is computed from do).
    The discriminant is located as the argument of the square root of the helper; constants are evaluated from the headers."""
    from checks.C13 import _header_constants, _const_value
    decls = cfront.load_tu("spatialconvex")
    fs = cfront.functions(decls)
    src = "esutil/htm/htm_src/SpatialConvex.cpp"
    helpers = set()
    for name, fn, verts, cn, pairs in _edge_applications(fs):
        edges = {frozenset(p) for p in pairs if None not in p and p[0] != p[1]}
        if {frozenset(e) for e in ((verts[0], verts[1]), (verts[1], verts[2]), (verts[2], verts[0]))} <= edges:
            helpers.add(cn)
    consts = _header_constants("esutil/htm/htm_src")
    seen = 0
    for cn in sorted(helpers):
        hfn = next((fn for nm, fn in sorted(fs.items()) if nm.split("::")[-1] == cn and cfront.has_body(fn)), None)
        if hfn is None:
            continue
        sdl = _single_def_locals(hfn)
        where = "%s:%s" % (src, hfn.get("line", "?"))
        roots = [x for x in walk(cfront.body_of(hfn)) if x.get("kind") in ("CallExpr", "CXXMemberCallExpr") and callee_name(x) in ("sqrt", "sqrtl", "std::sqrt")
                 and cfront.call_args(x)]
        if not roots:
            continue                # not a quadratic solver: nothing to say here
        seen += 1
        chk.analysed_unit("SpatialConvex.cpp:SpatialConvex::" + cn)
        key = "%s::no-crossing-only-for-negative-discriminant" % cn
        dnames = set()
        for r in roots:
            e = strip(cfront.call_args(r)[0])
            while isinstance(e, dict) and e.get("kind") in ("ParenExpr", "ImplicitCastExpr", "CStyleCastExpr") and e.get("inner"):
                e = strip(e["inner"][-1])
            dnames.add(e.get("referencedDecl", {}).get("name") if e.get("kind") == "DeclRefExpr" else None)
        if len(dnames) != 1 or None in dnames:
            chk.ob(rule, key, None, where, "the argument of the square root in `%s` is not one local variable (%s): the discriminant was not located" % (cn, sorted(map(str, dnames))))
            continue
        dname = dnames.pop()
        # (1) the quantity under the root has no additive constant
        terms = [t for v, t in stmt_terms_h(hfn) if v == dname]
        if len(terms) == 1 and terms[0] is not None:
            t = terms[0]
            csyms = {s: consts[str(s)] for s in t.free_symbols if str(s) in consts}
            try:
                rest = sp.expand(t.subs({s: 0 for s in t.free_symbols if s not in csyms}))
                okh = bool(rest == 0)
            except (TypeError, ValueError, AttributeError):
                rest, okh = None, None
            chk.ob(rule, "%s::discriminant-has-no-absolute-offset" % cn, okh, where,
                   "the quantity under the square root, `%s = %s`, is built from the edge / circle quantities only: it vanishes when they do%s"
                   % (dname, str(t)[:80], "" if okh is not False else " -- it carries the additive constant %s: real roots (crossings) of small triangles / circles are shifted "
                      "across 0 and reported as 'no crossing'" % rest))
        # (2) exits on the ground of the discriminant
        g = cfront.CCFG(hfn)
        view = g.view()

        def is_false_return(n):
            if n.kind != "return" or not isinstance(n.c, dict):
                return False
            vals = [strip(y) for y in (n.c.get("inner") or [])] if n.c.get("kind") == "ReturnStmt" else [strip(n.c)]
            return bool(vals) and ((vals[0].get("kind") == "CXXBoolLiteralExpr" and vals[0].get("value") is False)
                                   or (vals[0].get("kind") == "IntegerLiteral" and str(vals[0].get("value")) == "0"))

        def only_negative_answers(start):
            seen_, todo, rets = set(), [start], []
            while todo:
                i = todo.pop()
                if i in seen_:
                    continue
                seen_.add(i)
                n = g.node(i)
                if n.kind == "return":
                    rets.append(n)
                    continue
                if n.kind in ("exit", "raise_exit", "raise"):
                    return False
                todo.extend(g.g.successors(i))
            return bool(rets) and all(is_false_return(r) for r in rets)

        def suff(e, want):
            e = strip(e)
            while isinstance(e, dict) and e.get("kind") in ("ParenExpr", "ImplicitCastExpr", "ExprWithCleanups") and e.get("inner"):
                e = strip(e["inner"][-1])
            if e.get("kind") == "UnaryOperator" and e.get("opcode") == "!":
                return suff(e["inner"][0], not want)
            if e.get("kind") == "BinaryOperator" and e.get("opcode") in ("&&", "||"):
                if (e["opcode"] == "||") == want:
                    return suff(e["inner"][0], want) + suff(e["inner"][1], want)
                return []
            if e.get("kind") == "BinaryOperator" and e.get("opcode") in ("<", "<=", ">", ">="):
                return [(e, want)]
            return []
        bad, unk, fine = [], [], []
        located = set()
        for b in g.nodes:
            if b.kind != "branch" or not isinstance(b.c, dict):
                continue
            cmps = [x for x in walk(b.c) if x.get("kind") == "BinaryOperator" and x.get("opcode") in ("<", "<=", ">", ">=")
                    and _discriminant_region(x, dname, consts, sdl, _const_value) is not None]
            if not cmps:
                continue
            located.update(id(x) for x in cmps)        # a test in a branch that does not lead to the negative answer alone rejects nothing
            nested = [c for c, _ in view.controlling_branches(b) if c.kind == "branch"]
            for j in g.g.successors(b.id):
                for lab in g.g[b.id][j]["labels"]:
                    if lab not in ("T", "F") or not only_negative_answers(j):
                        continue
                    atoms = suff(b.c, lab == "T")
                    for x in cmps:
                        located.add(id(x))
                        form, op, K = _discriminant_region(x, dname, consts, sdl, _const_value)
                        pol = [p for a_, p in atoms if a_ is x]
                        ln = x.get("line") or next((y["line"] for y in walk(x) if y.get("line")), hfn.get("line", "?"))
                        txt = render(x)
                        if not pol:
                            unk.append((ln, txt, "takes part in the condition `%s` that leads to the negative answer, together with other tests" % render(b.c)[:80]))
                            continue
                        if not pol[0]:
                            op = {"<": ">=", "<=": ">", ">": "<=", ">=": "<"}[op]
                        if op in (">", ">="):
                            (unk if nested else bad).append((ln, txt, "'no crossing' is answered when %s %s %s: non-negative discriminants (real roots) are rejected" % (form, op, "%g" % K if K is not None else "?")))
                        elif K is None:
                            unk.append((ln, txt, "the bound was not evaluated"))
                        elif K > 0:
                            (unk if nested else bad).append((ln, txt, "'no crossing' is answered when %s %s %g: the discriminants in [0, %g) have real roots - the edge IS crossed - and the "
                                                             "discriminant shrinks with the square of (edge length x circle size), so for deep trees / small circles every crossing falls "
                                                             "below this absolute bound" % (form, op, K, K)))
                        else:
                            fine.append((ln, txt, K))
        for x in walk(cfront.body_of(hfn)):
            if x.get("kind") == "BinaryOperator" and x.get("opcode") in ("<", "<=", ">", ">=") and id(x) not in located \
                    and _discriminant_region(x, dname, consts, sdl, _const_value) is not None:
                unk.append((x.get("line") or "?", render(x), "a test on the discriminant whose effect on the answer was not followed"))
        ok = False if bad else (None if unk else True)
        chk.ob(rule, key, ok, "%s:%s" % (src, bad[0][0]) if bad else where,
               "`%s` decides edge by edge whether the circle crosses the triangle's boundary by a quadratic whose discriminant is `%s` (the argument of its square root): the answer "
               "'no crossing' is given on the ground of the discriminant only where it is negative (tests found: %s)%s%s"
               % (cn, dname, ["%s [bound %g]" % (f_[1], f_[2]) for f_ in fine],
                  "" if not bad else " -- `%s` (line %s): %s; the neighbouring triangle is then not put on the partial list and every pair in it is lost" % (bad[0][1], bad[0][0], bad[0][2]),
                  "" if not unk else " -- not decided: %s" % "; ".join("`%s` (line %s): %s" % (u[1][:60], u[0], u[2]) for u in unk[:2])))
    chk.ob(rule, "edge-crossing-solver-found", True if seen >= 1 else None, src, "%d two-vertex helper(s) applied to all three edges of a triangle solve a quadratic (square root found)" % seen)
