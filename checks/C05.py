"""C05 -- histogram counts and reverse indices partition the binned data; the
compiled and the pure-Python engines return identical arrays."""
import ast

from vcheck import cfront, rules, sibling
from vcheck.core import PyRepo, AnalysisError, call_name, dotted_name, kwarg, norm, walk_no_nested
from vcheck.cstr import parse_tuple_format
from vcheck.ceffects import parse_tuple_binding
from vcheck.rules import cfg_of

MANIFEST = dict(
    text="Sibling cross-check plus structural rules (not a behavioural proof): (1) the C engine (clang AST) and the pure-Python engine "
         "are lowered to guarded effects (array role, index term, value term, guard atoms, loop descriptors; roles by shared argument "
         "position, affine induction variables in closed form) and must have equal effect sets -- the two engines then perform the same "
         "stores under the same conditions for every input, which decides 'identical arrays' up to libm/float conversion; (2) count/index "
         "pairing: one increment of hist[b] per datum exactly under 0 <= b < nbin with b = trunc((x-min)/binsize), every sorted index "
         "stored at offset i+nbin+1, bin offsets filled for (previous bin, b], and the tail fill of the offsets past the last occupied "
         "bin must be the offset just past the last *counted* datum (not the end of all data); (3) ABI agreement between the call site "
         "and the C casts / PyArg_ParseTuple format; (4) inclusive min/max filter on a stable argsort; (5) bin count / bin size "
         "derivations and pass-through of the public wrapper.",
    note="Not decided: counts for particular data, floating-point rounding at bin edges. Assumes LP64 (argsort/arange give int64). "
         "Trusted: clang AST, sympy normaliser, numpy argsort(kind='stable').",
    technique="static analysis: cross-language sibling comparison of guarded-effect normal forms (clang AST vs Python ast), structural pairing rules, format/ABI agreement",
)

ST = "esutil.stat.util."


# rules that keep their verdict however the code is laid out (decided by term equality, effect analysis or dominance over
# resolved calls); every other rule of this check is a template rule (vcheck.core.Check.obt)
SEMANTIC = ('R05.1', 'R05.2', 'R05.4')


def run(chk):
    repo = PyRepo()
    chk.set_templates(repo, semantic=SEMANTIC)
    chk.explanation = MANIFEST["text"]
    chk.trusted = ["clang 14 AST", "sympy normaliser", "numpy stable argsort", "LP64"]
    chk.assume("LP64 platform: argsort/arange yield int64, npy_int64 is long")
    chk.floor = 30
    py = repo.func(ST + "_dohist")
    cdecls = cfront.functions(cfront.load_tu("chist"))
    if "PyCHist_chist" not in cdecls:
        raise AnalysisError("C anchor PyCHist_chist not found")
    cfn = cdecls["PyCHist_chist"]
    chk.analysed_unit(py.qualname)
    chk.analysed_unit("PyCHist_chist")
    # ---- R05.1 isomorphism -----------------------------------------------------
    A, B = sibling.compare(py.node, cfn)
    chk.ob("R05.1", "engines::effect-sets-found", len(A) >= 5 and len(B) >= 5, py.where(), "guarded effects: python %d, C %d" % (len(A), len(B)))
    for x in sorted(A - B):
        chk.ob("R05.1", "engines::python-only-effect::%s/%s" % (x[2], x[3]), False, py.where(),
               "the Python engine performs an effect the C engine does not: array role %s, index %s, value %s under %s in loops %s" % (x[3], x[4], x[5], list(x[1]), list(x[0])))
    for x in sorted(B - A):
        chk.ob("R05.1", "engines::c-only-effect::%s/%s" % (x[2], x[3]), False, "esutil/stat/chist_pywrap.c",
               "the C engine performs an effect the Python engine does not: array role %s, index %s, value %s under %s in loops %s" % (x[3], x[4], x[5], list(x[1]), list(x[0])))
    if A == B:
        chk.ob("R05.1", "engines::isomorphic", True, py.where(), "both engines reduce to the same %d guarded effects" % len(A))
    chk.notes["guarded_effects"] = [list(map(str, x)) for x in sorted(A)]
    # ---- R05.2 count / index pairing (on the effect set of the Python engine) ---
    import sympy as sp
    nf = sibling.nf
    P0, P1, P2, P3, P4, P5, S0 = sp.symbols("P0 P1 P2 P3 P4 P5 S0_0")
    k0, k1 = sp.Symbol("k0", integer=True), sp.Symbol("k1", integer=True)
    rd, size, trunc, notnone = sp.Function("rd"), sp.Function("size"), sp.Function("trunc"), sp.Function("notnone")
    BINe = trunc((rd(P0, rd(P2, k0)) - P1) / P3)
    BIN = str(nf(BINe))
    OFF = str(nf(k0 + size(P4) + 1))
    MAIN = str(nf(k0 < size(P2)))
    DOREV = str(nf(notnone(P5) > 0))
    incs = [x for x in A if x[2] == "store" and x[3] == "P4"]
    ok = len(incs) == 1 and incs[0][4] == BIN and incs[0][5] == str(nf(rd(P4, BINe) + 1))
    chk.ob("R05.2", "engine::one-increment-per-datum-in-its-bin", ok, py.where(), "hist[b] += 1 with b = trunc((data[s[i]] - min)/binsize) once per sorted datum (%s)" % [(x[4], x[5]) for x in incs])
    if incs:
        g = set(incs[0][1])
        want = {str(nf(BINe >= 0)), str(nf(size(P4) > BINe))}
        chk.ob("R05.2", "engine::count-guard-is-valid-bin", g == want, py.where(), "the increment is guarded by exactly 0 <= b < nbin (found %s)" % sorted(g))
        chk.ob("R05.2", "engine::main-loop-over-all-sorted-data", incs[0][0] == (MAIN,), py.where(), "the pass visits every sorted datum i in [0, s.size) (%s)" % list(incs[0][0]))
    revs = [x for x in A if x[2] == "store" and x[3] == "P5"]
    idx = [x for x in revs if x[5] == str(nf(rd(P2, k0)))]
    ok = len(idx) == 1 and idx[0][4] == OFF and set(idx[0][1]) == {DOREV}
    chk.ob("R05.2", "engine::every-sorted-index-stored-at-its-offset", ok, py.where(), "rev[i + nbin + 1] = s[i] for every i (value order, ties in original order) when reverse indices are requested")
    fills = [x for x in revs if x[5] == OFF and len(x[0]) == 2]
    ok = len(fills) == 1 and fills[0][4] == str(nf(S0 + k1 + 1)) and str(nf(S0 < BINe)) in fills[0][1] and str(nf(S0 + k1 + 1 <= BINe)) in fills[0][0]
    chk.ob("R05.2", "engine::bin-offsets-filled-up-to-current-bin", ok, py.where(), "when a datum opens bin b, rev[t] = offset for every t in (previous bin, b] (empty bins in between get the same offset)")
    chk.ob("R05.2", "engine::effect-count", len(revs) == 3, py.where(), "three kinds of stores into the reverse-index array (index, bin offset, tail)")
    # loop-carried state: the last occupied bin, and the end of the counted data
    states = sorted(x[5] for x in A if x[2] == "state")
    okb = any(x.startswith("PW[%s if " % BIN) for x in states)
    chk.ob("R05.2", "engine::state::last-occupied-bin", okb, py.where(), "the last occupied bin is updated to b exactly when a datum is counted")
    tail_fill(chk, py, cfn)
    # ---- R05.3 ABI ---------------------------------------------------------------
    abi(chk, repo, cfn)
    # ---- R05.4 / R05.5 ------------------------------------------------------------
    limits(chk, repo)
    derivations(chk, repo)


def tail_fill(chk, py, cfn):
    fn = py.node
    loops = [x for x in fn.body if isinstance(x, ast.While)] + [y for x in fn.body if isinstance(x, ast.If) for y in x.body if isinstance(y, ast.While)]
    tails = [lp for lp in loops if any(isinstance(s, ast.Assign) and isinstance(s.targets[0], ast.Subscript) and norm(s.targets[0].value) == py.params[5] for s in lp.body)
             and "<= nbin" in norm(lp.test)]
    chk.ob("R05.2", "engine::tail-fill-found", len(tails) == 1, py.where(), "tail fill loop over the bins past the last occupied one")
    if len(tails) != 1:
        return
    st = [s for s in tails[0].body if isinstance(s, ast.Assign) and isinstance(s.targets[0], ast.Subscript)][0]
    v = st.value
    rev = py.params[5]
    if isinstance(v, ast.Name):
        asg = [(a, _guards(fn, a)) for a in ast.walk(fn) if isinstance(a, ast.Assign) and norm(a.targets[0]) == v.id]
        init = [a for a, g in asg if not g and norm(a.value).replace(" ", "") in ("nbin+1", "hist.size+1")]
        upd = [a for a, g in asg if any("binnum >= 0 and binnum < nbin" in t for t in g) and norm(a.value).replace(" ", "") == "offset+1"]
        ok = len(asg) == 2 and len(init) == 1 and len(upd) == 1
        chk.ob("R05.2", "engine::tail-fill-is-end-of-counted-data", ok, py.where(st),
               "the offsets of the bins past the last occupied one are `%s`: initialised to nbin+1 and set to offset+1 whenever a datum is counted (%s)" % (v.id, [(norm(a), g) for a, g in asg]))
    else:
        ok = False
        chk.ob("R05.2", "engine::tail-fill-is-end-of-counted-data", ok, py.where(st),
               "the offsets of the bins past the last occupied one are set to `%s` (the end of *all* sorted data): data that were stored in the index area but not counted "
               "(bin index >= nbin, e.g. the maximum when nbin= is given) then fall into the last occupied bin's slice, whose length exceeds hist[i]" % norm(v))


def _guards(fn, node):
    """normalised tests of the if-statements (and while loops) enclosing node inside fn"""
    out = []

    def visit(stmts, g):
        for s in stmts:
            if s is node:
                out.extend(g)
                return True
            for f, extra in (("body", True), ("orelse", False)):
                sub = getattr(s, f, None)
                if isinstance(sub, list) and sub:
                    t = norm(s.test) if isinstance(s, ast.If) else None
                    gg = g + ([t if extra else "not " + t] if t else [])
                    if visit(sub, gg):
                        return True
        return False
    visit(fn.body, [])
    return out


def abi(chk, repo, cfn):
    fmt, names = parse_tuple_binding(cfn)
    units = parse_tuple_format(fmt or "")
    chk.ob("R05.3", "chist::parse-format", units == ["O", "d", "O", "d", "O", "O"] and len(names) == 6, "esutil/stat/chist_pywrap.c", "PyArg_ParseTuple format %r binds %s" % (fmt, names))
    dh = repo.func(ST + "Binner._do_hist")
    chk.analysed_unit(dh.qualname)
    calls = [x for x in walk_no_nested(dh.node) if isinstance(x, ast.Call) and dotted_name(x.func) == "_chist.chist"]
    ok = len(calls) == 1 and [norm(a) for a in calls[0].args] == ["data", "dmin", "sortind", "bsize", "hist", "revind"] and not calls[0].keywords
    chk.ob("R05.3", "Binner._do_hist::positional-call", ok, dh.where(), "chist(data, min, sort index, binsize, hist, rev) matches the parse order")
    pc = [x for x in walk_no_nested(dh.node) if isinstance(x, ast.Call) and call_name(x) == "_dohist"]
    ok = len(pc) == 1 and [norm(a) for a in pc[0].args] == ["data", "dmin", "sortind", "bsize", "hist"] and norm(kwarg(pc[0], "revind")) == "revind"
    chk.ob("R05.3", "Binner._do_hist::python-engine-same-roles", ok, dh.where(), "the Python engine receives the same six values in the same roles")
    # element types read/written by the C engine
    casts = {}
    for x in cfront.walk(cfront.body_of(cfn)):
        if x.get("kind") == "CStyleCastExpr" and "*" in x.get("type", {}).get("qualType", ""):
            objs = {r.get("referencedDecl", {}).get("name") for r in cfront.walk(x) if r.get("kind") == "DeclRefExpr"} & set(names)
            for o in objs:
                t = x["type"]["qualType"].replace(" ", "")
                if t not in ("void*", "char*", "PyArrayObject*", "constPyArrayObject*"):
                    casts.setdefault(o, set()).add(t)
    want = {names[0]: {"double*"}, names[2]: {"npy_int64*"}, names[4]: {"npy_int64*"}, names[5]: {"npy_int64*"}} if len(names) == 6 else {}
    chk.ob("R05.3", "chist::element-casts", casts == want, "esutil/stat/chist_pywrap.c", "C reads data as double and sort index / hist / rev as 64-bit integers (%s)" % {k: sorted(v) for k, v in casts.items()})
    # python-side dtype provenance at the allocation / conversion sites
    cfg = cfg_of(dh)
    z = {norm(a.targets[0]): norm(a.value) for a in walk_no_nested(dh.node) if isinstance(a, ast.Assign) and isinstance(a.value, ast.Call) and call_name(a.value) == "zeros"}
    ok = z.get("hist") == "np.zeros(nbin, dtype='i8')" and z.get("revind") == "np.zeros(revsize, dtype='i8')"
    chk.ob("R05.3", "Binner._do_hist::int64-out-buffers", ok, dh.where(), "hist and rev are allocated as int64 (%s)" % z)
    rs = {norm(a.value) for a in walk_no_nested(dh.node) if isinstance(a, ast.Assign) and norm(a.targets[0]) == "revsize"}
    chk.ob("R05.3", "Binner._do_hist::rev-size", rs == {"sortind.size + nbin + 1"}, dh.where(), "rev has nbin+1 offsets followed by one slot per sorted datum (%s)" % rs)
    init = repo.func(ST + "Binner.__init__")
    conv = {norm(a.targets[0]): norm(a.value) for a in walk_no_nested(init.node) if isinstance(a, ast.Assign)}
    chk.ob("R05.3", "Binner.__init__::data-is-float64", conv.get("self.x") == "np.atleast_1d(x).astype(np.float64)", init.where(), "the binned data are converted to float64 (matches the C double read)")
    si = repo.func(ST + "Binner._get_sort_index")
    srt = [x for x in walk_no_nested(si.node) if isinstance(x, ast.Call) and call_name(x) == "argsort"]
    ok = len(srt) == 1 and norm(srt[0].func.value) == "self.x" and kwarg(srt[0], "kind") is not None and norm(kwarg(srt[0], "kind")) in ("'stable'", "'mergesort'")
    chk.ob("R05.4", "Binner._get_sort_index::stable-argsort", ok, si.where(), "the sort index is a stable argsort of the data (ties keep original order)")
    # the two callers of _do_hist pass float64 data and an int64 sort index
    for q, want_args in ((ST + "Binner._hist_by_binsize_or_nbin", ["self.x", "self.dmin", "self['wsort']", "binsize", "nbin"]), (ST + "Binner._hist_by_num", ["f8ind", "0", "inds", "bsize", "nbin", "True"])):
        fi = repo.func(q)
        chk.analysed_unit(q)
        c = [x for x in walk_no_nested(fi.node) if isinstance(x, ast.Call) and call_name(x) == "_do_hist"]
        ok = len(c) == 1 and [norm(a) for a in c[0].args][:len(want_args)] == want_args
        chk.ob("R05.3", q.split(".")[-1] + "::engine-arguments", ok, fi.where(), "engine called with (%s)" % ", ".join(want_args))


def limits(chk, repo):
    fi = repo.func(ST + "Binner._get_minmax_and_indices")
    chk.analysed_unit(fi.qualname)
    cfg = cfg_of(fi)
    view = cfg.view()
    wh = [n for n in cfg.nodes if n.kind == "stmt" and isinstance(n.ast, ast.Assign) and isinstance(n.ast.value, ast.Call) and call_name(n.ast.value) == "where"]
    ok = len(wh) == 1 and norm(wh[0].ast.value.args[0]) == "(self.x[s] >= xmin) & (self.x[s] <= xmax)"
    chk.ob("R05.4", "limits::inclusive-conjunction", ok, fi.where(), "data are kept when min <= x <= max, both inclusive, in sorted order (%s)" % (norm(wh[0].ast.value.args[0]) if wh else None))
    ws = {(norm(n.ast.value), dict(rules.controlling_tests(view, n)).get("dowhere")) for n in cfg.nodes if n.kind == "stmt" and isinstance(n.ast, ast.Assign) and norm(n.ast.targets[0]) == "self['wsort']"}
    chk.ob("R05.4", "limits::filtered-sort-index", ws == {("s[w]", "T"), ("s", "F")}, fi.where(), "the engine's sort index is the stable sort index restricted to the kept data (%s)" % sorted(ws, key=str))
    env = {}
    for n in cfg.nodes:
        if n.kind == "stmt" and isinstance(n.ast, ast.Assign) and norm(n.ast.targets[0]) in ("xmin", "xmax"):
            env.setdefault(norm(n.ast.targets[0]), set()).add(norm(n.ast.value))
    chk.ob("R05.4", "limits::defaults-are-data-extremes", env == {"xmin": {"min", "self.x[s[0]]"}, "xmax": {"max", "self.x[s[-1]]"}}, fi.where(), "absent limits default to the smallest / largest datum (%s)" % env)
    dm = {norm(n.ast.targets[0]): norm(n.ast.value) for n in cfg.nodes if n.kind == "stmt" and isinstance(n.ast, ast.Assign) and norm(n.ast.targets[0]) in ("self.dmin", "self.dmax")}
    chk.ob("R05.4", "limits::engine-min-is-lower-limit", dm == {"self.dmin": "xmin", "self.dmax": "xmax"}, fi.where(), "the binning origin is the lower limit")
    dw = {(norm(n.ast.value), tuple(sorted(dict(rules.controlling_tests(view, n)).items()))) for n in cfg.nodes if n.kind == "stmt" and isinstance(n.ast, ast.Assign) and norm(n.ast.targets[0]) == "dowhere"}
    chk.ob("R05.4", "limits::filter-applied-when-a-limit-is-given", dw == {("False", ()), ("True", (("min is not None", "T"),)), ("True", (("max is not None", "T"),))}, fi.where(), "the filter runs whenever min or max is given")


def derivations(chk, repo):
    fi = repo.func(ST + "Binner._hist_by_binsize_or_nbin")
    cfg = cfg_of(fi)
    view = cfg.view()
    d = {}
    for n in cfg.nodes:
        if n.kind == "stmt" and isinstance(n.ast, ast.Assign) and norm(n.ast.targets[0]) in ("nbin", "binsize"):
            d[norm(n.ast.targets[0])] = (norm(n.ast.value), rules.controlling_tests(view, n)[:1])
    ok = d.get("nbin") == ("np.int64((self.dmax - self.dmin) / binsize) + 1", [("binsize is not None", "T")])
    chk.ob("R05.5", "derive::nbin-from-binsize", ok, fi.where(), "nbin = trunc((max-min)/binsize) + 1 (the largest datum maps to the last bin): %s" % (d.get("nbin"),))
    ok = d.get("binsize") == ("float(self.dmax - self.dmin) / nbin", [("nbin is not None", "T")])
    chk.ob("R05.5", "derive::binsize-from-nbin", ok, fi.where(), "binsize = (max-min)/nbin: %s" % (d.get("binsize"),))
    st = {norm(a.targets[0]): norm(a.value) for a in walk_no_nested(fi.node) if isinstance(a, ast.Assign) and norm(a.targets[0]).startswith("self[")}
    chk.ob("R05.5", "derive::results-stored", st.get("self['hist']") == "h" and st.get("self['rev']") == "r" and st.get("self['binsize']") == "binsize" and st.get("self['nbin']") == "nbin", fi.where(), "hist / rev / binsize / nbin are stored as computed")
    h = repo.func(ST + "histogram")
    chk.analysed_unit(h.qualname)
    cfg = cfg_of(h)
    view = cfg.view()
    b = [x for x in walk_no_nested(h.node) if isinstance(x, ast.Call) and call_name(x) == "Binner"]
    ok = len(b) == 1 and [norm(a) for a in b[0].args] == ["data"] and norm(kwarg(b[0], "weights")) == "weights"
    chk.ob("R05.5", "histogram::binner-of-data", ok, h.where(), "histogram builds Binner(data, weights=weights)")
    dc = [x for x in walk_no_nested(h.node) if isinstance(x, ast.Call) and call_name(x) == "dohist"]
    ok = len(dc) == 1 and all(k.arg and norm(k.value) == k.arg for k in dc[0].keywords) and {k.arg for k in dc[0].keywords} == {"binsize", "nbin", "nperbin", "mergelast", "min", "max", "rev"}
    chk.ob("R05.5", "histogram::options-forwarded", ok, h.where(), "every binning option is forwarded under its own name")
    rets = {norm(n.ast.value): dict(rules.controlling_tests(view, n, skip_reject_guards=False)) for n in rules.return_nodes(cfg)}
    ok = rets.get("(b['hist'], b['rev'])", {}).get("rev") == "T" and rets.get("b['hist']", {}).get("rev") == "F" and "b" in rets
    chk.ob("R05.5", "histogram::returns", ok, h.where(), "returns hist (and rev when asked), or the Binner when more statistics are requested (%s)" % {k: v for k, v in rets.items()})
    pre = {(norm(n.ast), tuple(rules.controlling_tests(view, n)[:1])) for n in cfg.nodes if n.kind == "stmt" and isinstance(n.ast, ast.Assign) and norm(n.ast.targets[0]) in ("binsize", "rev")}
    chk.ob("R05.5", "histogram::nbin-overrides-binsize", ("binsize = None", (("nbin is not None", "T"),)) in pre and ("rev = True", (("more", "T"),)) in pre, h.where(), "nbin overrides binsize; more=True implies reverse indices")
    dh = repo.func(ST + "Binner.dohist")
    chk.analysed_unit(dh.qualname)
    cfg = cfg_of(dh)
    view = cfg.view()
    disp = {}
    for n in cfg.nodes:
        for c in rules.stmts_calls(n):
            if call_name(c) in ("_hist_by_num", "_hist_by_binsize_or_nbin", "_get_minmax_and_indices"):
                disp[call_name(c)] = (norm(c), rules.controlling_tests(view, n)[:1])
    ok = disp.get("_hist_by_binsize_or_nbin") == ("self._hist_by_binsize_or_nbin(binsize, nbin, rev)", [("nbin is not None or binsize is not None", "T")]) and \
        disp.get("_get_minmax_and_indices", ("",))[0] == "self._get_minmax_and_indices(min=min, max=max)"
    chk.ob("R05.5", "dohist::dispatch", ok, dh.where(), "limits are applied first, then the binsize/nbin histogram is selected (%s)" % disp)
