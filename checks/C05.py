"""C05 -- histogram counts and reverse indices partition the binned data; the
compiled and the pure-Python engines return identical arrays."""
import ast
import copy
import hashlib

from vcheck import cfront, pat, rules, sibling
from vcheck.cfg import eval_test, NOTNONE
from vcheck.core import PyRepo, AnalysisError, call_name, const_value, dotted_name, kwarg, norm, walk_no_nested
from vcheck.cstr import parse_tuple_format
from vcheck.ceffects import parse_tuple_binding
from vcheck.rules import cfg_of

MANIFEST = dict(
    text="Sibling cross-check plus value-flow rules (not a behavioural proof): (1) the C engine (clang AST) and the pure-Python engine "
         "are desugared (helpers inlined, for/continue/early return/compound assignment/slice and vectorised counting idioms rewritten "
         "to assignments, stores, if and while; in C every pointer local is typed as 'into array A, counted in elements or in strides of A' "
         "and replaced by an integer index, so stepped pointers, hoisted base pointers / strides and accessor macros read alike), lowered to guarded effects (array role, index term, value term, guard atoms, loop "
         "descriptors; roles by shared argument position, affine induction variables in closed form) which are renamed by content "
         "(loop counters by depth, loop carried state by its update rule) and must form equal effect sets with equal initial state -- "
         "the two engines then perform the same stores under the same conditions for every input, which decides 'identical arrays' up "
         "to libm/float conversion; (2) count/index pairing on those effects: one increment of hist[b] per datum exactly under "
         "0 <= b < nbin with b = trunc((x-min)/binsize), every sorted index stored at offset i+nbin+1, bin offsets filled for "
         "(previous bin, b], and the tail fill of the offsets past the last occupied bin must be the offset just past the last "
         "*counted* datum (not the end of all data); (3) ABI agreement between the values that reach the engine calls on every path and "
         "the C casts / PyArg_ParseTuple format, and memory layout: an array whose elements the C engine addresses through the bare "
         "buffer pointer (not through the strides) must be freshly allocated and contiguous on every path from the public entry "
         "points (layout provenance over the wrapper methods and instance cells); (4) inclusive min/max filter on a stable argsort, "
         "decided per path and per given/absent limit, and for every value a given limit can have (value tests such as `min or d` / "
         "`if min:` are split: zero is falsy); every value that becomes the sort index is a stable argsort or a shortcut (positions "
         "0..n-1 / n-1..0) whose branch condition makes it equal to one (reversed positions need strictly decreasing data); what reaches "
         "the engine in one call does not read an attribute in which an earlier call left a value derived from its limits; (5) bin count / bin size derivations and pass-through of the public wrapper.  The count "
         "conditions of (2) are also checked on the C engine's own effects (every counted datum is reached through the sort index, "
         "which carries the min/max filter, with and without reverse indices).  Layout independence added for refactors: the private "
         "Binner methods are found by what they do (the one that calls the engines, the one that stores 'wsort', ...), not by name; in C, "
         "expression helpers (`return <expr>`) and validating helpers that hand back their argument or NULL are folded in, argument "
         "rejections (`if (...) { PyErr_...; return NULL; }` before any work) are set aside and stated as an assumption, an early "
         "`return value` reads as if/else; an element the engine reads back from a region it filled with a finished copy loop is the "
         "copied value when no other store can reach the region (shown by adding up that store's loop conditions and guards), any other "
         "read of self-written memory gives no verdict; the bin cursor may be `last bin` (from -1) or `last bin + 1` (from 0); an "
         "unfiltered sort index with a limit given is accepted only on a path whose conditions say limit <= smallest / largest <= limit; "
         "instance attributes that cache a function of the data (class invariant over every store) are read as that function.  "
         "Per-iteration rules on each engine by itself (paths through one iteration of every top-level loop, loop carried variables as symbols, "
         "break / return / goto kept): no way out of the pass over the sort index that holds the index store is taken under a condition on the data (the "
         "remaining positions would never be stored), and the index of the increment is computed from the datum of that iteration or is a remembered bin "
         "that every path keeps paired with the remembered datum it is reused for.  An unfiltered sort index with a limit given is a violation when no "
         "condition of the path reads that limit's value.  When the effect comparison cannot express an engine (break, None-valued state) it gives no "
         "verdict and the other rules still run.",
    note="Not decided: counts for particular data, floating-point rounding at bin edges. Assumes LP64 (argsort/arange give int64). "
         "Trusted: clang AST, sympy normaliser, numpy argsort(kind='stable').",
    technique="static analysis: cross-language sibling comparison of guarded-effect normal forms (clang AST vs Python ast), path-sensitive value flow over the wrapper functions, format/ABI agreement",
)

ST = "esutil.stat.util."


# rules that keep their verdict however the code is laid out (decided by term equality, effect analysis or per-path value
# flow; they answer "not recognised" themselves when a construct cannot be identified); every other rule of this check is
# a template rule (vcheck.core.Check.obt)
SEMANTIC = ('R05.1', 'R05.2', 'R05.4', 'R05.3::chist::layout', 'R05.3::chist::element-casts', 'R05.3::Binner.__init__::data-is-float64', 'R05.5::dohist::dispatch', 'R05.5::derive::given-specification-is-kept',
            'R05.3::Binner._do_hist::reverse-indices-whenever-needed')


def run(chk):
    repo = PyRepo()
    chk.set_templates(repo, semantic=SEMANTIC)
    chk.explanation = MANIFEST["text"]
    chk.trusted = ["clang 14 AST", "sympy normaliser", "numpy stable argsort", "LP64"]
    chk.assume("LP64 platform: argsort/arange yield int64, npy_int64 is long")
    chk.floor = 30
    py = repo.func(ST + "_dohist")
    cdecls = cfront.functions(cfront.load_tu("chist"))
    if "PyCHist_chist" not in cdecls:
        raise AnalysisError("C anchor PyCHist_chist not found")
    cfn = cdecls["PyCHist_chist"]
    chk.analysed_unit(py.qualname)
    chk.analysed_unit("PyCHist_chist")
    # ---- R05.1 isomorphism, R05.2 count / index pairing ---------------------------
    engines(chk, repo, py, cfn)
    # ---- R05.3 ABI ---------------------------------------------------------------
    abi(chk, repo, cfn)
    # ---- R05.4 / R05.5 ------------------------------------------------------------
    limits(chk, repo)
    derivations(chk, repo)


# =============================================================================
# C engine: desugaring of the clang AST before the sibling lowering
# =============================================================================
# The lowering of vcheck.sibling knows assignments, stores, if, while / for and ++/--.  Everything below is rewritten into
# those on a copy of the function: helper functions of the same file are inlined at their call statements, `a op= b`
# becomes `a = a op b`, comma expressions in statement position are split, `for` becomes init + while (body; inc), a guard
# `if (c) continue;` becomes `if (!c) { rest }` (negation pushed through && || and the relational operators), element
# pointers kept in a local (`p = (T *) PyArray_GETPTR1(a, i); ... *p`) and doubles that are only truncated later
# (`t = x / y; b = (npy_int64) t`) are substituted forward into their uses.  Pointers into the arrays (stepped, offset, compared,
# hoisted base pointer + stride) are replaced by element indices first (_CPtr below); a counter that is stepped under a loop
# invariant test and read only under that test is stepped unconditionally (_c_hoist_counters).
INT_TYPES = ("npy_int64", "int64_t", "long", "npy_intp", "int", "long long", "Py_ssize_t", "ssize_t")
_FLIP = {"<": ">=", ">=": "<", ">": "<=", "<=": ">", "==": "!=", "!=": "=="}


def _cu(n):
    while isinstance(n, dict) and n.get("kind") in ("ImplicitCastExpr", "ParenExpr", "ConstantExpr") and n.get("inner"):
        n = n["inner"][0]
    return n


def _c_neg(c):
    u = _cu(c)
    if u.get("kind") == "BinaryOperator":
        op = u.get("opcode")
        if op in ("&&", "||"):
            return {"kind": "BinaryOperator", "opcode": "||" if op == "&&" else "&&", "type": u.get("type"), "line": u.get("line"),
                    "inner": [_c_neg(u["inner"][0]), _c_neg(u["inner"][1])]}
        if op in _FLIP:
            return dict(u, opcode=_FLIP[op], inner=copy.deepcopy(u["inner"]))
    if u.get("kind") == "UnaryOperator" and u.get("opcode") == "!":
        return copy.deepcopy(u["inner"][0])
    return {"kind": "UnaryOperator", "opcode": "!", "type": {"qualType": "int"}, "line": u.get("line"), "inner": [copy.deepcopy(c)]}


def _c_block(n):
    """statement list of a loop / if body"""
    if not isinstance(n, dict) or not n.get("kind"):
        return []
    return list(n.get("inner", []) or []) if n["kind"] == "CompoundStmt" else [n]


def _c_compound(stmts, line=None):
    return {"kind": "CompoundStmt", "line": line, "inner": stmts}


def _c_refs(n):
    return {x.get("referencedDecl", {}).get("name") for x in cfront.walk(n) if x.get("kind") == "DeclRefExpr"}


def _c_assigned(n):
    """names of the scalars assigned somewhere inside n"""
    out = set()
    for x in cfront.walk(n):
        k = x.get("kind")
        if (k == "BinaryOperator" and x.get("opcode") == "=") or k == "CompoundAssignOperator" or (k == "UnaryOperator" and x.get("opcode") in ("++", "--")):
            l = _cu(x["inner"][0])
            if l.get("kind") == "DeclRefExpr":
                out.add(l.get("referencedDecl", {}).get("name"))
        elif k == "VarDecl" and x.get("name"):
            out.add(x["name"])
    return out


def _c_is_continue(n):
    b = _c_block(n)
    return len(b) == 1 and b[0].get("kind") == "ContinueStmt"


def _c_elim_continue(stmts):
    for i, st in enumerate(stmts):
        if st.get("kind") == "IfStmt" and len([c for c in st["inner"] if c.get("kind")]) == 2 and _c_is_continue(st["inner"][1]):
            rest = _c_elim_continue(stmts[i + 1:])
            return stmts[:i] + [{"kind": "IfStmt", "line": st.get("line"), "inner": [_c_neg(st["inner"][0]), _c_compound(rest, st.get("line"))]}]
    return stmts


def _c_split_comma(n):
    u = _cu(n)
    if isinstance(u, dict) and u.get("kind") == "BinaryOperator" and u.get("opcode") == ",":
        return _c_split_comma(u["inner"][0]) + _c_split_comma(u["inner"][1])
    return [n] if isinstance(n, dict) and n.get("kind") else []


def _c_strip_casts(n):
    while isinstance(n, dict) and n.get("kind") in ("ImplicitCastExpr", "ParenExpr", "CStyleCastExpr", "ConstantExpr") and n.get("inner"):
        n = n["inner"][0]
    return n


def _c_unqual(t):
    """the type without top-level / pointee const (the qualifier does not change what an expression computes)"""
    t = " ".join(w for w in (t or "").replace("*", " * ").split() if w not in ("const", "volatile", "restrict", "register"))
    return t.replace(" * ", " *").replace("* *", "**").strip()


def _c_has_side_effect(n):
    for x in cfront.walk(n):
        k = x.get("kind")
        if (k == "BinaryOperator" and x.get("opcode") == "=") or k == "CompoundAssignOperator" or (k == "UnaryOperator" and x.get("opcode") in ("++", "--")):
            return True
    return False


def _c_subst_params(body, fname, amap):
    """in place: references to the parameters of helper `fname` become the argument expressions, its locals get the prefix fname__"""
    locs = {x["name"] for x in cfront.walk(body) if x.get("kind") == "VarDecl" and x.get("name")}

    def rewrite(n):
        if not isinstance(n, dict):
            return
        for i, ch in enumerate(n.get("inner", []) or []):
            if isinstance(ch, dict) and ch.get("kind") == "DeclRefExpr":
                nm = ch.get("referencedDecl", {}).get("name")
                if ch.get("referencedDecl", {}).get("kind") == "ParmVarDecl" and nm in amap:
                    n["inner"][i] = {"kind": "ParenExpr", "type": ch.get("type"), "line": ch.get("line"), "inner": [copy.deepcopy(amap[nm])]}
                    continue
                if nm in locs:
                    ch["referencedDecl"] = dict(ch["referencedDecl"], name="%s__%s" % (fname, nm))
            if isinstance(ch, dict) and ch.get("kind") == "VarDecl" and ch.get("name") in locs:
                ch["name"] = "%s__%s" % (fname, ch["name"])
            rewrite(ch)
    rewrite(body)


def _c_is_rejection(st):
    """`if (c) { PyErr_...(...); return NULL; }` without else: the function raises instead of computing anything"""
    if st.get("kind") != "IfStmt" or st.get("hasInit") or st.get("hasVar"):
        return False
    inner = [c for c in st["inner"] if isinstance(c, dict) and c.get("kind")]
    if len(inner) != 2:
        return False
    arm = _c_block(inner[1])
    if not arm or arm[-1].get("kind") != "ReturnStmt" or not arm[-1].get("inner") or not _c_is_null(arm[-1]["inner"][0]):
        return False
    return all(x.get("kind") == "NullStmt" or (x.get("kind") == "CallExpr" and (cfront.callee_name(x) or "").startswith(("PyErr_", "Py_DECREF", "Py_XDECREF", "Py_CLEAR"))) for x in arm[:-1])


class _CPrep:
    def __init__(self, helper):
        self.helper = helper          # name -> function decl of the same translation unit (or None)
        self.depth = 0
        self.rejections = []          # (line, condition text) of the argument rejections that were set aside
        self.begun = False            # on the path being rewritten a loop or a helper that is not part of the C-API has run: arrays may have been written
        self._pure, self._ident = {}, {}

    # -- statements -------------------------------------------------------------
    def stmts(self, nodes, top=False):
        """top: the statement list is the body of the function itself (an early `return <value>` there ends the function)"""
        out = []
        nodes = list(nodes)
        for pos, st in enumerate(nodes):
            if isinstance(st, dict) and st.get("kind") == "IfStmt":
                acc = []
                sibling.find_calls(st["inner"][0], "PyArg_ParseTuple", acc)
                if not acc and _c_is_rejection(st):
                    if self.begun:
                        raise NotImplementedError("the function can raise (line %s) after it has begun its work" % st.get("line"))
                    # an argument rejection: `x = validated(arg)` embedded in the test is kept as the assignment it is on the
                    # path that goes on; the test itself is set aside (recorded; the caller states it as an assumption)
                    out.extend(self.embedded_assignments(st["inner"][0]))
                    self.rejections.append((st.get("line"), cfront.render(st["inner"][0])[:120]))
                    continue
                inner = [c for c in st["inner"] if isinstance(c, dict) and c.get("kind")]
                arm = _c_block(inner[1]) if len(inner) == 2 else []
                if top and not acc and arm and arm[-1].get("kind") == "ReturnStmt" and arm[-1].get("inner") and not _c_is_null(arm[-1]["inner"][0]) \
                        and not any(x.get("kind") == "ReturnStmt" for a in arm[:-1] for x in cfront.walk(a)) and not st.get("hasInit") and not st.get("hasVar"):
                    # `if (c) { A; return value; } B`  ->  `if (c) { A } else { B }`
                    b0 = self.begun
                    first = self.stmts(arm[:-1])
                    self.begun = b0               # the rest runs on the path that did not take the early return
                    rest = self.stmts(nodes[pos + 1:], top=True)
                    cond = copy.deepcopy(st["inner"][0])
                    self.pure(cond)
                    out.append({"kind": "IfStmt", "line": st.get("line"), "inner": [cond, _c_compound(first, st.get("line")), _c_compound(rest, st.get("line"))]})
                    return out
            if isinstance(st, dict) and (st.get("kind") in ("ForStmt", "WhileStmt", "DoStmt") or
                                         (st.get("kind") == "CallExpr" and not (cfront.callee_name(st) or "Py").startswith(("Py", "_Py", "Npy", "npy_")))):
                self.begun = True
                if st.get("kind") != "CallExpr" and any(x.get("kind") == "ReturnStmt" for x in cfront.walk(st)):
                    raise NotImplementedError("return from inside a loop (line %s)" % st.get("line"))
            out.extend(self.stmt(st))
        return out

    # -- helper functions that are expressions --------------------------------------
    def pure_helper(self, name):
        """(parameter names, parameter types, returned expression, return type) of a helper whose body is `return <expr>;`, else None"""
        if name not in self._pure:
            r = None
            d = self.helper(name) if name and not name.startswith(("Py", "_Py", "Npy", "npy_")) else None
            if d is not None:
                body = [x for x in (cfront.body_of(d) or {}).get("inner", []) or [] if x.get("kind") != "NullStmt"]
                if len(body) == 1 and body[0].get("kind") == "ReturnStmt" and body[0].get("inner") and not _c_has_side_effect(body[0]):
                    ps = [c for c in d.get("inner", []) if c.get("kind") == "ParmVarDecl"]
                    rt = (d.get("type", {}).get("qualType", "") or "").split("(")[0].strip()
                    r = ([c.get("name", "") for c in ps], [c.get("type", {}).get("qualType", "") for c in ps], body[0]["inner"][0], rt)
            self._pure[name] = r
        return self._pure[name]

    def pure(self, n, depth=0):
        """in place: calls of expression helpers inside n are replaced by the returned expression (arguments and result converted to
        the declared types)"""
        if not isinstance(n, dict) or depth > 6:
            return
        kids = n.get("inner", []) or []
        for i, ch in enumerate(kids):
            if not isinstance(ch, dict):
                continue
            self.pure(ch, depth)
            if ch.get("kind") == "CallExpr":
                h = self.pure_helper(cfront.callee_name(ch))
                args = ch["inner"][1:]
                if h is None or len(h[0]) != len(args) or any(_c_has_side_effect(a) for a in args):
                    continue
                amap = {}
                for p, pt, a in zip(h[0], h[1], args):
                    at = a.get("type", {}).get("qualType", "")
                    amap[p] = a if _c_unqual(at) == _c_unqual(pt) or "*" in pt else {"kind": "CStyleCastExpr", "type": {"qualType": _c_unqual(pt)}, "line": a.get("line"), "inner": [a]}
                w = {"kind": "ParenExpr", "inner": [copy.deepcopy(h[2])]}
                _c_subst_params(w, cfront.callee_name(ch), amap)
                e = w["inner"][0]
                if _c_unqual(e.get("type", {}).get("qualType", "")) != _c_unqual(h[3]) and "*" not in h[3] and h[3]:
                    e = {"kind": "CStyleCastExpr", "type": {"qualType": _c_unqual(h[3])}, "line": ch.get("line"), "inner": [e]}
                new = {"kind": "ParenExpr", "type": ch.get("type"), "line": ch.get("line"), "inner": [e]}
                self.pure(new, depth + 1)
                kids[i] = new

    # -- helper functions that hand back one of their arguments, or NULL after raising ---------
    def identity_helper(self, name):
        """index of the parameter that the helper returns (possibly cast) whenever it does not return NULL, else None.  The helper
        may only inspect its arguments: it stores through no pointer and calls nothing but the Python / numpy C-API."""
        if name not in self._ident:
            r = None
            d = self.helper(name) if name and not name.startswith(("Py", "_Py", "Npy", "npy_")) else None
            body = cfront.body_of(d) if d is not None else None
            if body is not None:
                ps = cfront.params_of(d)
                defs = {}
                clean = True
                for x in cfront.walk(body):
                    k = x.get("kind")
                    if (k == "BinaryOperator" and x.get("opcode") == "=") or k == "CompoundAssignOperator":
                        l = _cu(x["inner"][0])
                        if l.get("kind") == "DeclRefExpr" and k == "BinaryOperator" and l.get("referencedDecl", {}).get("kind") != "ParmVarDecl":
                            defs.setdefault(l["referencedDecl"].get("name"), []).append(x["inner"][1])
                        else:
                            clean = False
                    elif k == "VarDecl" and x.get("name"):
                        init = [c for c in x.get("inner", []) or [] if isinstance(c, dict) and c.get("kind")]
                        if init:
                            defs.setdefault(x["name"], []).append(init[-1])
                    elif k == "UnaryOperator" and x.get("opcode") in ("++", "--"):
                        clean = False
                    elif k == "CallExpr" and not (cfront.callee_name(x) or "Py").startswith(("Py", "_Py", "Npy", "npy_")):
                        clean = False

                def src(e, seen=()):
                    u = _c_strip_casts(e)
                    if _c_is_null(e):
                        return {"null"}
                    if isinstance(u, dict) and u.get("kind") == "DeclRefExpr":
                        nm = u.get("referencedDecl", {}).get("name")
                        if u.get("referencedDecl", {}).get("kind") == "ParmVarDecl":
                            return {nm}
                        if nm in defs and nm not in seen:
                            out = set()
                            for d_ in defs[nm]:
                                out |= src(d_, seen + (nm,))
                            return out
                    return {"?"}
                rets = set()
                for x in cfront.walk(body):
                    if x.get("kind") == "ReturnStmt":
                        rets |= src(x["inner"][0]) if x.get("inner") else {"?"}
                got = rets - {"null"}
                if clean and len(got) == 1 and next(iter(got)) in ps:
                    r = ps.index(next(iter(got)))
            self._ident[name] = r
        return self._ident[name]

    def as_identity(self, st):
        """`x = validated(..., arg, ...)`  ->  `x = (T) arg` (the value on the path where the helper did not raise), else None"""
        if not (isinstance(st, dict) and st.get("kind") == "BinaryOperator" and st.get("opcode") == "=" and _cu(st["inner"][0]).get("kind") == "DeclRefExpr"):
            return None
        c = _c_strip_casts(st["inner"][1])
        if not (isinstance(c, dict) and c.get("kind") == "CallExpr"):
            return None
        k = self.identity_helper(cfront.callee_name(c))
        if k is None or k + 1 >= len(c["inner"]):
            return None
        ty = _cu(st["inner"][0]).get("type", {}).get("qualType", "")
        return dict(st, inner=[st["inner"][0], {"kind": "CStyleCastExpr", "type": {"qualType": ty}, "line": st.get("line"), "inner": [copy.deepcopy(c["inner"][k + 1])]}])

    def embedded_assignments(self, cond):
        out = []
        for x in cfront.walk(cond):
            a = self.as_identity(x)
            if a is not None:
                out.append(a)
        return out

    def stmt(self, st):
        k = st.get("kind")
        if k == "CompoundStmt":
            return self.stmts(st.get("inner", []) or [])
        if k not in ("IfStmt", "ForStmt", "WhileStmt", "DoStmt", "SwitchStmt"):
            self.pure(st)
        if k == "DeclStmt":
            for v in st.get("inner", []) or []:
                if v.get("kind") == "VarDecl" and isinstance(v.get("type"), dict):
                    v["type"] = dict(v["type"], qualType=_c_unqual(v["type"].get("qualType", "")))
            return [st]
        a = self.as_identity(st)
        if a is not None:
            return [a]
        if k == "BinaryOperator" and st.get("opcode") == ",":
            return self.stmts(_c_split_comma(st))
        if k == "CompoundAssignOperator":
            op = st.get("opcode", "")[:-1]
            lhs, rhs = st["inner"]
            return [{"kind": "BinaryOperator", "opcode": "=", "type": st.get("type"), "line": st.get("line"),
                     "inner": [lhs, {"kind": "BinaryOperator", "opcode": op, "type": st.get("computeResultType", st.get("type")), "line": st.get("line"),
                                     "inner": [{"kind": "ImplicitCastExpr", "type": st.get("type"), "line": st.get("line"), "inner": [copy.deepcopy(lhs)]}, rhs]}]}]
        if k == "BinaryOperator" and st.get("opcode") == "=" and _cu(st["inner"][1]).get("kind") == "ConditionalOperator":
            # `x = c ? a : b;`  ->  `if (c) x = a; else x = b;`  (the value then reaches the effects as a guarded / piecewise term)
            c, a, b = _cu(st["inner"][1])["inner"]
            arm = lambda v: _c_compound([dict(st, inner=[copy.deepcopy(st["inner"][0]), v])], st.get("line"))
            return self.stmt({"kind": "IfStmt", "line": st.get("line"), "inner": [c, arm(a), arm(b)]})
        if k == "IfStmt":
            inner = st["inner"]
            acc = []
            sibling.find_calls(inner[0], "PyArg_ParseTuple", acc)
            if acc or st.get("hasInit") or st.get("hasVar"):
                return [st]
            self.pure(st)
            b0 = self.begun
            new = [inner[0], _c_compound(self.stmts(_c_block(inner[1])), st.get("line"))]
            b1, self.begun = self.begun, b0
            if len(inner) > 2 and inner[2].get("kind"):
                new.append(_c_compound(self.stmts(_c_block(inner[2])), st.get("line")))
            self.begun = self.begun or b1
            return [dict(st, inner=new)]
        if k == "ForStmt":
            self.pure(st)
            init, _, test, inc, body = st["inner"]
            if not (isinstance(test, dict) and test.get("kind")):
                raise NotImplementedError("for without a condition")
            b = _c_elim_continue(self.stmts(_c_block(body))) + self.stmts(_c_split_comma(inc))
            return self.stmts(_c_split_comma(init)) + [{"kind": "WhileStmt", "line": st.get("line"), "inner": [test, _c_compound(b, st.get("line"))]}]
        if k == "WhileStmt":
            self.pure(st)
            # `continue` skips the rest of the body, which is all an `if (!c) { rest }` does
            return [dict(st, inner=[st["inner"][0], _c_compound(_c_elim_continue(self.stmts(_c_block(st["inner"][1]))), st.get("line"))])]
        if k == "CallExpr":
            return self.call(st)
        return [st]

    # -- helper calls -----------------------------------------------------------
    def call(self, st):
        c = _cu(st["inner"][0])
        rd = c.get("referencedDecl", {}) if c.get("kind") == "DeclRefExpr" else {}
        name = rd.get("name")
        if rd.get("kind") != "FunctionDecl" or not name or name.startswith(("Py", "_Py", "PyArray", "Npy", "npy_")):
            return [st]
        d = self.helper(name)
        if d is None:
            return [st]
        if self.depth > 3:
            raise NotImplementedError("helper calls nested too deeply at %s" % name)
        params = cfront.params_of(d)
        args = st["inner"][1:]
        body = copy.deepcopy(cfront.body_of(d))
        if len(params) != len(args) or set(params) & _c_assigned(body):
            raise NotImplementedError("helper %s assigns its parameters" % name)
        _c_subst_params(body, name, dict(zip(params, args)))
        inner = list(body.get("inner", []) or [])
        if inner and inner[-1].get("kind") == "ReturnStmt" and not inner[-1].get("inner"):
            inner = inner[:-1]
        if any(x.get("kind") == "ReturnStmt" for s_ in inner for x in cfront.walk(s_)):
            raise NotImplementedError("helper %s returns from the middle" % name)
        self.depth += 1
        try:
            return self.stmts(inner)
        finally:
            self.depth -= 1


def _c_forward(stmts, fn_body):
    """forward substitution of element pointers and of doubles that are only truncated later (see the section comment)"""
    types = {x["name"]: x.get("type", {}).get("qualType", "") for x in cfront.walk(fn_body) if x.get("kind") == "VarDecl" and x.get("name")}
    ptr = set()
    for x in cfront.walk(fn_body):
        if x.get("kind") == "BinaryOperator" and x.get("opcode") == "=":
            l = _cu(x["inner"][0])
            if l.get("kind") == "DeclRefExpr" and "*" in types.get(l["referencedDecl"].get("name"), ""):
                acc = []
                sibling.find_calls(x["inner"][1], "PyArray_BYTES", acc)
                if acc:
                    ptr.add(l["referencedDecl"]["name"])
    dbl = set()
    for x in cfront.walk(fn_body):
        if x.get("kind") == "CStyleCastExpr" and x.get("type", {}).get("qualType") in INT_TYPES:
            u = _cu(x["inner"][0])
            if u.get("kind") == "DeclRefExpr" and types.get(u["referencedDecl"].get("name")) in ("double", "float", "npy_float64"):
                dbl.add(u["referencedDecl"]["name"])
    if not ptr and not dbl:
        return stmts

    def use(n, sub):
        """substitute inside expression n (in place)"""
        if not isinstance(n, dict):
            return
        kids = n.get("inner", []) or []
        for i, ch in enumerate(kids):
            if not isinstance(ch, dict):
                continue
            if n.get("kind") == "BinaryOperator" and n.get("opcode") == "=" and i == 0 and _cu(ch).get("kind") == "DeclRefExpr":
                continue
            u = _cu(ch)
            if u.get("kind") == "DeclRefExpr":
                nm = u.get("referencedDecl", {}).get("name")
                if nm in sub and (nm in ptr or (n.get("kind") == "CStyleCastExpr" and n.get("type", {}).get("qualType") in INT_TYPES)):
                    kids[i] = {"kind": "ParenExpr", "type": u.get("type"), "line": u.get("line"), "inner": [copy.deepcopy(sub[nm])]}
                    continue
            use(ch, sub)

    def kill(sub, names):
        for k in [k for k, v in sub.items() if k in names or (_c_refs(v) & names)]:
            del sub[k]

    def block(nodes, sub):
        out = []
        for st in nodes:
            k = st.get("kind")
            if k == "BinaryOperator" and st.get("opcode") == "=" and _cu(st["inner"][0]).get("kind") == "DeclRefExpr":
                nm = _cu(st["inner"][0])["referencedDecl"].get("name")
                use(st, sub)
                kill(sub, {nm})
                if nm in ptr or nm in dbl:
                    if nm not in _c_refs(st["inner"][1]):
                        sub[nm] = st["inner"][1]
                    if nm in ptr:
                        continue
                out.append(st)
            elif k == "IfStmt":
                inner = st["inner"]
                w = {"inner": [inner[0]]}
                use(w, sub)
                new = [w["inner"][0]] + [_c_compound(block(_c_block(b), dict(sub)), st.get("line")) for b in inner[1:] if b.get("kind")]
                kill(sub, _c_assigned(st))
                out.append(dict(st, inner=new))
            elif k == "WhileStmt":
                kill(sub, _c_assigned(st))
                w = {"inner": [st["inner"][0]]}
                use(w, sub)
                out.append(dict(st, inner=[w["inner"][0], _c_compound(block(_c_block(st["inner"][1]), dict(sub)), st.get("line"))]))
            else:
                use(st, sub)
                kill(sub, _c_assigned(st))
                out.append(st)
        return out
    return block(stmts, {})


# ---- pointers into the arrays as (array, index) -----------------------------------------
# An element of an array argument can be addressed by index arithmetic (rev[k], *(T *) PyArray_GETPTR1(a, k)) or through a
# pointer that is derived from the array's buffer and stepped: `p = rev + k; *p++ = v`, `q = (char *) PyArray_DATA(a);
# q += stride` with stride = PyArray_STRIDE(a, 0), `*(T *) (base + k * stride)`.  Every pointer local is typed once as
# "points into array A, counted in elements | in strides of A" (all its definitions must agree) and replaced by an integer
# variable p__ix that holds the element number; dereferences become A[index], pointer comparisons become index
# comparisons, the stride variables disappear.  The lowering then sees the same index arithmetic whichever spelling the
# source uses.  Anything else (byte arithmetic that is not a multiple of the array's stride, a pointer that can point into
# two arrays, a pointer passed to a function) is refused.
_C_OBJ_TYPES = ("PyObject *", "PyArrayObject *", "const PyArrayObject *", "const PyObject *")
_C_BYTE_POINTEES = ("char", "void", "unsignedchar", "signedchar", "npy_uint8", "npy_int8", "npy_ubyte", "npy_byte", "uint8_t", "int8_t")
_CMP_OPS = ("<", "<=", ">", ">=", "==", "!=")


def _c_ref(name, ty="npy_int64", line=None):
    return {"kind": "DeclRefExpr", "type": {"qualType": ty}, "line": line, "referencedDecl": {"kind": "VarDecl", "name": name, "type": {"qualType": ty}}}


def _c_lit(v, line=None):
    return {"kind": "IntegerLiteral", "value": str(v), "type": {"qualType": "int"}, "line": line}


def _c_bin(op, a, b, line=None, ty="npy_int64"):
    return {"kind": "BinaryOperator", "opcode": op, "type": {"qualType": ty}, "line": line, "inner": [a, b]}


def _c_is_lit(n, v=None):
    u = _cu(n)
    return isinstance(u, dict) and u.get("kind") == "IntegerLiteral" and (v is None or str(u.get("value")) == str(v))


def _c_add(a, b, op="+", line=None):
    if _c_is_lit(b, 0):
        return a
    if op == "+" and _c_is_lit(a, 0):
        return b
    return _c_bin(op, a, b, line)


def _c_pointee(ty):
    t = (ty or "").replace("const", "").replace("volatile", "").replace("restrict", "").replace(" ", "")
    return t[:-1] if t.endswith("*") else None


def _c_name(n):
    u = _cu(n)
    return u.get("referencedDecl", {}).get("name") if isinstance(u, dict) and u.get("kind") == "DeclRefExpr" else None


def _c_is_null(n):
    u = n
    while isinstance(u, dict) and u.get("kind") in ("ImplicitCastExpr", "ParenExpr", "CStyleCastExpr", "ConstantExpr") and u.get("inner"):
        u = u["inner"][0]
    return isinstance(u, dict) and (u.get("kind") in ("GNUNullExpr", "CXXNullPtrLiteralExpr") or _c_is_lit(u, 0))


class _PV:
    """value of a pointer expression: into array `arr`; unit 'base' (the buffer itself), 'stride' (buffer + idx * stride of
    arr), 'elem' (typed pointer, buffer + idx elements); typed: a byte pointer seen through a cast to the element type"""
    __slots__ = ("arr", "unit", "idx", "typed")

    def __init__(self, arr, unit, idx, typed=False):
        self.arr, self.unit, self.idx, self.typed = arr, unit, idx, typed


class _CPtr:
    def __init__(self, stmts, objs):
        self.objs = set(objs)
        self.top = stmts
        whole = _c_compound(stmts)
        self.types = {x["name"]: x.get("type", {}).get("qualType", "") for x in cfront.walk(whole) if x.get("kind") == "VarDecl" and x.get("name")}
        # definitions of every local: name -> [rhs]   (declaration initialisers included)
        self.defs = {}
        self.decl_init = {}
        self.stepped = set()
        loops = [x for x in cfront.walk(whole) if x.get("kind") == "WhileStmt"]
        self.in_loop = set()
        for w in loops:
            self.in_loop |= _c_assigned(w["inner"][1])
        for x in cfront.walk(whole):
            k = x.get("kind")
            if k == "BinaryOperator" and x.get("opcode") == "=":
                nm = _c_name(x["inner"][0])
                if nm is not None and _cu(x["inner"][0]).get("kind") == "DeclRefExpr":
                    self.defs.setdefault(nm, []).append(x["inner"][1])
            elif k == "VarDecl" and x.get("name"):
                init = [c for c in x.get("inner", []) or [] if isinstance(c, dict) and c.get("kind")]
                if init:
                    self.defs.setdefault(x["name"], []).append(init[-1])
                    self.decl_init[x["name"]] = init[-1]
            elif k == "UnaryOperator" and x.get("opcode") in ("++", "--"):
                nm = _c_name(x["inner"][0])
                if nm is not None:
                    self.stepped.add(nm)
        # aliases of the array objects: X = (PyArrayObject *) obj
        self.alias = {}
        for nm, ds in self.defs.items():
            if self.types.get(nm) in _C_OBJ_TYPES and nm not in self.objs:
                src = {_c_name(cfront.strip(d)) for d in ds if not _c_is_null(d)}
                if len(src) == 1 and None not in src:
                    self.alias[nm] = src.pop()
        # stride variables: every definition is 0 or PyArray_STRIDE(A, 0) / PyArray_STRIDES(A)[0] of one array, outside loops
        # (a zero is accepted only as the declaration's initialiser; the assignments stand at the top of the function, or
        # directly under `if (PyArray_NDIM(A) > 0)`)
        self.stride = {}
        where = {}                          # name -> [(rhs, 'top' | array of the guarding NDIM test | None)]
        for st in stmts:
            if st.get("kind") == "BinaryOperator" and st.get("opcode") == "=" and _c_name(st["inner"][0]):
                where.setdefault(_c_name(st["inner"][0]), []).append((st["inner"][1], "top"))
            elif st.get("kind") == "IfStmt" and self.is_ndim_test(st["inner"][0]) and len([c for c in st["inner"] if isinstance(c, dict) and c.get("kind")]) == 2:
                a = self.root(_cu(_cu(st["inner"][0])["inner"][0])["inner"][1])
                for x in _c_block(st["inner"][1]):
                    if x.get("kind") == "BinaryOperator" and x.get("opcode") == "=" and _c_name(x["inner"][0]):
                        where.setdefault(_c_name(x["inner"][0]), []).append((x["inner"][1], a))
        for nm, ds in self.defs.items():
            if "*" in self.types.get(nm, "") or nm in self.in_loop or nm in self.stepped:
                continue
            inits = [d for d in ds if d is self.decl_init.get(nm)]
            if len(inits) + len(where.get(nm, [])) != len(ds):
                continue                     # assigned somewhere else as well
            arrs = {self.stride_of(d) for d in inits if not _c_is_lit(d, 0)}
            for rhs, ctx in where.get(nm, []):
                a = self.stride_of(rhs)
                arrs.add(a if ctx in ("top", a) else None)
            if len(arrs) == 1 and None not in arrs:
                self.stride[nm] = arrs.pop()
        # pointer locals
        self.ptrs = {nm for nm, t in self.types.items() if "*" in t and t not in _C_OBJ_TYPES and not t.replace(" ", "").endswith("**")}
        self.pvar = {}                      # name -> (array, unit, typed)
        self.simple = {}                    # name -> _PV with a literal index: defined once, outside loops, never stepped
        self.used = False
        for _ in range(6):
            changed = False
            for nm in sorted(self.ptrs):
                if nm in self.pvar or nm in self.simple:
                    continue
                ds = [d for d in self.defs.get(nm, []) if not _c_is_null(d)]
                if not ds:
                    continue
                # a definition in terms of the pointer itself (p = p + stride) is checked against the type the other
                # definitions give, when the statement is rewritten (define)
                selfref = [d for d in ds if nm in _c_refs(d)]
                ds = [d for d in ds if nm not in _c_refs(d)]
                if not ds:
                    continue
                vals = []
                try:
                    for d in ds:
                        vals.append(self.pval(d, probe=True))
                except NotImplementedError:
                    continue
                if any(v is None for v in vals):
                    continue
                vals = [self.coerce(v, nm) for v in vals]
                sig = {(v.arr, v.unit, v.typed) for v in vals}
                if len(sig) != 1:
                    raise NotImplementedError("pointer `%s` is derived from different arrays / in different units" % nm)
                if len(vals) == 1 and not selfref and nm not in self.in_loop and nm not in self.stepped and _c_is_lit(vals[0].idx, 0):
                    self.simple[nm] = vals[0]
                else:
                    self.pvar[nm] = sig.pop()
                changed = True
            if not changed:
                break

    # -- classification helpers ----------------------------------------------------
    def root(self, n):
        nm = _c_name(cfront.strip(n)) if isinstance(n, dict) else n
        seen = set()
        while nm in self.alias and nm not in seen:
            seen.add(nm)
            nm = self.alias[nm]
        return nm if nm in self.objs else None

    def stride_of(self, e):
        """the array whose first-axis stride the expression is, else None"""
        u = _cu(e)
        if not isinstance(u, dict):
            return None
        if u.get("kind") == "DeclRefExpr":
            return self.stride.get(u.get("referencedDecl", {}).get("name"))
        if u.get("kind") == "CStyleCastExpr" and _c_pointee(u.get("type", {}).get("qualType")) is None:
            return self.stride_of(u["inner"][0])
        if u.get("kind") == "CallExpr" and cfront.callee_name(u) == "PyArray_STRIDE" and len(u["inner"]) == 3 and _c_is_lit(u["inner"][2], 0):
            return self.root(u["inner"][1])
        if u.get("kind") == "ArraySubscriptExpr" and _c_is_lit(u["inner"][1], 0):
            b = _cu(u["inner"][0])
            if b.get("kind") == "CallExpr" and cfront.callee_name(b) == "PyArray_STRIDES" and len(b["inner"]) == 2:
                return self.root(b["inner"][1])
        return None

    def stride_mult(self, off, arr, probe):
        """m with off == m * stride(arr), else None"""
        if self.stride_of(off) == arr:
            return _c_lit(1, off.get("line"))
        u = _cu(off)
        if u.get("kind") == "BinaryOperator" and u.get("opcode") == "*":
            a, b = u["inner"]
            if self.stride_of(b) == arr:
                return self.rw(a) if not probe else a
            if self.stride_of(a) == arr:
                return self.rw(b) if not probe else b
        return None

    def coerce(self, v, var):
        """the value as stored in pointer variable `var`"""
        if v.unit == "base":
            byte = _c_pointee(self.types.get(var)) in _C_BYTE_POINTEES
            return _PV(v.arr, "stride" if byte else "elem", _c_lit(0), False)
        return v

    def pval(self, e, probe=False):
        """_PV of a pointer valued expression, None when the expression is not a pointer into one of the arrays"""
        if not isinstance(e, dict):
            return None
        k = e.get("kind")
        ln = e.get("line")
        if k in ("ImplicitCastExpr", "ParenExpr", "ConstantExpr") and e.get("inner"):
            return self.pval(e["inner"][0], probe)
        if k == "CStyleCastExpr":
            v = self.pval(e["inner"][0], probe)
            pt = _c_pointee(e.get("type", {}).get("qualType"))
            if v is None or pt is None:
                return None
            if pt in _C_BYTE_POINTEES:
                if v.unit == "elem" or v.typed:
                    raise NotImplementedError("element pointer into `%s` reinterpreted as bytes (line %s)" % (v.arr, ln))
                return v
            if v.unit == "base":
                return _PV(v.arr, "elem", _c_lit(0, ln))
            if v.unit == "stride":
                return _PV(v.arr, "stride", v.idx, True)
            return v
        if k == "CallExpr":
            if cfront.callee_name(e) in _C_DATA_FUNCS and len(e["inner"]) == 2:
                a = self.root(e["inner"][1])
                return _PV(a, "base", None) if a else None
            return None
        if k == "DeclRefExpr":
            nm = e.get("referencedDecl", {}).get("name")
            if nm in self.simple:
                v = self.simple[nm]
                return _PV(v.arr, v.unit, _c_lit(0, ln), v.typed)
            if nm in self.pvar:
                a, unit, typed = self.pvar[nm]
                return _PV(a, unit, _c_ref(nm + "__ix", line=ln), typed)
            return None
        if k == "BinaryOperator" and e.get("opcode") in ("+", "-"):
            l, r = self.pval(e["inner"][0], probe), self.pval(e["inner"][1], probe)
            if l is not None and r is None:
                p, off = l, e["inner"][1]
            elif r is not None and l is None and e["opcode"] == "+":
                p, off = r, e["inner"][0]
            else:
                return None
            if p.unit in ("base", "stride"):
                if p.typed:
                    raise NotImplementedError("element arithmetic on a strided pointer into `%s` (line %s)" % (p.arr, ln))
                m = self.stride_mult(off, p.arr, probe)
                if m is None:
                    raise NotImplementedError("byte arithmetic on `%s` that is not a multiple of its stride (line %s)" % (p.arr, ln))
                return _PV(p.arr, "stride", m if p.unit == "base" and e["opcode"] == "+" else _c_add(p.idx or _c_lit(0, ln), m, e["opcode"], ln))
            return _PV(p.arr, "elem", _c_add(p.idx, off if probe else self.rw(off), e["opcode"], ln))
        return None

    # -- rewriting -----------------------------------------------------------------
    def elem(self, v, line):
        self.used = True
        return {"kind": "ArraySubscriptExpr", "type": {"qualType": "npy_int64"}, "line": line,
                "inner": [_c_ref(v.arr, "PyObject *", line), v.idx if v.idx is not None else _c_lit(0, line)]}

    def rw(self, n, side=None):
        """copy of expression n with the pointer constructs rewritten; side: list receiving (name, +1/-1, 'pre'|'post') for
        ++ / -- applied to a pointer inside the expression (None: not allowed here)"""
        if not isinstance(n, dict) or not n.get("kind"):
            return n
        k, ln = n.get("kind"), n.get("line")
        if k == "UnaryOperator" and n.get("opcode") == "*":
            o = _cu(n["inner"][0])
            if o.get("kind") == "UnaryOperator" and o.get("opcode") in ("++", "--") and _c_name(o["inner"][0]) in self.pvar:
                nm = _c_name(o["inner"][0])
                a, unit, typed = self.pvar[nm]
                if unit != "elem" or side is None:
                    raise NotImplementedError("`%s%s` at line %s" % (nm, o["opcode"], ln))
                d = 1 if o["opcode"] == "++" else -1
                side.append((nm, d, "post" if o.get("isPostfix") else "pre"))
                return self.elem(_PV(a, unit, _c_ref(nm + "__ix", line=ln)), ln)
            v = self.pval(n["inner"][0])
            if v is not None:
                if v.unit == "base" or (v.unit == "stride" and not v.typed):
                    raise NotImplementedError("byte read from `%s` (line %s)" % (v.arr, ln))
                return self.elem(v, ln)
        if k == "ArraySubscriptExpr":
            b = _cu(n["inner"][0])
            if not (b.get("kind") == "DeclRefExpr" and b.get("referencedDecl", {}).get("name") in self.simple and self.simple[b["referencedDecl"]["name"]].unit == "elem"):
                v = self.pval(n["inner"][0])
                if v is not None:
                    if v.unit == "elem":
                        return self.elem(_PV(v.arr, "elem", _c_add(v.idx, self.rw(n["inner"][1]), "+", ln)), ln)
                    if v.unit == "stride" and v.typed and _c_is_lit(n["inner"][1], 0):
                        return self.elem(v, ln)
                    raise NotImplementedError("subscript of a byte pointer into `%s` (line %s)" % (v.arr, ln))
            else:
                return dict(n, inner=[n["inner"][0], self.rw(n["inner"][1], side)])
        if k == "BinaryOperator" and n.get("opcode") in _CMP_OPS + ("-",):
            l, r = self.pval(n["inner"][0]), self.pval(n["inner"][1])
            if l is not None and r is not None:
                if l.arr != r.arr or {l.unit, r.unit} - {"base"} not in ({"elem"}, {"stride"}, set()) or l.typed != r.typed:
                    raise NotImplementedError("pointers into different arrays compared (line %s)" % ln)
                self.used = True
                return _c_bin(n["opcode"], l.idx or _c_lit(0, ln), r.idx or _c_lit(0, ln), ln, "int" if n["opcode"] in _CMP_OPS else "npy_int64")
            if (l is None) != (r is None) and n.get("opcode") in _CMP_OPS:
                raise NotImplementedError("pointer compared with a non-pointer (line %s)" % ln)
        if k == "DeclRefExpr":
            nm = n.get("referencedDecl", {}).get("name")
            if nm in self.pvar or nm in self.stride or (nm in self.simple and self.simple[nm].unit != "elem"):
                raise NotImplementedError("`%s` used in a way that is not modelled (line %s)" % (nm, ln))
            return n
        if k == "UnaryOperator" and n.get("opcode") in ("++", "--") and _c_name(n["inner"][0]) in self.pvar:
            raise NotImplementedError("pointer step inside an expression (line %s)" % ln)
        if not n.get("inner"):
            return n
        return dict(n, inner=[self.rw(c, side) for c in n["inner"]])

    def set_ix(self, nm, idx, line):
        return {"kind": "BinaryOperator", "opcode": "=", "type": {"qualType": "npy_int64"}, "line": line, "inner": [_c_ref(nm + "__ix", line=line), idx]}

    def step(self, nm, d, line):
        self.used = True
        return self.set_ix(nm, _c_bin("+" if d > 0 else "-", _c_ref(nm + "__ix", line=line), _c_lit(1, line), line), line)

    def define(self, nm, rhs, line):
        if _c_is_null(rhs):
            return []
        v = self.pval(rhs)
        if v is None:
            raise NotImplementedError("definition of pointer `%s` at line %s" % (nm, line))
        v = self.coerce(v, nm)
        if (v.arr, v.unit, v.typed) != self.pvar[nm]:
            raise NotImplementedError("pointer `%s` is derived from different arrays / in different units" % nm)
        self.used = True
        return [self.set_ix(nm, v.idx, line)]

    def block(self, nodes):
        out = []
        for st in nodes:
            out.extend(self.stmt(st))
        return out

    def is_ndim_test(self, c):
        u = _cu(c)
        if u.get("kind") == "BinaryOperator" and u.get("opcode") in (">", ">=", "!="):
            a = _cu(u["inner"][0])
            return a.get("kind") == "CallExpr" and cfront.callee_name(a) == "PyArray_NDIM" and self.root(a["inner"][1]) is not None and _c_is_lit(u["inner"][1])
        return False

    def stmt(self, st):
        k, ln = st.get("kind"), st.get("line")
        if k == "DeclStmt":
            out = [st]
            for v in st.get("inner", []) or []:
                if v.get("kind") != "VarDecl":
                    continue
                init = [j for j, c in enumerate(v.get("inner", []) or []) if isinstance(c, dict) and c.get("kind")]
                if v.get("name") in self.pvar:
                    if init:
                        out.extend(self.define(v["name"], v["inner"][init[-1]], v.get("line", ln)))
                elif init and v.get("name") not in self.ptrs and v.get("name") not in self.stride and self.types.get(v.get("name")) not in _C_OBJ_TYPES:
                    # a scalar declared where it is first used: its initialiser is an expression like any other
                    v["inner"][init[-1]] = self.rw(v["inner"][init[-1]])
            return out
        if k == "BinaryOperator" and st.get("opcode") == "=":
            lhs = _cu(st["inner"][0])
            nm = _c_name(lhs) if lhs.get("kind") == "DeclRefExpr" else None
            if nm in self.pvar:
                return self.define(nm, st["inner"][1], ln)
            if nm in self.stride:
                return []
            if nm in self.simple and self.simple[nm].unit != "elem":
                return []                        # a byte pointer to the buffer: only ever used through its stride
            side = []
            new = dict(st, inner=[self.rw(st["inner"][0], side), self.rw(st["inner"][1], side)])
            return [self.step(n_, d, ln) for n_, d, w in side if w == "pre"] + [new] + [self.step(n_, d, ln) for n_, d, w in side if w == "post"]
        if k == "UnaryOperator" and st.get("opcode") in ("++", "--") and _c_name(st["inner"][0]) in self.pvar:
            nm = _c_name(st["inner"][0])
            if self.pvar[nm][1] != "elem":
                raise NotImplementedError("byte step of `%s` (line %s)" % (nm, ln))
            return [self.step(nm, 1 if st["opcode"] == "++" else -1, ln)]
        if k == "IfStmt":
            inner = st["inner"]
            acc = []
            sibling.find_calls(inner[0], "PyArg_ParseTuple", acc)
            if acc or st.get("hasInit") or st.get("hasVar"):
                return [st]
            arms = [_c_compound(self.block(_c_block(b)), ln) for b in inner[1:] if isinstance(b, dict) and b.get("kind")]
            if self.is_ndim_test(inner[0]) and not any(a["inner"] for a in arms):
                return []                        # only guarded the definition of a stride variable
            return [dict(st, inner=[self.rw(inner[0])] + arms)]
        if k == "WhileStmt":
            return [dict(st, inner=[self.rw(st["inner"][0]), _c_compound(self.block(_c_block(st["inner"][1])), ln)])]
        if k == "CompoundStmt":
            return self.block(st.get("inner", []) or [])
        if k in ("ReturnStmt", "NullStmt"):
            return [st]
        return [self.rw(st)]

    def run(self):
        if not self.pvar and not self.stride and not any(v.unit != "elem" for v in self.simple.values()):
            return self.top, False
        out = self.block(self.top)
        return out, self.used


def _c_guard_conjuncts(c):
    u = _cu(c)
    if u.get("kind") == "BinaryOperator" and u.get("opcode") == "&&":
        return _c_guard_conjuncts(u["inner"][0]) + _c_guard_conjuncts(u["inner"][1])
    return [cfront.render(u)]


def _c_reads(n, v, skip=()):
    """number of reads of scalar v inside n (the left side of a plain assignment is a write); nodes in `skip` are not entered"""
    if not isinstance(n, dict) or any(n is s_ for s_ in skip):
        return 0
    if n.get("kind") == "DeclRefExpr":
        return 1 if n.get("referencedDecl", {}).get("name") == v else 0
    kids = n.get("inner", []) or []
    if n.get("kind") == "BinaryOperator" and n.get("opcode") == "=" and _cu(kids[0]).get("kind") == "DeclRefExpr":
        kids = kids[1:]
    return sum(_c_reads(c, v, skip) for c in kids)


def _c_unguarded_reads(nodes, v, g, skip, under=False):
    """reads of v in the statements that are not inside the then-arm of an `if` whose condition has g among its conjuncts"""
    n = 0
    for st in nodes:
        if any(st is s_ for s_ in skip):
            continue
        k = st.get("kind")
        if k == "IfStmt":
            inner = st["inner"]
            if not under:
                n += _c_reads(inner[0], v)
            has = under or g in _c_guard_conjuncts(inner[0])
            n += _c_unguarded_reads(_c_block(inner[1]), v, g, skip, has)
            if len(inner) > 2:
                n += _c_unguarded_reads(_c_block(inner[2]), v, g, skip, under)
        elif k == "WhileStmt":
            if not under:
                n += _c_reads(st["inner"][0], v)
            n += _c_unguarded_reads(_c_block(st["inner"][1]), v, g, skip, under)
        elif k == "CompoundStmt":
            n += _c_unguarded_reads(_c_block(st), v, g, skip, under)
        elif not under:
            n += _c_reads(st, v)
    return n


def _c_hoist_counters(stmts):
    """`if (g) { ...; v = v + c; }` at the top of a loop body, g invariant, v read nowhere but under g and not after the
    increment in the same iteration: the increment is moved to the end of the loop body (unconditional).  Where g holds the
    loop does what it did; where it does not, v is never read.  The counter is then an affine function of the loop counter."""
    def counts(n, v):
        return sum(1 for x in cfront.walk(n) if ((x.get("kind") == "BinaryOperator" and x.get("opcode") == "=") or x.get("kind") == "CompoundAssignOperator" or
                                                 (x.get("kind") == "UnaryOperator" and x.get("opcode") in ("++", "--"))) and _c_name(x["inner"][0]) == v and _cu(x["inner"][0]).get("kind") == "DeclRefExpr")

    def visit(nodes, ti):
        for pos, st in enumerate(nodes):
            t = pos if ti is None else ti
            k = st.get("kind")
            if k == "IfStmt":
                for b in st["inner"][1:]:
                    if isinstance(b, dict) and b.get("kind") == "CompoundStmt":
                        visit(b["inner"], t)
            elif k == "WhileStmt":
                body = st["inner"][1]["inner"]
                visit(body, t)
                for bi, s in enumerate(list(body)):
                    if s.get("kind") != "IfStmt" or len([c for c in s["inner"] if isinstance(c, dict) and c.get("kind")]) != 2:
                        continue
                    conj = _c_guard_conjuncts(s["inner"][0])
                    if len(conj) != 1 or any(x.get("kind") in ("CallExpr", "ArraySubscriptExpr", "UnaryOperator") and x.get("opcode") != "!" for x in cfront.walk(s["inner"][0])):
                        continue
                    g = conj[0]
                    later = set()
                    for x in stmts[t:]:
                        later |= _c_assigned(x)
                    if _c_refs(s["inner"][0]) & later:
                        continue
                    arm = s["inner"][1]["inner"]
                    for ai, a in enumerate(list(arm)):
                        if not (a.get("kind") == "BinaryOperator" and a.get("opcode") == "=" and _cu(a["inner"][0]).get("kind") == "DeclRefExpr"):
                            continue
                        v = _c_name(a["inner"][0])
                        r = _cu(a["inner"][1])
                        if not (r.get("kind") == "BinaryOperator" and r.get("opcode") in ("+", "-") and _c_name(r["inner"][0]) == v and _cu(r["inner"][0]).get("kind") == "DeclRefExpr" and _c_is_lit(r["inner"][1])):
                            continue
                        if counts(st, v) != 1:
                            continue
                        if any(_c_reads(x, v) for x in arm[ai + 1:]) or any(_c_reads(x, v) for x in body[bi + 1:]):
                            continue
                        if _c_unguarded_reads(stmts, v, g, skip=(a,)):
                            continue
                        arm.remove(a)
                        body.append(a)
    visit(stmts, None)
    return stmts


_c_helper_cache = {}
ASSUMED = []
REJECTIONS = []
BUFFERED = []          # (line, statement, array, index text, conversion) of buffered many-to-one updates met by the Python desugaring


def _c_helper_loader(tu):
    """name -> definition of a function of the same source file that is not part of the filtered dump of `tu`"""
    def load(name):
        key = (tu, name)
        if key not in _c_helper_cache:
            d = None
            try:
                spec = dict(cfront.TUS[tu], filt=name)
                spec.pop("own_only", None)
                cfront.TUS.setdefault("%s.%s" % (tu, name), spec)
                d = cfront.functions(cfront.load_tu("%s.%s" % (tu, name))).get(name)
            except AnalysisError:
                d = None
            _c_helper_cache[key] = d
        return _c_helper_cache[key]
    return load


def _c_pointer_model(d, tu):
    """(statements of the function after the statement level desugaring, pointer typing of its locals); d is modified"""
    body = cfront.body_of(d)
    prep = _CPrep(_c_helper_loader(tu))
    stmts = prep.stmts(body.get("inner", []) or [], top=True)
    del REJECTIONS[:]
    REJECTIONS.extend(prep.rejections)
    try:
        objs = [n for n in sibling.c_roles(d)]
    except AnalysisError:
        objs = []
    return stmts, _CPtr(stmts, objs)


def c_pointer_model(decl, tu="chist"):
    """the same on a copy; None when the function uses a construct the desugaring does not know"""
    try:
        return _c_pointer_model(copy.deepcopy(decl), tu)
    except NotImplementedError:
        return None


def c_prepare(decl, tu="chist"):
    """copy of the C function with the constructs listed above rewritten for the sibling lowering"""
    d = copy.deepcopy(decl)
    body = cfront.body_of(d)
    stmts, cp = _c_pointer_model(d, tu)
    if REJECTIONS:
        ASSUMED.append("the argument checks of the C engine (it raises when %s) do not fire for the arrays the wrapper hands to it; the engines are compared on the calls "
                       "the C engine accepts" % "; ".join("`%s` at line %s" % (c, l) for l, c in REJECTIONS))
    stmts, used = cp.run()
    if used:
        stmts = _c_hoist_counters(stmts)
        if cp.stride:
            ASSUMED.append("the arrays handed to the C engine have at least one dimension (the stride variables %s stand for the first-axis stride)" % ", ".join(sorted(cp.stride)))
    stmts = _c_forward(stmts, _c_compound(stmts))
    body["inner"] = stmts
    return d


# =============================================================================
# Python engine: desugaring of the function body before the sibling lowering
# =============================================================================
# The lowering knows name / item assignments (scalar slice fills with both bounds included), augmented assignments, if and
# while over + - * / comparisons, and / or, item reads, .size and np.int64().  Rewritten into those, on a copy:
#   for i in range(..) / for x in a / for k, x in enumerate(a, start)      ->  counters + while
#   if c: continue                                                          ->  if not c: <rest of the body>   (negation pushed inwards)
#   if c: ...; return   followed by more code                              ->  if c: ... else: <more code>
#   helper(...) statements and helper(...) expressions of the same module   ->  inlined (locals prefixed, parameters substituted)
#   a[lo:hi] = <array>, a[lo:] = v                                          ->  element loop / explicit upper bound
#   vectorised counting: b = ((data[s] - lo) / w).astype(np.int64); (k,) = np.where(mask); hist += np.bincount(b[k], minlength=n)
#   (also b[mask], np.add.at(hist, b, 1))                                   ->  element loop  `if mask_i: hist[b_i] += 1`
#   len(a)                                                                   ->  a.size

def _n(s):
    return ast.parse(s, mode="eval").body


def _name(id_):
    return ast.Name(id=id_, ctx=ast.Load())


_PURE_CALLS = ("int", "float", "len", "abs", "np.int64", "numpy.int64", "np.float64", "numpy.float64", "np.intp", "numpy.intp")


def _effect_free(e):
    """evaluating e twice is evaluating it once: names, constants, attributes, subscripts, arithmetic, scalar conversions"""
    for x in ast.walk(e):
        if isinstance(x, ast.Call):
            if dotted_name(x.func) not in _PURE_CALLS or x.keywords or any(isinstance(a, ast.Starred) for a in x.args):
                return False
        elif isinstance(x, (ast.NamedExpr, ast.Await, ast.Yield, ast.YieldFrom, ast.Lambda, ast.ListComp, ast.SetComp, ast.DictComp, ast.GeneratorExp)):
            return False
    return True


def _unchain(t):
    """a chained comparison `a o1 b o2 c ...` as the conjunction `a o1 b and b o2 c and ...` (same short circuit; the inner
    operands are evaluated once in the chain and up to twice in the conjunction, so they must be free of effects)"""
    if not isinstance(t, ast.Compare) or len(t.ops) < 2:
        return t
    xs = [t.left] + list(t.comparators)
    if not all(_effect_free(x) for x in xs[1:-1]):
        return t
    return ast.BoolOp(op=ast.And(), values=[ast.Compare(left=copy.deepcopy(xs[k]), ops=[copy.deepcopy(t.ops[k])], comparators=[copy.deepcopy(xs[k + 1])])
                                            for k in range(len(t.ops))])


def _py_neg(t):
    t = _unchain(t)
    if isinstance(t, ast.BoolOp):
        return ast.BoolOp(op=ast.And() if isinstance(t.op, ast.Or) else ast.Or(), values=[_py_neg(v) for v in t.values])
    if isinstance(t, ast.UnaryOp) and isinstance(t.op, ast.Not):
        return copy.deepcopy(t.operand)
    if isinstance(t, ast.Compare) and len(t.ops) == 1:
        flip = {ast.Lt: ast.GtE, ast.GtE: ast.Lt, ast.Gt: ast.LtE, ast.LtE: ast.Gt, ast.Eq: ast.NotEq, ast.NotEq: ast.Eq, ast.Is: ast.IsNot, ast.IsNot: ast.Is}
        if type(t.ops[0]) in flip:
            return ast.Compare(left=copy.deepcopy(t.left), ops=[flip[type(t.ops[0])]()], comparators=copy.deepcopy(t.comparators))
    raise NotImplementedError("cannot negate the test `%s`" % norm(t))


class _Vec:
    """an array value known element by element: position i in [0, length) holds elem(i); with a guard only the positions
    where guard(i) holds are present (order kept)"""

    def __init__(self, length, elem, guard=None, mask=False):
        self.length, self.elem, self.guard, self.mask = length, elem, guard, mask


class _Rename(ast.NodeTransformer):
    def __init__(self, names, subst):
        self.names, self.subst = names, subst

    def visit_Name(self, n):
        if n.id in self.subst:
            return copy.deepcopy(self.subst[n.id])
        if n.id in self.names:
            return ast.Name(id=self.names[n.id], ctx=n.ctx)
        return n


class _PyPrep:
    def __init__(self, repo, fi):
        self.repo, self.fi = repo, fi
        self.k = 0
        self.vec = {}
        self.depth = 0
        fn = fi.node
        used = set()
        for x in ast.walk(fn):
            if isinstance(x, ast.Subscript) and isinstance(x.value, ast.Name):
                used.add(x.value.id)
            elif isinstance(x, ast.Attribute) and x.attr == "size" and isinstance(x.value, ast.Name):
                used.add(x.value.id)
            elif isinstance(x, ast.For):
                for y in ast.walk(x.iter):
                    if isinstance(y, ast.Name):
                        used.add(y.id)
        self.arrays = used & set(fi.params)

    def fresh(self, p):
        self.k += 1
        return "__%s%d" % (p, self.k)

    def run(self):
        fn = copy.deepcopy(self.fi.node)
        fn.body = self.block(fn.body, False, True)
        return ast.fix_missing_locations(fn)

    # -- statement lists --------------------------------------------------------
    def block(self, stmts, in_loop, top):
        out = []
        stmts = [s for s in stmts if not (isinstance(s, ast.Expr) and isinstance(s.value, ast.Constant)) and not isinstance(s, ast.Pass)]
        for i, st in enumerate(stmts):
            rest = stmts[i + 1:]
            if isinstance(st, ast.If) and not st.orelse and st.body and isinstance(st.body[-1], ast.Continue) and in_loop:
                if len(st.body) != 1:
                    raise NotImplementedError("statements before continue")
                out.append(ast.If(test=self.expr(_py_neg(st.test)), body=self.block(rest, in_loop, top), orelse=[]))
                return out
            if isinstance(st, ast.If) and top and not st.orelse and st.body and _bare_return(st.body[-1]) and rest:
                out.append(_swap_not(ast.If(test=self.expr(st.test), body=self.block(st.body[:-1], in_loop, False), orelse=self.block(rest, in_loop, True))))
                return out
            if _bare_return(st) and top and not in_loop:
                return out                       # the rest is dead code
            out.extend(self.stmt(st, in_loop, rest))
        return out

    # -- expressions ------------------------------------------------------------
    def expr(self, e):
        """len(a) -> a.size; calls to expression helpers of the module are expanded"""
        prep = self

        class T(ast.NodeTransformer):
            def visit_Call(self, c):
                self.generic_visit(c)
                if isinstance(c.func, ast.Name) and c.func.id == "len" and len(c.args) == 1 and not c.keywords:
                    return self.visit(ast.Attribute(value=c.args[0], attr="size", ctx=ast.Load()))
                x = prep.expr_helper(c)
                return x if x is not None else c

            # an array known element by element (its assignment was not emitted) read in a scalar context
            def visit_Subscript(self, n):
                if isinstance(n.value, ast.Name) and n.value.id in prep.vec and not isinstance(n.slice, (ast.Slice, ast.Tuple)) and prep.vexpr(n.slice) is None:
                    v = prep.vec[n.value.id]
                    if v.guard is not None:
                        raise NotImplementedError("element of the filtered array `%s`" % n.value.id)
                    return v.elem(self.visit(n.slice))
                return self.generic_visit(n)

            def visit_Attribute(self, n):
                if n.attr == "size" and isinstance(n.value, ast.Name) and n.value.id in prep.vec:
                    if prep.vec[n.value.id].guard is not None:
                        raise NotImplementedError("size of the filtered array `%s`" % n.value.id)
                    return copy.deepcopy(prep.vec[n.value.id].length)
                return self.generic_visit(n)

            def visit_Name(self, n):
                if isinstance(n.ctx, ast.Load) and n.id in prep.vec:
                    raise NotImplementedError("array `%s` used as a whole" % n.id)
                return n

            # `a <= b < c` is `a <= b and b < c` with b evaluated once: the same when evaluating b has no effect
            def visit_Compare(self, n):
                self.generic_visit(n)
                return _unchain(n)

            # `not (a < b)` -> `a >= b`, `not (p and q)` -> `not p or not q`, `not not p` -> p (scalars of finite data:
            # the same reading of a negated comparison as the else arm of a test gets); a negated flag is left as it is
            def visit_UnaryOp(self, n):
                self.generic_visit(n)
                if isinstance(n.op, ast.Not):
                    try:
                        return _py_neg(n.operand)
                    except NotImplementedError:
                        return n
                return n
        return T().visit(copy.deepcopy(e))

    def helper(self, call):
        if isinstance(call, ast.Call) and isinstance(call.func, ast.Name):
            g = self.repo.funcs.get("%s.%s" % (self.fi.module.name, call.func.id))
            if g is not None and g.cls is None and g.node is not self.fi.node:
                return g
        return None

    def bind(self, g, call):
        if any(isinstance(a, ast.Starred) for a in call.args) or any(k.arg is None for k in call.keywords) or any(p.startswith("*") for p in g.params):
            raise NotImplementedError("call of %s with star arguments" % g.name)
        b = dict(zip(g.params, [self.expr(a) for a in call.args]))
        for k in call.keywords:
            b[k.arg] = self.expr(k.value)
        for p in g.params:
            if p not in b:
                if p not in g.defaults:
                    raise NotImplementedError("argument %s of %s missing" % (p, g.name))
                b[p] = copy.deepcopy(g.defaults[p])
        assigned = {t.id for t in ast.walk(g.node) if isinstance(t, ast.Name) and isinstance(t.ctx, ast.Store)}
        # `a += <array>` on an array parameter updates the caller's array in place: not a rebinding
        inplace = {x.target.id for x in ast.walk(g.node) if isinstance(x, ast.AugAssign) and isinstance(x.target, ast.Name)
                   and isinstance(b.get(x.target.id), ast.Name) and b[x.target.id].id in self.arrays}
        rebound = {t.id for x in ast.walk(g.node) if not isinstance(x, ast.AugAssign) for t in ast.iter_child_nodes(x) if isinstance(t, ast.Name) and isinstance(t.ctx, ast.Store)}
        rebound |= {t.id for x in ast.walk(g.node) if isinstance(x, (ast.Tuple, ast.List)) and isinstance(getattr(x, "ctx", None), ast.Store) for t in ast.walk(x) if isinstance(t, ast.Name)}
        if (assigned - (inplace - rebound)) & set(g.params):
            raise NotImplementedError("helper %s assigns its parameters" % g.name)
        assigned -= set(g.params)
        return b, {v: "%s__%s" % (g.name, v) for v in assigned}

    def expr_helper(self, call):
        g = self.helper(call)
        if g is None:
            return None
        body = [s for s in g.node.body if not (isinstance(s, ast.Expr) and isinstance(s.value, ast.Constant))]
        if not body or not isinstance(body[-1], ast.Return) or body[-1].value is None:
            return None
        if not all(isinstance(s, ast.Assign) and len(s.targets) == 1 and isinstance(s.targets[0], ast.Name) for s in body[:-1]):
            return None
        sd = rules.single_defs(g.node)
        if any(s.targets[0].id not in sd for s in body[:-1]):
            return None
        b, _ = self.bind(g, call)
        return self.expr(_Rename({}, b).visit(rules.expand(body[-1].value, g.node)))

    # -- element-wise view of array expressions ------------------------------------
    def vexpr(self, e):
        if isinstance(e, ast.Name):
            if e.id in self.vec:
                return self.vec[e.id]
            if e.id in self.arrays:
                return _Vec(ast.Attribute(value=_name(e.id), attr="size", ctx=ast.Load()), lambda i, a=e.id: ast.Subscript(value=_name(a), slice=i, ctx=ast.Load()))
            return None
        if isinstance(e, ast.Subscript):
            if isinstance(e.slice, ast.Constant) and e.slice.value == 0 and isinstance(e.value, ast.Call) and call_name(e.value) in ("where", "nonzero") and len(e.value.args) == 1:
                return self.selection(e.value)
            if isinstance(e.slice, (ast.Slice, ast.Tuple)):
                return None
            idx = self.vexpr(e.slice)
            if idx is None:
                return None
            base = self.vexpr(e.value)
            if base is None:
                raise NotImplementedError("array index into `%s`" % norm(e.value))
            if idx.mask:
                return _Vec(base.length, base.elem, _and(base.guard, idx.elem), base.mask)
            if base.guard is not None:
                raise NotImplementedError("index into a filtered array")
            return _Vec(idx.length, lambda i, b=base, x=idx: b.elem(x.elem(i)), idx.guard, base.mask)
        if isinstance(e, ast.BinOp) and isinstance(e.op, (ast.Add, ast.Sub, ast.Mult, ast.Div, ast.BitAnd)):
            l, r = self.vexpr(e.left), self.vexpr(e.right)
            if l is None and r is None:
                return None
            v = l or r
            if any(x is not None and x.guard is not None for x in (l, r)):
                raise NotImplementedError("arithmetic on a filtered array")
            le = l.elem if l is not None else (lambda i, x=e.left: copy.deepcopy(x))
            re_ = r.elem if r is not None else (lambda i, x=e.right: copy.deepcopy(x))
            if isinstance(e.op, ast.BitAnd):
                if not ((l is None or l.mask) and (r is None or r.mask)):
                    raise NotImplementedError("& of non-boolean arrays")
                return _Vec(v.length, lambda i: ast.BoolOp(op=ast.And(), values=[le(i), re_(i)]), None, True)
            return _Vec(v.length, lambda i, op=e.op: ast.BinOp(left=le(i), op=op, right=re_(i)))
        if isinstance(e, ast.Compare) and len(e.ops) == 1:
            if isinstance(e.ops[0], (ast.Is, ast.IsNot, ast.In, ast.NotIn)):
                return None                       # identity / membership tests give one truth value, not a mask
            l, r = self.vexpr(e.left), self.vexpr(e.comparators[0])
            if l is None and r is None:
                return None
            v = l or r
            if any(x is not None and x.guard is not None for x in (l, r)):
                raise NotImplementedError("comparison of a filtered array")
            le = l.elem if l is not None else (lambda i, x=e.left: copy.deepcopy(x))
            re_ = r.elem if r is not None else (lambda i, x=e.comparators[0]: copy.deepcopy(x))
            return _Vec(v.length, lambda i, op=e.ops[0]: ast.Compare(left=le(i), ops=[op], comparators=[re_(i)]), None, True)
        if isinstance(e, ast.Call):
            f = e.func
            if isinstance(f, ast.Name) and f.id == "len":
                return None
            if isinstance(f, ast.Attribute) and f.attr == "astype" and len(e.args) == 1:
                v = self.vexpr(f.value)
                if v is None:
                    return None
                t = norm(e.args[0])
                if t in INT64 or t == "int":
                    return _Vec(v.length, lambda i, v=v: ast.Call(func=_n("np.int64"), args=[v.elem(i)], keywords=[]), v.guard)
                if t in FLOAT64:
                    return v
                raise NotImplementedError("astype(%s)" % t)
            if call_name(e) == "logical_and" and len(e.args) == 2:
                return self.vexpr(ast.BinOp(left=e.args[0], op=ast.BitAnd(), right=e.args[1]))
            if call_name(e) == "flatnonzero" and len(e.args) == 1:
                return self.selection(e)
            if any(self.vexpr(a) is not None for a in e.args if not isinstance(a, ast.Starred)) and dotted_name(f) not in ("np.int64", "int", "numpy.int64"):
                raise NotImplementedError("array call `%s`" % norm(e)[:60])
        return None

    def selection(self, call):
        m = self.vexpr(call.args[0])
        if m is None or not m.mask or m.guard is not None:
            raise NotImplementedError("np.where of `%s`" % norm(call.args[0])[:60])
        return _Vec(m.length, lambda i: i, m.elem)

    def loop(self, length, body_of):
        i = self.fresh("v")
        return [ast.Assign(targets=[ast.Name(id=i, ctx=ast.Store())], value=ast.Constant(value=0)),
                ast.While(test=ast.Compare(left=_name(i), ops=[ast.Lt()], comparators=[copy.deepcopy(length)]),
                          body=body_of(_name(i)) + [ast.AugAssign(target=ast.Name(id=i, ctx=ast.Store()), op=ast.Add(), value=ast.Constant(value=1))], orelse=[])]

    def buffered_update(self, st, target, op, value):
        """`a[<index array>] op= v` (also spelled `a[ix] = a[ix] op v`).  numpy gathers a[ix], applies the operation to the gathered
        copy and scatters the result back: a position named k times by the index array is updated ONCE, not k times (unlike
        np.add.at / np.bincount).  When the elements of the index array are pairwise different (positions selected by a mask,
        np.where of a mask) this is the element loop `for i: a[ix[i]] op= v`.  When they are a many-to-one function of the data
        (an integer conversion of a value computed from a datum: a bin number -- equal data give equal elements, and the
        property quantifies over data with ties) the update is applied once per distinct element instead of once per datum:
        recorded in BUFFERED (reported by engines() as R05.2 engine::py::tally-adds-once-per-datum); the statement is then read
        as the element loop it stands in for, so that the other rules still see an engine.  Anything else: no verdict."""
        iv = self.vexpr(target.slice)
        if iv.mask:
            if iv.guard is not None:
                raise NotImplementedError("filtered mask as an index")
            iv = _Vec(iv.length, lambda i: i, iv.elem)
        if not isinstance(target.value, ast.Name) or self.vexpr(value) is not None:
            raise NotImplementedError("array-indexed update `%s`" % norm(st)[:80])
        q = _name("__q")
        el = iv.elem(q)
        distinct = isinstance(el, ast.Name) and el.id == "__q"
        if not distinct:
            conv = [c for c in ast.walk(el) if isinstance(c, ast.Call) and dotted_name(c.func) in ("np.int64", "numpy.int64", "int", "np.intp", "numpy.intp", "np.floor", "numpy.floor", "math.floor")
                    and any(isinstance(x, ast.Subscript) and isinstance(x.value, ast.Name) and x.value.id in self.arrays for a in c.args for x in ast.walk(a))]
            if not conv:
                raise NotImplementedError("update through the index array `%s` whose elements are not known to be pairwise different" % norm(target.slice)[:60])
            BUFFERED.append((getattr(st, "lineno", None), norm(st)[:120], target.value.id, norm(target.slice)[:60], norm(conv[0])[:80]))

        def body(i):
            inc = ast.AugAssign(target=ast.Subscript(value=_name(target.value.id), slice=self.expr(iv.elem(i)), ctx=ast.Store()), op=op, value=self.expr(value))
            ast.copy_location(inc, st)
            return [ast.If(test=self.expr(iv.guard(i)), body=[inc], orelse=[])] if iv.guard is not None else [inc]
        return self.loop(iv.length, body)

    def array_index(self, t):
        """the element-wise view of the subscript of a store target, when that subscript is an array (else None)"""
        if isinstance(t, ast.Subscript) and not isinstance(t.slice, (ast.Slice, ast.Tuple)):
            return self.vexpr(t.slice)
        return None

    def scatter_add(self, target, idx):
        """target[idx_i] += 1 for every (present) element of the index array"""
        v = self.vexpr(idx)
        if v is None or v.mask or not isinstance(target, ast.Name):
            raise NotImplementedError("counting into `%s`" % norm(target))

        def body(i):
            inc = ast.AugAssign(target=ast.Subscript(value=_name(target.id), slice=v.elem(i), ctx=ast.Store()), op=ast.Add(), value=ast.Constant(value=1))
            return [ast.If(test=v.guard(i), body=[inc], orelse=[])] if v.guard is not None else [inc]
        return self.loop(v.length, body)

    # -- single statements --------------------------------------------------------
    def stmt(self, st, in_loop, rest):
        if isinstance(st, ast.Expr):
            c = st.value
            g = self.helper(c)
            if g is not None:
                return self.inline(g, c)
            if isinstance(c, ast.Call) and dotted_name(c.func) in ("np.add.at", "numpy.add.at") and len(c.args) == 3 and const_value(c.args[2]) == 1:
                return self.scatter_add(c.args[0], c.args[1])
            return [st]
        if isinstance(st, ast.Assign) and len(st.targets) == 1 and isinstance(st.value, ast.IfExp) and isinstance(st.targets[0], (ast.Name, ast.Subscript)):
            # `x = a if c else b`  ->  `if c: x = a` / `else: x = b`
            arm = lambda v: ast.Assign(targets=[copy.deepcopy(st.targets[0])], value=v)
            return self.stmt(ast.If(test=st.value.test, body=[arm(st.value.body)], orelse=[arm(st.value.orelse)]), in_loop, rest)
        if isinstance(st, ast.Assign) and len(st.targets) == 1:
            t, v = st.targets[0], st.value
            if isinstance(t, (ast.Tuple, ast.List)) and len(t.elts) == 1 and isinstance(t.elts[0], ast.Name) and isinstance(v, ast.Call) and call_name(v) in ("where", "nonzero") and len(v.args) == 1:
                self.vec[t.elts[0].id] = self.selection(v)
                return []
            if isinstance(t, ast.Name):
                vv = self.vexpr(v)
                if vv is not None:
                    self.vec[t.id] = vv
                    return []
                self.vec.pop(t.id, None)
                return [ast.Assign(targets=[t], value=self.expr(v))]
            if isinstance(t, ast.Subscript) and isinstance(t.slice, ast.Slice) and t.slice.step is None and isinstance(t.value, ast.Name):
                lo = self.expr(t.slice.lower) if t.slice.lower is not None else ast.Constant(value=0)
                vv = self.vexpr(v)
                if vv is not None:
                    if vv.guard is not None or vv.mask:
                        raise NotImplementedError("slice store of a filtered array")
                    return self.loop(vv.length, lambda i: [ast.Assign(targets=[ast.Subscript(value=_name(t.value.id), slice=ast.BinOp(left=copy.deepcopy(lo), op=ast.Add(), right=i), ctx=ast.Store())], value=self.expr(vv.elem(i)))])
                hi = self.expr(t.slice.upper) if t.slice.upper is not None else ast.Attribute(value=_name(t.value.id), attr="size", ctx=ast.Load())
                return [ast.Assign(targets=[ast.Subscript(value=t.value, slice=ast.Slice(lower=lo, upper=hi, step=None), ctx=ast.Store())], value=self.expr(v))]
            if self.array_index(t) is not None:
                # `a[ix] = a[ix] op v` with an index array: the gather / operate / scatter of `a[ix] op= v`
                if isinstance(v, ast.BinOp) and norm(v.left) == norm(t):
                    return self.buffered_update(st, t, v.op, v.right)
                if isinstance(v, ast.BinOp) and isinstance(v.op, (ast.Add, ast.Mult)) and norm(v.right) == norm(t):
                    return self.buffered_update(st, t, v.op, v.left)
                raise NotImplementedError("store through the index array `%s`" % norm(t.slice)[:60])
            if isinstance(t, ast.Subscript):
                return [ast.Assign(targets=[ast.Subscript(value=t.value, slice=self.expr(t.slice), ctx=ast.Store())], value=self.expr(v))]
            return [st]
        if isinstance(st, ast.AugAssign):
            v = st.value
            if self.array_index(st.target) is not None:
                return self.buffered_update(st, st.target, st.op, v)
            if isinstance(st.op, ast.Add) and isinstance(v, ast.Call) and call_name(v) == "bincount" and v.args and kwarg(v, "weights") is None and len(v.args) == 1:
                tg = st.target
                if isinstance(tg, ast.Subscript) and isinstance(tg.slice, ast.Slice) and tg.slice.lower is None and tg.slice.upper is None and tg.slice.step is None:
                    tg = tg.value
                return self.scatter_add(tg, v.args[0])
            if isinstance(st.target, ast.Subscript):
                return [ast.AugAssign(target=ast.Subscript(value=st.target.value, slice=self.expr(st.target.slice), ctx=ast.Store()), op=st.op, value=self.expr(v))]
            return [ast.AugAssign(target=st.target, op=st.op, value=self.expr(v))]
        if isinstance(st, ast.If):
            # (a `continue` in a nested arm skips more than the rest of that arm: it is left in place and refused by the lowering)
            return [_swap_not(ast.If(test=self.expr(st.test), body=self.block(st.body, False, False), orelse=self.block(st.orelse, False, False)))]
        if isinstance(st, ast.While):
            if st.orelse:
                raise NotImplementedError("while/else")
            return [ast.While(test=self.expr(st.test), body=self.block(st.body, True, False), orelse=[])]
        if isinstance(st, ast.For):
            return self.for_(st, rest)
        return [st]

    def for_(self, st, rest):
        """hidden counter + while; the loop variables are assigned at the head of every iteration, so they hold what they
        hold in Python inside and after the loop (position + start, element)"""
        if st.orelse:
            raise NotImplementedError("for/else")
        it, tg = st.iter, st.target
        i = self.fresh("i")
        pre = [ast.Assign(targets=[ast.Name(id=i, ctx=ast.Store())], value=ast.Constant(value=0))]
        inc = [ast.AugAssign(target=ast.Name(id=i, ctx=ast.Store()), op=ast.Add(), value=ast.Constant(value=1))]
        head = []

        def setv(target, value):
            if not isinstance(target, ast.Name):
                raise NotImplementedError("for target `%s`" % norm(target))
            head.append(ast.Assign(targets=[ast.Name(id=target.id, ctx=ast.Store())], value=value))

        def over(seq, target):
            v = self.vexpr(seq)
            if v is None or v.guard is not None:
                raise NotImplementedError("for over `%s`" % norm(seq)[:60])
            setv(target, self.expr(v.elem(_name(i))))
            return ast.Compare(left=_name(i), ops=[ast.Lt()], comparators=[copy.deepcopy(v.length)])
        if isinstance(it, ast.Call) and isinstance(it.func, ast.Name) and it.func.id == "range" and 1 <= len(it.args) <= 2 and not it.keywords:
            lo, hi = (ast.Constant(value=0), it.args[0]) if len(it.args) == 1 else it.args
            pos = ast.BinOp(left=self.expr(lo), op=ast.Add(), right=_name(i))
            setv(tg, pos)
            cond = ast.Compare(left=copy.deepcopy(pos), ops=[ast.Lt()], comparators=[self.expr(hi)])
        elif isinstance(it, ast.Call) and isinstance(it.func, ast.Name) and it.func.id == "enumerate" and isinstance(tg, ast.Tuple) and len(tg.elts) == 2 and 1 <= len(it.args) <= 2:
            start = it.args[1] if len(it.args) == 2 else (kwarg(it, "start") or ast.Constant(value=0))
            cond = over(it.args[0], tg.elts[1])
            setv(tg.elts[0], ast.BinOp(left=self.expr(start), op=ast.Add(), right=_name(i)))
        else:
            cond = over(it, tg)
        return pre + [ast.While(test=cond, body=head + self.block(st.body, True, False) + inc, orelse=[])]

    def inline(self, g, call):
        if self.depth > 3:
            raise NotImplementedError("helpers nested too deeply at %s" % g.name)
        if any(isinstance(x, (ast.Yield, ast.YieldFrom, ast.Try, ast.With)) for x in walk_no_nested(g.node)):
            raise NotImplementedError("helper %s is not plain code" % g.name)
        b, loc = self.bind(g, call)
        body = [_Rename(loc, b).visit(copy.deepcopy(s)) for s in g.node.body]
        for x in body:
            for y in ast.walk(x):
                if isinstance(y, ast.Return) and y.value is not None and not (isinstance(y.value, ast.Constant) and y.value.value is None):
                    raise NotImplementedError("helper %s returns a value" % g.name)
        self.depth += 1
        try:
            return self.block(body, False, True)
        finally:
            self.depth -= 1


def _swap_not(st):
    """`if not f: A else: B` (a negated flag, which the negation rewriting leaves alone) is `if f: B else: A`"""
    while isinstance(st.test, ast.UnaryOp) and isinstance(st.test.op, ast.Not):
        st = ast.If(test=st.test.operand, body=st.orelse, orelse=st.body)
    return st


def _bare_return(s):
    return isinstance(s, ast.Return) and (s.value is None or (isinstance(s.value, ast.Constant) and s.value.value is None))


def _and(a, b):
    if a is None:
        return b
    return lambda i: ast.BoolOp(op=ast.And(), values=[a(i), b(i)])


def py_prepare(repo, fi):
    return _PyPrep(repo, fi).run()


# =============================================================================
# Guarded effects in a layout-independent normal form
# =============================================================================
# vcheck.sibling reduces an engine to guarded effects whose symbols are numbered by the order in which loops and loop
# carried variables are met (k0, k1, S0_1 ...).  Here the same reduction is run and the result renamed by *content*:
#   loop counters by nesting depth (K0 outermost), so that it does not matter how many loops precede a loop;
#   loop carried state by its update rule (T<digest of the rule text>), not by the variable's name or position;
#   integer comparisons `d > 0` as `d - 1 >= 0` (a `<` bound and a `<=` bound of the same range read the same);
#   two effects that differ only in one complementary guard atom (c / not c) are one effect without that atom
#   (a store duplicated into both arms of a test, e.g. a separate counting pass when no reverse indices are wanted);
#   a loop invariant guard on a state update is dropped when every reader of that state is under the same guard
#   (the state is dead elsewhere);   an effect performed twice is marked (x2).
# The initial value of each loop carried state (its value when the loop is entered) is recorded as well.
import sympy as sp

nf0 = sibling.nf


class _Red(sibling.Red):
    def __init__(s, roles):
        sibling.Red.__init__(s, roles)
        s.init = {}

    def run(s, stmts, env, guards, loops, rest=()):
        stmts = list(stmts)
        for pos, st in enumerate(stmts):
            after = stmts[pos + 1:] + list(rest)
            if isinstance(st, sibling.While):
                lid, snap = s.nloop, dict(env)
                sibling.Red.run(s, [st], env, guards, loops, after)
                for v, val in env.items():
                    nm = str(val)
                    if nm.startswith("S%d_" % lid) and nm.endswith("_final") and v in snap:
                        s.init[nm[:-6]] = snap[v]
            else:
                sibling.Red.run(s, [st], env, guards, loops, after)


def _is_int(e):
    if e.is_Integer:
        return True
    if e.is_Symbol:
        return not e.name.startswith(("P", "?"))
    if e.is_Add or e.is_Mul:
        return all(_is_int(a) for a in e.args)
    if isinstance(e, sp.core.function.AppliedUndef):
        f = e.func.__name__
        if f in ("size", "trunc", "notnone"):
            return True
        if f == "rd":
            return str(e.args[0]) in ("P2", "P4", "P5")
    return False


def nf(e):
    if isinstance(e, (sp.And, sp.Or)):
        return e.func(*[nf(a) for a in e.args])
    if isinstance(e, sp.Not) and isinstance(e.args[0], sp.Rel) and not isinstance(e.args[0], (sp.Eq, sp.Ne)):
        return nf(e.args[0].negated)
    e = nf0(e)
    if isinstance(e, sp.Gt) and e.rhs == 0 and _is_int(e.lhs):
        return sp.Ge(sp.expand(e.lhs - 1), 0, evaluate=False)
    return e


def _pw(v):
    if isinstance(v, sp.Piecewise):
        return "PW[" + "; ".join("%s if %s" % (_pw(val), str(nf(c))) for val, c in v.args) + "]"
    if isinstance(v, sp.Basic) and v.has(sp.Piecewise):
        return str(v.replace(lambda e: isinstance(e, sp.Piecewise), lambda e: sp.Symbol(_pw(e))))
    return str(nf(v))


class Eff:
    __slots__ = ("loops", "g", "kind", "a", "i", "v", "atoms", "syms", "n")

    def key(self):
        return (self.loops, tuple(sorted(self.g)), self.kind + ("(x%d)" % self.n if self.n > 1 else ""), self.a, self.i, self.v)


# ---- elements that an engine reads back from an array it has filled itself ---------------------------------------------
# The reduction treats the arrays as inputs: rd(A, i) is "the element the caller put there".  That is wrong for an array the
# engine stores into, except for the read-modify-write of one cell (hist[b] = hist[b] + 1, the same in both engines).  One
# more case is resolved: a *copy loop*  `for k in [0, n): A[c + k] = V(k)`  that has finished before a later loop over the same
# range reads A[c + k]: the read is V(k), provided no other store of the engine can touch the copied region -- shown by
# adding up the conditions under which that store happens (loop conditions, guards: all of the form d >= 0) to
# `index <= c - 1`.  Anything else that reads what the engine stored gets no verdict.
def _rd_atoms(e):
    return [x for x in e.atoms(sp.core.function.AppliedUndef) if x.func.__name__ == "rd"] if isinstance(e, sp.Basic) else []


def _eff_terms(eff):
    loops, g, kind, a, i, v = eff
    return [c for _, _, c in loops] + list(g) + [x for x in (i, v) if isinstance(x, sp.Basic)]


def _nonneg_facts(r, eff):
    """expressions known to be >= 0 whenever the effect happens"""
    loops, g, kind, a, i, v = eff
    out = [sp.Symbol("k%d" % lid, integer=True) for _, lid, _ in loops]
    conds = []
    for _, _, c in loops:
        conds += list(c.args) if isinstance(c, sp.And) else [c]
    for c in conds + r.atoms(list(g)):
        try:
            c = nf(sp.logic.boolalg.to_nnf(c, simplify=False) if getattr(c, "is_Boolean", False) and not getattr(c, "is_Relational", False) else c)
        except Exception:
            continue
        if isinstance(c, sp.Ge) and c.rhs == 0:
            out.append(c.lhs)
    return out


def _provably_nonneg(d, facts):
    import itertools
    d = sp.expand(d)
    facts = facts[:8]
    for n in range(len(facts) + 1):
        for sub in itertools.combinations(facts, n):
            rest = sp.expand(d - sum(sub))
            if rest.is_Integer and rest >= 0:
                return True
    return False


def _forward_copies(r):
    effs = list(r.effects)
    stored = {e[3] for e in effs if e[2] == "store"}
    for si, S in enumerate(effs):
        loops, g, kind, arr, idx, val = S
        if kind != "store" or len(loops) != 1 or not isinstance(idx, sp.Basic) or not isinstance(val, sp.Basic):
            continue
        lidA, condA = loops[0][1], loops[0][2]
        kA = sp.Symbol("k%d" % lidA, integer=True)
        c0 = sp.expand(idx - kA)
        inv = lambda e: all(str(x).startswith("P") for x in e.free_symbols)
        if not inv(c0) or _rd_atoms(c0) or any(a.args[0] in stored for a in _rd_atoms(val)) or not all(inv(x) for x in g if isinstance(x, sp.Basic)):
            continue
        gS = {str(nf(x)) for x in r.atoms(list(g))}
        # no other store of the engine reaches the copied region A[c0 ...]
        others = [T for ti, T in enumerate(effs) if ti != si and T[2] == "store" and T[3] == arr]
        if not all(isinstance(T[4], sp.Basic) and _provably_nonneg(c0 - T[4] - 1, _nonneg_facts(r, T)) for T in others):
            continue
        for ei, E in enumerate(effs):
            if ei == si or not E[0]:
                continue
            lidB, condB = E[0][0][1], E[0][0][2]
            kB = sp.Symbol("k%d" % lidB, integer=True)
            target = sp.Function("rd")(arr, kB + c0)
            if lidB <= lidA or not any(target in _rd_atoms(t) for t in _eff_terms(E)):
                continue
            k = sp.Symbol("k", integer=True)
            try:
                same_range = str(nf(condA.xreplace({kA: k}))) == str(nf(condB.xreplace({kB: k})))
            except Exception:
                same_range = False
            if not same_range or not gS <= {str(nf(x)) for x in r.atoms(list(E[1]))}:
                continue
            m = {target: val.xreplace({kA: kB})}
            sub = lambda e: e.xreplace(m) if isinstance(e, sp.Basic) else e
            effs[ei] = (tuple((t, lid, sub(c)) for t, lid, c in E[0]), frozenset(sub(x) for x in E[1]), E[2], E[3], sub(E[4]), sub(E[5]))
    r.effects = effs
    # what is left
    for loops, g, kind, a, i, v in effs:
        for t in _eff_terms((loops, g, kind, a, i, v)):
            for x in _rd_atoms(t):
                if x.args[0] in stored and not (kind == "store" and a == x.args[0] and isinstance(i, sp.Basic) and sp.expand(i - x.args[1]) == 0):
                    raise AnalysisError("an engine reads back an element of an array it stores into (%s): the arrays are modelled as inputs, so there is no verdict on this form" % x)


def engine_effects(ir, roles):
    """(list of Eff, {state name: initial value text}) of one engine"""
    r = _Red(roles)
    r.run(ir, {}, [], [])
    _forward_copies(r)
    depth, cond = {}, {}
    for loops, g, kind, a, i, v in r.effects:
        for d, (_, lid, c) in enumerate(loops):
            depth[lid], cond[lid] = d, c
    sym = {sp.Symbol("k%d" % lid, integer=True): sp.Symbol("K%d" % d, integer=True) for lid, d in depth.items()}
    states = [(loops, a, v) for loops, g, kind, a, i, v in r.effects if kind == "state"]
    names = [a for _, a, _ in states]
    SELF, OTHER = sp.Symbol("SELF"), sp.Symbol("OTHER")
    sig = {}
    for loops, a, v in states:
        m = dict(sym)
        m.update({b: OTHER for b in names if b != a})
        m[a] = SELF
        sig[a] = (len(loops), _pw(v.xreplace(m)), tuple(str(nf(c.xreplace(m))) for _, _, c in loops))
    if len(set(sig.values())) != len(names):
        raise AnalysisError("two loop carried variables of an engine have the same update rule: no canonical naming")
    for a in names:
        t = "T" + hashlib.sha1(repr(sig[a]).encode()).hexdigest()[:4]
        sym[a] = sp.Symbol(t)
        sym[sp.Symbol(str(a) + "_final")] = sp.Symbol(t + "_final")
    for lid, c in cond.items():
        sym[sp.Symbol("ind%d_x_final" % lid)] = sp.Symbol("end[%s]" % str(nf(c.xreplace(sym))))
    rn = lambda e: e.xreplace(sym) if isinstance(e, sp.Basic) else e
    out = []
    for loops, g, kind, a, i, v in r.effects:
        e = Eff()
        G = r.atoms([sp.logic.boolalg.to_nnf(rn(x), simplify=False) if getattr(rn(x), "is_Boolean", False) or getattr(rn(x), "is_Relational", False) else rn(x) for x in g])
        e.atoms = {str(nf(x)): x for x in G}
        e.g = frozenset(e.atoms)
        e.kind, e.a, e.n = kind, str(rn(a)), 1
        lc = [rn(c) for _, _, c in loops]
        v2 = rn(v)
        if kind == "state":
            e.loops = tuple(str(nf(c)) for c in lc)
            e.i = ""
            e.v = _pw(r.norm_truth(v2) if getattr(v2, "is_Boolean", False) else v2)
        else:
            e.loops = tuple(str(nf(r.under(c, G))) for c in lc)
            e.i = str(nf(rn(i))) if i is not None else ""
            e.v = str(nf(r.under(v2, G)))
        # a guard that is the entry condition of an enclosing loop (its condition at counter 0) adds nothing: the loop body
        # runs only when that condition held (`if (b > old) for (t = old + 1; t <= b; t++)` == the bare loop)
        for d, c in enumerate(lc):
            if not isinstance(c, sp.Basic):
                continue
            c0 = c.xreplace({sp.Symbol("K%d" % d, integer=True): sp.Integer(0)})
            for a0 in (c0.args if isinstance(c0, sp.And) else (c0,)):
                try:
                    t0 = str(nf(a0))
                except Exception:
                    continue
                if t0 in e.atoms and len(e.atoms) > 0:
                    del e.atoms[t0]
            e.g = frozenset(e.atoms)
        fs = set()
        for x in lc + list(G) + [v2] + ([rn(i)] if isinstance(i, sp.Basic) else []):
            if isinstance(x, sp.Basic):
                fs |= {str(s_) for s_ in x.free_symbols}
        e.syms = fs - ({e.a} if kind == "state" else set())
        out.append(e)
    out = _merge_complementary(out)
    _drop_dead_state_guards(out)
    # multiplicity
    seen = {}
    for e in out:
        k = e.key()
        if k in seen:
            seen[k].n += 1
        else:
            seen[k] = e
    out = list(seen.values())
    init = {}
    for s_, val in r.init.items():
        t = sym.get(sp.Symbol(s_))
        if t is not None and isinstance(val, sp.Basic):
            init[str(t)] = str(nf(rn(val)))
    return out, init


def _merge_complementary(effs):
    effs = list(effs)
    changed = True
    while changed:
        changed = False
        for x in range(len(effs)):
            for y in range(x + 1, len(effs)):
                a, b = effs[x], effs[y]
                if (a.loops, a.kind, a.a, a.i, a.v) != (b.loops, b.kind, b.a, b.i, b.v) or a.kind != "store":
                    continue
                da, db = a.g - b.g, b.g - a.g
                if len(da) == 1 and len(db) == 1:
                    ga, gb = next(iter(da)), next(iter(db))
                    try:
                        neg = str(nf(sp.Not(a.atoms[ga])))
                    except Exception:
                        continue
                    if neg == gb:
                        a.g = a.g & b.g
                        a.atoms = {k: v for k, v in a.atoms.items() if k in a.g}
                        a.syms = a.syms | b.syms
                        del effs[y]
                        changed = True
                        break
            if changed:
                break
    return effs


def _drop_dead_state_guards(effs):
    for e in effs:
        if e.kind != "state":
            continue
        mine = {e.a, e.a + "_final"}
        readers = [q for q in effs if q is not e and (mine & q.syms)]
        for gs, atom in list(e.atoms.items()):
            if all(str(s_).startswith("P") for s_ in atom.free_symbols) and readers and all(gs in q.g for q in readers):
                e.g = e.g - {gs}
                del e.atoms[gs]


def _array_params(fn):
    return [a.arg for a in fn.args.args]


def compare_engines(py_fn, c_decl):
    """guarded effects (lists of Eff) and state initial values of the Python and the C engine"""
    try:
        pyir = sibling.lower_python(py_fn)
        cir = sibling.lower_c(c_decl)
    except (NotImplementedError, KeyError, AssertionError) as e:
        # (the lowering refuses an operator or a statement form it does not have with one of these)
        raise AnalysisError("sibling lowering met an unsupported construct: %s %s" % (type(e).__name__, e))
    try:
        A, ia = engine_effects(pyir, {p: "P%d" % i for i, p in enumerate(_array_params(py_fn))})
        B, ib = engine_effects(cir, sibling.c_roles(c_decl))
    except NotImplementedError as e:
        raise AnalysisError("sibling lowering met an unsupported construct: %s" % e)
    return A, ia, B, ib


# =============================================================================
# One iteration of the pass over the sorted data, path by path
# =============================================================================
# The effect comparison above needs both engines in the four-construct form.  Two necessary conditions of the property are
# about exactly the constructs that form does not have, so they are decided here on a tolerant version of the same
# lowering (break / return / goto / continue kept as statements, an expression the lowering does not know becomes an opaque
# symbol), engine by engine, by enumerating the paths through ONE iteration of every top-level loop with the loop carried
# variables as symbols (H_<name>: the value at the head of the iteration) and affine counters in closed form:
#   pass-visits-every-sorted-datum   rev is "nbin+1 offsets followed by the sorted in-range indices": the store
#       rev[i + nbin + 1] = s[i] must happen for every position i of the sort index.  A way out of the loop that holds that
#       store (break, return, goto, or a conjunct of the loop condition) and is taken under a condition on the data leaves
#       the remaining positions unvisited: their indices are never stored, whatever the data are sorted by.
#   counted-bin-is-the-bin-of-the-datum   the bin a datum is counted in is trunc((x - min)/binsize) of that datum.  Where
#       the index of the increment is a loop carried value V instead (a shortcut: "equal to the remembered datum W, so reuse
#       its bin"), V must be the bin of W whenever the shortcut is taken: on every path of the iteration the pair (W, V) is
#       left alone or set to (current datum, its bin).  A path that sets W to the current datum and leaves V alone breaks
#       the pairing: the next equal datum is counted in the bin of an earlier one.
class _Exit:
    def __init__(s, kind, line):
        s.kind, s.line = kind, line


class _Other:
    def __init__(s, line, text):
        s.line, s.text = line, text


_TOL = (NotImplementedError, KeyError, AssertionError, IndexError, TypeError, AttributeError)


def _tol_py_expr(e):
    try:
        return sibling.py_expr(e)
    except _TOL:
        return ("opaque", norm(e)[:80])


def _tol_c_expr(n):
    try:
        return sibling.c_expr(n)
    except _TOL:
        return ("opaque", cfront.render(n)[:80])


def _tol_py(body):
    out = []
    for st in body:
        ln = getattr(st, "lineno", None)
        if isinstance(st, ast.Expr) and isinstance(st.value, ast.Constant) or isinstance(st, ast.Pass):
            continue
        if isinstance(st, ast.Assign) and len(st.targets) == 1 and isinstance(st.targets[0], ast.Name):
            x = sibling.Assign(st.targets[0].id, _tol_py_expr(st.value))
        elif isinstance(st, ast.Assign) and len(st.targets) == 1 and isinstance(st.targets[0], ast.Subscript):
            t = st.targets[0]
            x = sibling.Store(_tol_py_expr(t.value), ("opaque", norm(t.slice)) if isinstance(t.slice, ast.Slice) else _tol_py_expr(t.slice), _tol_py_expr(st.value))
        elif isinstance(st, ast.AugAssign) and isinstance(st.op, (ast.Add, ast.Sub)) and isinstance(st.target, (ast.Name, ast.Subscript)):
            op = "+" if isinstance(st.op, ast.Add) else "-"
            t = st.target
            if isinstance(t, ast.Name):
                x = sibling.Assign(t.id, ("bin", op, ("var", t.id), _tol_py_expr(st.value)))
            else:
                a, i = _tol_py_expr(t.value), ("opaque", norm(t.slice)) if isinstance(t.slice, ast.Slice) else _tol_py_expr(t.slice)
                x = sibling.Store(a, i, ("bin", op, ("rd", a, i), _tol_py_expr(st.value)))
        elif isinstance(st, ast.If):
            x = sibling.If(_tol_py_expr(st.test), _tol_py(st.body), _tol_py(st.orelse))
        elif isinstance(st, ast.While) and not st.orelse:
            x = sibling.While(_tol_py_expr(st.test), _tol_py(st.body))
        elif isinstance(st, (ast.Break, ast.Return, ast.Continue, ast.Raise)):
            x = _Exit({ast.Break: "break", ast.Return: "return", ast.Continue: "continue", ast.Raise: "raise"}[type(st)], ln)
        else:
            x = _Other(ln, norm(st)[:80])
        x.line = ln
        out.append(x)
    return out


def _tol_c(nodes):
    out = []
    for st in nodes:
        if not isinstance(st, dict) or not st.get("kind"):
            continue
        k, ln = st["kind"], st.get("line")
        x = None
        if k == "DeclStmt":
            for v in st.get("inner", []) or []:
                init = [c for c in v.get("inner", []) or [] if isinstance(c, dict) and "kind" in c]
                if init and v.get("name") and "*" not in v.get("type", {}).get("qualType", ""):
                    a = sibling.Assign(v["name"], _tol_c_expr(init[-1]))
                    a.line = ln
                    out.append(a)
            continue
        if k in ("NullStmt", "CallExpr"):
            if k == "CallExpr" and not (cfront.callee_name(st) or "Py").startswith(("Py", "_Py", "Npy", "npy_")):
                x = _Other(ln, cfront.render(st)[:80])
            else:
                continue
        elif k == "CompoundStmt":
            out.extend(_tol_c(st.get("inner", []) or []))
            continue
        elif k == "BinaryOperator" and st.get("opcode") == "=":
            lhs = sibling.c_unwrap(st["inner"][0])
            if lhs.get("kind") == "DeclRefExpr":
                x = sibling.Assign(lhs["referencedDecl"]["name"], _tol_c_expr(st["inner"][1]))
            else:
                l = _tol_c_expr(lhs)
                x = sibling.Store(l[1], l[2], _tol_c_expr(st["inner"][1])) if l[0] == "rd" else _Other(ln, cfront.render(st)[:80])
        elif k == "UnaryOperator" and st.get("opcode") in ("++", "--") and sibling.c_unwrap(st["inner"][0]).get("kind") == "DeclRefExpr":
            nm = sibling.c_unwrap(st["inner"][0])["referencedDecl"]["name"]
            x = sibling.Assign(nm, ("bin", "+" if st["opcode"] == "++" else "-", ("var", nm), ("num", 1)))
        elif k == "IfStmt":
            c = [y for y in st["inner"] if isinstance(y, dict) and y.get("kind")]
            acc = []
            sibling.find_calls(c[0], "PyArg_ParseTuple", acc)
            if not acc:
                sibling.find_calls(c[0], "_PyArg_ParseTuple_SizeT", acc)
            if acc:
                n = 0
                for a in acc[0]["inner"][3:]:
                    a = sibling.c_unwrap(a)
                    if a.get("kind") == "UnaryOperator" and a.get("opcode") == "&":
                        y = sibling.Assign(sibling.c_unwrap(a["inner"][0])["referencedDecl"]["name"], ("var", "@P%d" % n))
                        y.line = ln
                        out.append(y)
                        n += 1
                continue
            x = sibling.If(_tol_c_expr(c[0]), _tol_c(_c_block(c[1])) if len(c) > 1 else [], _tol_c(_c_block(c[2])) if len(c) > 2 else [])
        elif k == "WhileStmt":
            x = sibling.While(_tol_c_expr(st["inner"][0]), _tol_c(_c_block(st["inner"][1])))
        elif k == "ForStmt" and len(st.get("inner", [])) == 5 and st["inner"][2].get("kind"):
            init, _, test, inc, body = st["inner"]
            out.extend(_tol_c(_c_split_comma(init)))
            x = sibling.While(_tol_c_expr(test), _tol_c(_c_block(body)) + _tol_c(_c_split_comma(inc)))
        elif k in ("BreakStmt", "ReturnStmt", "GotoStmt", "ContinueStmt"):
            x = _Exit(k[:-4].lower(), ln)
        else:
            x = _Other(ln, cfront.render(st)[:80])
        x.line = ln
        out.append(x)
    return out


class _TolRed(sibling.Red):
    """the symbolic reduction of vcheck.sibling, total: None is a constant of its own, an unknown expression a symbol of its own"""

    def sx(s, e, env):
        if e[0] == "none":
            return sp.Symbol("NONE")
        if e[0] == "opaque":
            return sp.Symbol("?`%s`" % e[1])
        try:
            return sibling.Red.sx(s, e, env)
        except _TOL + (sp.SympifyError, ValueError, ZeroDivisionError):
            return sp.Symbol("?`%s`" % (e,))

    def truth(s, e, env):
        try:
            return _flag_norm(sibling.Red.truth(s, e, env))
        except _TOL + (sp.SympifyError, ValueError):
            return sp.Ne(sp.Symbol("?`%s`" % (e,)), 0)


def _flag_norm(x):
    """a 0/1 flag that was set under a condition c, tested for (non-)zero, is c (not c)"""
    def fix(e):
        pw = e.args[0]
        if isinstance(pw, sp.Piecewise) and e.args[1] == 0 and len(pw.args) == 2 and pw.args[0][0] == 1 and pw.args[1][0] == 0 and pw.args[1][1] == True:
            return pw.args[0][1] if isinstance(e, sp.Ne) else sp.Not(pw.args[0][1])
        return e
    return x.replace(lambda e: isinstance(e, (sp.Ne, sp.Eq)), fix) if hasattr(x, "replace") else x


def _feasible(conds):
    try:
        return sp.And(*conds) != sp.false
    except Exception:
        return True


class _IterPath:
    __slots__ = ("env", "conds", "events", "exit", "other")

    def __init__(s, env, conds=(), events=(), exit=None, other=()):
        s.env, s.conds, s.events, s.exit, s.other = env, list(conds), list(events), exit, list(other)

    def fork(s, cond=None):
        p = _IterPath(dict(s.env), s.conds, s.events, s.exit, s.other)
        if cond is not None:
            p.conds.append(cond)
        return p


def _all_stores(stmts, acc):
    for st in stmts:
        if isinstance(st, sibling.Store):
            acc.append(st)
        elif isinstance(st, sibling.If):
            _all_stores(st.t, acc)
            _all_stores(st.f, acc)
        elif isinstance(st, sibling.While):
            _all_stores(st.b, acc)
    return acc


def _iter_paths(red, stmts, start, limit=400):
    """the paths through a statement list: [_IterPath]; events are (array, index, value, conditions so far, in an inner loop?, line)"""
    paths = [start]
    for st in stmts:
        new = []
        for p in paths:
            if p.exit is not None:
                new.append(p)
            elif isinstance(st, sibling.Assign):
                p.env[st.n] = red.sx(st.e, p.env)
                new.append(p)
            elif isinstance(st, sibling.Store):
                p.events.append((red.arr(st.a, p.env), red.sx(st.i, p.env), red.sx(st.e, p.env), tuple(p.conds), False, getattr(st, "line", None)))
                new.append(p)
            elif isinstance(st, sibling.If):
                c = red.truth(st.c, p.env)
                if c == sp.true:
                    new.extend(_iter_paths(red, st.t, p, limit))
                elif c == sp.false:
                    new.extend(_iter_paths(red, st.f, p, limit))
                else:
                    for arm, q in ((st.t, p.fork(c)), (st.f, p.fork(sp.Not(c)))):
                        if _feasible(q.conds):
                            new.extend(_iter_paths(red, arm, q, limit))
            elif isinstance(st, sibling.While):
                # an inner loop is not unrolled: what it assigns is unknown afterwards, its stores are recorded as they read inside
                inner = dict(p.env)
                for v in red.assigned(st.b, set()):
                    inner[v] = sp.Symbol("?inner_%s" % v)
                for x in _all_stores(st.b, []):
                    p.events.append((red.arr(x.a, inner), red.sx(x.i, inner), red.sx(x.e, inner), tuple(p.conds), True, getattr(x, "line", None)))
                for v in red.assigned(st.b, set()):
                    p.env[v] = sp.Symbol("?after_%s_%s" % (v, getattr(st, "line", "")))
                new.append(p)
            elif isinstance(st, _Exit):
                p.exit = st
                new.append(p)
            else:
                p.other.append(st)
                new.append(p)
        paths = new
        if len(paths) > limit:
            raise NotImplementedError("more than %d paths through one iteration" % limit)
    return paths


class _PassLoop:
    """one top-level loop of an engine: paths of one iteration, entry values, condition"""
    __slots__ = ("node", "entry", "cond", "paths", "line", "counters")


def _pass_loops(red, stmts, env, out):
    """the loops of a statement list that are not inside another loop (arms of top-level tests included), with the values at their entry"""
    for st in stmts:
        if isinstance(st, sibling.If):
            _pass_loops(red, st.t, dict(env), out)
            _pass_loops(red, st.f, dict(env), out)
        elif isinstance(st, sibling.While):
            L = _PassLoop()
            L.node, L.entry, L.line = st, dict(env), getattr(st, "line", None)
            carried = red.assigned(st.b, set())
            benv = dict(env)
            L.counters = {}
            k = sp.Symbol("k", integer=True)
            for v in sorted(carried):
                tops = [x for x in st.b if isinstance(x, sibling.Assign) and x.n == v]
                n_all = _count_assign(st.b, v)
                if n_all == 1 and len(tops) == 1 and tops[0].e[0] == "bin" and tops[0].e[1] in "+-" and tops[0].e[2] == ("var", v) and tops[0].e[3][0] == "num" and v in env:
                    step = tops[0].e[3][1] * (1 if tops[0].e[1] == "+" else -1)
                    benv[v] = env[v] + step * k
                    L.counters[v] = tops[0]
                else:
                    benv[v] = sp.Symbol("H_%s" % v)
            L.cond = red.truth(st.c, benv)
            body = [x for x in st.b if not any(x is c for c in L.counters.values())]
            L.paths = _iter_paths(red, body, _IterPath(benv))
            out.append(L)
        try:
            sibling.Red.run(red, [st], env, [], [])
        except _TOL + (sp.SympifyError, ValueError):
            for v in red.assigned([st], set()):
                env[v] = sp.Symbol("?after_%s" % v)
    return out


def _count_assign(stmts, v):
    n = 0
    for x in stmts:
        if isinstance(x, sibling.Assign) and x.n == v:
            n += 1
        elif isinstance(x, sibling.If):
            n += _count_assign(x.t, v) + _count_assign(x.f, v)
        elif isinstance(x, sibling.While):
            n += _count_assign(x.b, v)
    return n


def _rd_of(e, role):
    """the reads rd(role, .) inside a term"""
    return [x for x in _rd_atoms(e) if str(x.args[0]) == role]


def _datum_atoms(e):
    """the terms rd(P0, rd(P2, X)) inside e: a datum reached through the sort index"""
    return [x for x in _rd_of(e, "P0") if isinstance(x.args[1], sp.core.function.AppliedUndef) and x.args[1].func.__name__ == "rd" and str(x.args[1].args[0]) == "P2"]


def _bin_of(d):
    return sp.Function("trunc")((d - sp.Symbol("P1")) / sp.Symbol("P3"))


def _same(a, b):
    try:
        return str(nf(a)) == str(nf(b))
    except Exception:
        return False


def _heads(e):
    return {x for x in e.free_symbols if x.name.startswith("H_")} if isinstance(e, sp.Basic) else set()


def _unknowns(e):
    return {x for x in e.free_symbols if x.name.startswith("?")} if isinstance(e, sp.Basic) else set()


def _cond_text(conds):
    out = []
    for c in conds:
        try:
            out.append(str(nf(c)))
        except Exception:
            out.append(str(c))
    t = " and ".join(out) or "always"
    for a, b in (("size(P4)", "nbin"), ("size(P2)", "s.size"), ("P0", "data"), ("P1", "min"), ("P2", "s"), ("P3", "binsize"), ("P4", "hist"), ("P5", "rev")):
        t = t.replace(a, b)
    return t


def pass_rules(chk, tag, ir, roles, where_of):
    """the two per-iteration rules (section comment) on one engine; tag 'py' / 'c'; where_of(line) -> location text"""
    red = _TolRed(roles)
    try:
        loops = _pass_loops(red, ir, {}, [])
    except NotImplementedError as e:
        chk.ob("R05.2", "engine::%s::pass-visits-every-sorted-datum" % tag, None, where_of(None), "the iterations of the engine's loops could not be enumerated (%s)" % e)
        return
    P4, P5 = sp.Symbol("P4"), sp.Symbol("P5")
    norev = sp.Not(sp.Function("notnone")(P5) > 0)

    def index_stores(L, inner=None):
        return [ev for p in L.paths for ev in p.events if ev[0] == P5 and _rd_of(ev[2], "P2") and (inner is None or ev[4] == inner)]

    # ---- every position of the sort index is visited ---------------------------------------------
    vs, why = [], []
    for L in loops:
        evs = [ev for p in L.paths for ev in p.events if ev[0] in (P4, P5)]
        if not evs:
            continue
        ways = [(p.exit.kind, p.exit.line, p.conds, p) for p in L.paths if p.exit is not None and p.exit.kind in ("break", "return", "goto")]
        catoms = red.atoms([L.cond])
        for a in catoms:
            if _rd_atoms(a) or _heads(a) or _unknowns(a):
                ways.append(("loop condition", L.line, [sp.Not(a)], None))
        if not ways:
            vs.append(True)
            continue
        idx = index_stores(L, inner=False)
        for kind, line, conds, p in ways:
            atoms = red.atoms(list(conds))
            on_data = [a for a in atoms if _rd_atoms(a) or _heads(a)]
            if not on_data or any(_unknowns(a) for a in atoms):
                vs.append(None)               # a bound on the counter spelled as an exit, or a condition that is not understood
                continue
            if not idx or any(_same(a, norev) for a in atoms):
                vs.append(None)               # no reverse indices are lost on this way out; whether counts are is not decided here
                continue
            made_up = [ev for M in loops if M is not L for ev in index_stores(M)] + ([ev for ev in p.events if ev[4] and ev[0] == P5 and _rd_of(ev[2], "P2")] if p is not None else [])
            if made_up or (p is not None and p.other) or any(isinstance(x, _Other) for x in ir):
                vs.append(None)               # the indices of the remaining positions may be stored by something else
                continue
            vs.append(False)
            before = p is not None and not any(ev[0] == P5 and _rd_of(ev[2], "P2") and not ev[4] for ev in p.events)
            why.append((line, "the loop over the sort index is left by `%s` (line %s) when %s -- a condition on the data, not on the position: the positions after that one are never visited%s, so their "
                        "sort indices are not stored at rev[i + nbin + 1] (that part of the index area is never written) although the data lie within the limits"
                        % (kind, line, _cond_text(on_data), " and the store for the current position is skipped as well" if before else "")))
    v = _verdict(vs) if vs else None
    chk.ob("R05.2", "engine::%s::pass-visits-every-sorted-datum" % tag, v, where_of(why[0][0] if why and v is False else None),
           "%severy position of the (limit-filtered) sort index is visited and its index stored when reverse indices are requested: no way out of the pass depends on the data"
           % ("; ".join(w for _, w in why[:2]) + " -- rule: " if why and v is False else ""))
    # ---- the bin a datum is counted in is the bin of that datum -------------------------------------
    vs, why = [], []
    for L in loops:
        for p in L.paths:
            for arr, idx, val, conds, inner, line in p.events:
                if arr != P4 or not any(_same(x.args[1], idx) for x in _rd_of(val, "P4")):
                    continue                  # not an increment of hist[idx]
                if inner:
                    vs.append(None)
                    continue
                if not _heads(idx) and not _unknowns(idx):
                    vs.append(True)           # computed from what this iteration reads (that it is trunc((x - min)/binsize): engine::one-increment-per-datum-in-its-bin)
                    continue
                if not (idx.is_Symbol and idx.name.startswith("H_")):
                    vs.append(None)
                    continue
                r, msg = _reused_bin(red, L, idx, conds)
                vs.append(r)
                if r is False:
                    why.append((line, msg))
    v = _verdict(vs) if vs else None
    chk.ob("R05.2", "engine::%s::counted-bin-is-the-bin-of-the-datum" % tag, v, where_of(why[0][0] if why and v is False else None),
           "%son every path through one iteration the index of the increment is computed from the datum visited in that iteration, not carried over from an earlier one -- or it is a "
           "remembered bin that is paired with a remembered datum equal to the current one" % ("; ".join(w for _, w in why[:2]) + " -- rule: " if why and v is False else ""))


# ---- every bin offset is stored, also for a bin that stays empty ---------------------------------------------------------
# The reverse-index array arrives zeroed and every one of its first nbin+1 entries must end up >= nbin+1 (bin i is the slice
# rev[rev[i]:rev[i+1]] of the index area, which starts at nbin+1): so every offset t in [0, nbin] has to be *stored* on every
# run, in particular on the runs in which no datum opens bin t.  Decided by abstract interpretation of the engine over the class
# of all runs in which no sorted datum is counted (reachable through the public interface: nbin= given and every datum equal
# to the upper limit, so that each bin index is nbin): an iteration of the pass over the sort index then takes a path without
# an increment of hist, the state such paths leave unchanged keeps its initial value, and the offsets stored are those of the
# statements outside the pass.  The set of offsets stored is OVER-approximated (guards on stores are ignored, both arms of an
# undecided test are taken, a fill loop stores its whole counter range) as a union of intervals with end points c or nbin + c;
# an offset in [0, nbin] that lies outside even this set for every nbin >= 1 is never stored: violated.  Any store into the
# array whose index is not understood gives no verdict.
def _affine_n(e, N):
    """(b, c) with e == b*N + c, b in (0, 1), c an integer; else None"""
    try:
        e = sp.expand(e)
        b = e.coeff(N, 1)
        c = sp.expand(e - b * N)
        if b in (0, 1) and c.is_Integer:
            return int(b), int(c)
    except Exception:
        pass
    return None


def _le_all(a, b):
    """a <= b for every nbin >= 1 (a, b affine pairs)"""
    d = b[0] - a[0]
    return (b[1] - a[1] >= 0) if d == 0 else (1 + b[1] - a[1] >= 0) if d == 1 else False


def _aff_text(a):
    return ("nbin%s" % ("%+d" % a[1] if a[1] else "")) if a[0] else str(a[1])


class _Cover:
    def __init__(s, red):
        s.red = red
        s.P4, s.P5 = sp.Symbol("P4"), sp.Symbol("P5")
        s.N = sp.Function("size")(s.P4)
        s.iv = []                # (lo, hi, line) affine pairs
        s.unknown = []           # texts of what was not understood
        s.passes = 0
        s.n = 0

    def fresh(s, v):
        s.n += 1
        return sp.Symbol("?cov%d_%s" % (s.n, v))

    def point(s, arr, idx, line, lo=None, hi=None):
        if arr != s.P5:
            if not (arr.is_Symbol and arr.name.startswith("P")):
                s.unknown.append("store into `%s` (line %s)" % (arr, line))
            return
        a = _affine_n(idx if lo is None else lo, s.N)
        b = _affine_n(idx if hi is None else hi, s.N)
        if a is None or b is None:
            s.unknown.append("store rev[%s] (line %s)" % (idx, line))
        else:
            s.iv.append((a, b, line))

    def walk(s, stmts, env):
        red = s.red
        for st in stmts:
            if isinstance(st, sibling.Assign):
                env[st.n] = red.sx(st.e, env)
            elif isinstance(st, sibling.Store):
                sl = s.slice_bounds(st.i, env)
                if sl is not None:
                    s.point(red.arr(st.a, env), sl[0], getattr(st, "line", None), lo=sl[0], hi=sl[1])
                else:
                    s.point(red.arr(st.a, env), red.sx(st.i, env), getattr(st, "line", None))
            elif isinstance(st, sibling.If):
                c = red.truth(st.c, env)
                if c == sp.true:
                    s.walk(st.t, env)
                elif c == sp.false:
                    s.walk(st.f, env)
                else:
                    e1, e2 = dict(env), dict(env)
                    s.walk(st.t, e1)
                    s.walk(st.f, e2)
                    for v in set(e1) | set(e2):
                        a, b = e1.get(v), e2.get(v)
                        env[v] = a if (a == b or b is None) else b if a is None else s.fresh(v)
            elif isinstance(st, sibling.While):
                if any(red.arr(x.a, {}) == s.P4 for x in _all_stores(st.b, []) if x.a[0] == "var") or s.counts(st, env):
                    s.the_pass(st, env)
                else:
                    s.fill(st, env)
            elif isinstance(st, _Exit):
                return
            else:
                s.unknown.append("statement `%s`" % getattr(st, "text", st))

    def slice_bounds(s, i, env):
        """(first, last) index of a slice store a[lo:hi] = v (unit step), else None"""
        if not (isinstance(i, tuple) and i and i[0] == "opaque" and ":" in str(i[1])):
            return None
        try:
            sl = ast.parse("_[%s]" % i[1], mode="eval").body.slice
        except SyntaxError:
            return None
        if not isinstance(sl, ast.Slice) or sl.step is not None or sl.upper is None:
            return None
        lo = sp.Integer(0) if sl.lower is None else s.red.sx(_tol_py_expr(sl.lower), env)
        return lo, s.red.sx(_tol_py_expr(sl.upper), env) - 1

    def counts(s, st, env):
        e = dict(env)
        for v in s.red.assigned(st.b, set()):
            e[v] = sp.Symbol("H_%s" % v)
        return any(s.red.arr(x.a, e) == s.P4 for x in _all_stores(st.b, []))

    def the_pass(s, st, env):
        """the pass over the sort index, in the runs where no iteration counts its datum"""
        red = s.red
        s.passes += 1
        carried = sorted(red.assigned(st.b, set()))
        benv = dict(env)
        k = sp.Symbol("k", integer=True, nonnegative=True)
        counters = {}
        for v in carried:
            tops = [x for x in st.b if isinstance(x, sibling.Assign) and x.n == v]
            if _count_assign(st.b, v) == 1 and len(tops) == 1 and tops[0].e[0] == "bin" and tops[0].e[1] in "+-" and tops[0].e[2] == ("var", v) and tops[0].e[3][0] == "num" and v in env:
                benv[v] = env[v] + tops[0].e[3][1] * (1 if tops[0].e[1] == "+" else -1) * k
                counters[v] = tops[0]
            else:
                benv[v] = sp.Symbol("H_%s" % v)
        try:
            paths = _iter_paths(red, [x for x in st.b if not any(x is c for c in counters.values())], _IterPath(benv))
        except NotImplementedError as e:
            s.unknown.append("the pass over the sort index (%s)" % e)
            paths = []
        quiet = [p for p in paths if not any(ev[0] == s.P4 for ev in p.events)]
        if paths and not quiet:
            s.unknown.append("every path through one iteration of the pass increments hist")
        for p in quiet:
            if p.other or (p.exit is not None and p.exit.kind != "continue"):
                s.unknown.append("a way out of the pass / an unmodelled statement on a path that counts nothing")
            for arr, idx, val, conds, inner, line in p.events:
                if arr != s.P5:
                    s.point(arr, idx, line)
                    continue
                d = sp.expand(idx - s.N - 1)
                if not inner and d.free_symbols <= {k} and d.subs(k, 0).is_Integer and d.subs(k, 0) >= 0 and sp.diff(d, k).is_Integer and sp.diff(d, k) >= 0:
                    continue                          # a slot of the index area (at or past nbin + 1): not an offset
                s.unknown.append("store rev[%s] on a path of the pass that counts nothing (line %s)" % (idx, line))
        for v in carried:
            if v in counters or not all(p.env.get(v) == sp.Symbol("H_%s" % v) for p in quiet) or v not in env:
                env[v] = s.fresh(v)                   # (else: unchanged by every iteration that counts nothing -> keeps its entry value)

    def fill(s, st, env):
        """a loop outside the pass: the counter range, as the range of offsets its stores cover"""
        red = s.red
        carried = sorted(red.assigned(st.b, set()))
        stores = _all_stores(st.b, [])
        benv = dict(env)
        ctr = {}
        for v in carried:
            tops = [x for x in st.b if isinstance(x, sibling.Assign) and x.n == v]
            if _count_assign(st.b, v) == 1 and len(tops) == 1 and tops[0].e[0] == "bin" and tops[0].e[1] in "+-" and tops[0].e[2] == ("var", v) and tops[0].e[3] == ("num", 1) and v in env:
                ctr[v] = 1 if tops[0].e[1] == "+" else -1
                benv[v] = sp.Symbol("C_%s" % v, integer=True)
            else:
                benv[v] = s.fresh(v)
        # a variable set once, at the head of every iteration (before anything else happens), from the counter and values the
        # loop does not change -- the loop variable of `for t in range(a, b)`, which is a + (hidden counter) -- holds that term
        # in the statements after it
        for x in st.b:
            if not isinstance(x, sibling.Assign) or x.n in ctr or _count_assign(st.b, x.n) != 1:
                break
            try:
                benv[x.n] = red.sx(x.e, benv)
            except _TOL + (sp.SympifyError, ValueError):
                break
        rng = None
        if len(ctr) == 1:
            (v, step), = ctr.items()
            C = benv[v]
            c = red.truth(st.c, benv)
            start = env[v]
            for c in (c.args if isinstance(c, sp.And) else (c,)):
                if not isinstance(c, (sp.Lt, sp.Le, sp.Gt, sp.Ge, sp.Ne)):
                    continue
                lhs, rhs = c.lhs, c.rhs
                rel = type(c)
                old_rng, rng = rng, None
                # `a + C < b` is `C < b - a` (integers; a, b free of the counter)
                try:
                    d = sp.expand(lhs - rhs)
                    co = d.coeff(C, 1)
                    if co in (1, -1) and lhs != C and rhs != C and C not in sp.expand(d - co * C).free_symbols:
                        lhs, rhs = C, sp.expand(-(d - co * C) / co)
                        if co == -1:
                            rel = {sp.Lt: sp.Gt, sp.Le: sp.Ge, sp.Gt: sp.Lt, sp.Ge: sp.Le, sp.Ne: sp.Ne}[rel]
                except Exception:
                    pass
                if rhs == C and C not in lhs.free_symbols:
                    lhs, rhs = rhs, lhs
                    rel = {sp.Lt: sp.Gt, sp.Le: sp.Ge, sp.Gt: sp.Lt, sp.Ge: sp.Le, sp.Ne: sp.Ne}[rel]
                if lhs == C and C not in rhs.free_symbols:
                    if step > 0 and rel in (sp.Lt, sp.Ne):
                        rng = (start, rhs - 1)
                    elif step > 0 and rel is sp.Le:
                        rng = (start, rhs)
                    elif step < 0 and rel in (sp.Gt, sp.Ne):
                        rng = (rhs + 1, start)
                    elif step < 0 and rel is sp.Ge:
                        rng = (rhs, start)
                # (every conjunct bounds the counter: any one of them gives a superset of the offsets stored; keep the tighter
                # one where the two can be compared for every nbin)
                if rng is None:
                    rng = old_rng
                elif old_rng is not None:
                    a, b = [_affine_n(x, s.N) for x in old_rng], [_affine_n(x, s.N) for x in rng]
                    if None in b or (None not in a and not (_le_all(a[0], b[0]) and _le_all(b[1], a[1]))):
                        rng = old_rng                 # the new range is not understood, or not inside the one already known
        for x in stores:
            arr = red.arr(x.a, benv)
            idx = red.sx(x.i, benv)
            ln = getattr(x, "line", None)
            if arr != s.P5:
                s.point(arr, idx, ln)
            elif len(ctr) == 1 and s.index_area(idx, benv[list(ctr)[0]], env[list(ctr)[0]], list(ctr.values())[0]):
                continue                              # slots of the index area (at or past nbin + 1), filled by a pass of its own
            elif rng is not None and idx.free_symbols & {benv[v] for v in ctr}:
                (v, step), = ctr.items()
                s.point(arr, idx, ln, lo=idx.subs(benv[v], rng[0]), hi=idx.subs(benv[v], rng[1]))
                if sp.diff(idx, benv[v]) != 1:
                    s.unknown.append("store rev[%s] in the loop at line %s" % (idx, getattr(st, "line", None)))
            elif _affine_n(idx, s.N) is not None:
                s.point(arr, idx, ln)
            else:
                s.unknown.append("store rev[%s] in the loop at line %s" % (idx, getattr(st, "line", None)))
        for v in carried:
            env[v] = s.fresh(v)

    def index_area(s, idx, C, start, step):
        """the index reached with an upward counter C from `start` never lies below nbin + 1"""
        try:
            if step <= 0 or not (sp.diff(idx, C).is_Integer and sp.diff(idx, C) >= 0):
                return False
            a = _affine_n(idx.subs(C, start), s.N)
            return a is not None and _le_all((1, 1), a)
        except Exception:
            return False

    def verdict(s):
        """(ok, text)"""
        top = (1, 0)
        need = (0, 0)
        for _ in range(len(s.iv) + 2):
            if _le_all((top[0], top[1] + 1), need):
                return (None if s.unknown else True), ""
            best = None
            for lo, hi, ln in s.iv:
                if _le_all(lo, need) and _le_all(need, hi) and (best is None or _le_all(best, hi)):
                    best = hi
            if best is None:
                out = all(_le_all((need[0], need[1] + 1), lo) or _le_all((hi[0], hi[1] + 1), need) for lo, hi, ln in s.iv)
                if out and _le_all(need, top) and not s.unknown:
                    return False, _aff_text(need)
                return None, ""
            need = (best[0], best[1] + 1)
        return None, ""


def offset_rule(chk, tag, ir, roles, where_of):
    red = _TolRed(roles)
    cov = _Cover(red)
    try:
        cov.walk(ir, {})
    except _TOL + (sp.SympifyError, ValueError, RecursionError) as e:
        cov.unknown.append("engine body (%s)" % e)
    if cov.passes < 1:
        cov.unknown.append("no loop that increments hist")
    ok, t = cov.verdict()
    got = sorted({"[%s, %s]" % (_aff_text(lo), _aff_text(hi)) if lo != hi else "[%s]" % _aff_text(lo) for lo, hi, ln in cov.iv})
    lines = sorted({ln for lo, hi, ln in cov.iv if ln})
    msg = "in a run where no sorted datum is counted (every bin stays empty) each offset rev[t], t in [0, nbin], is still stored -- the array arrives zeroed and bin t is the slice " \
          "rev[rev[t]:rev[t+1]] of the index area that starts at nbin+1 (offsets that can be stored then, guards ignored: %s%s)" % (got, "; not understood: %s" % cov.unknown[:3] if cov.unknown else "")
    if ok is False:
        msg = "rev[%s] is never stored when no datum falls into that bin: the statements outside the pass over the sort index can only store the offsets %s, and inside the pass an offset is " \
              "stored only on a path that counts a datum; the entry keeps the 0 it was allocated with, so the slice of bin %s starts inside the offsets instead of the index area and its length " \
              "differs from hist[%s] -- rule: %s" % (t, got, t, t, msg)
    chk.ob("R05.2", "engine::%s::every-offset-is-stored" % tag, ok, where_of(lines[0] if ok is False and lines else None), msg)


def _reused_bin(red, L, V, conds):
    """the increment uses the loop carried value V as its index (a bin remembered from an earlier iteration).  (verdict, message)"""
    ties = []
    for c in red.atoms(list(conds)):
        if isinstance(c, sp.Eq):
            for a, b in ((c.lhs, c.rhs), (c.rhs, c.lhs)):
                if b.is_Symbol and b.name.startswith("H_") and _datum_atoms(a) == [a]:
                    ties.append((a, b))
    if len(ties) != 1:
        return None, ""
    d, W = ties[0]
    v, w = V.name[2:], W.name[2:]
    verdicts = []
    for p in L.paths:
        if p.exit is not None and p.exit.kind != "continue":
            continue
        w1, v1 = p.env.get(w, W), p.env.get(v, V)
        atoms = red.atoms(list(p.conds))
        tie = lambda x: any(isinstance(c, sp.Eq) and {c.lhs, c.rhs} == {x, W} for c in atoms)
        if w1 == W and v1 == V:
            verdicts.append(True)
        elif _datum_atoms(w1) == [w1] and _same(v1, _bin_of(w1)):
            verdicts.append(True)
        elif _datum_atoms(w1) == [w1] and v1 == V and tie(w1):
            verdicts.append(True)
        elif w1 == W and len(_datum_atoms(v1)) == 1 and _same(v1, _bin_of(_datum_atoms(v1)[0])) and tie(_datum_atoms(v1)[0]):
            verdicts.append(True)
        elif _datum_atoms(w1) == [w1] and v1 == V and not any(V in _heads(c) for c in atoms) and not p.other:
            return False, ("the increment reuses the remembered bin `%s` when the datum equals the remembered datum `%s`, but on the path of an iteration where %s `%s` is set to the "
                           "current datum while `%s` is not assigned and keeps the bin of an earlier datum: the next datum equal to this one is counted in that earlier bin instead of its own "
                           "(a datum outside the valid bins is rejected at its first occurrence only)"
                           % (v, w, _cond_text(atoms), w, v))
        else:
            verdicts.append(None)
    if L.entry.get(w) != sp.Symbol("NONE"):
        verdicts.append(None)                 # the remembered datum must start as "none yet"
    return _verdict(verdicts), ""


def engines(chk, repo, py, cfn):
    """R05.1 (the engines perform the same guarded effects) and R05.2 (count / index pairing, on the Python engine's effects)"""
    try:
        del BUFFERED[:]
        py_l = py_prepare(repo, py)
        del ASSUMED[:]
        cfn_l = c_prepare(cfn)
        for a in ASSUMED:
            chk.assume(a)
    except NotImplementedError as e:
        raise AnalysisError("engine construct not supported by the desugaring: %s" % e)
    rel = py.where().rsplit(":", 1)[0]
    # ---- R05.2 a vectorised tally adds one per datum, not one per distinct bin ---------
    chk.ob("R05.2", "engine::py::tally-adds-once-per-datum", not BUFFERED, "%s:%s" % (rel, BUFFERED[0][0]) if BUFFERED and BUFFERED[0][0] else py.where(),
           "%severy array-indexed accumulation of the Python engine (and of the helpers it calls) adds once for every element of its index array: np.add.at / np.bincount / an element loop, "
           "or an in-place `a[ix] op= v` only when the elements of ix are pairwise different positions (a mask, np.where of a mask)"
           % ("; ".join("`%s` (line %s) is a buffered fancy-index update: numpy gathers %s[ix], operates on the copy and scatters it back, so a position that the index array `%s` names k times is "
                        "updated once, not k times; the elements of that index array are `%s`, an integer conversion of a value computed from a datum (a bin number), equal for equal data -- a bin "
                        "holding k >= 2 data is credited 1 instead of k, the counts no longer sum to the number of counted data nor agree with the compiled engine (np.add.at(%s, ix, 1) or "
                        "np.bincount accumulate per element)" % (b[1], b[0], b[2], b[3], b[4], b[2]) for b in BUFFERED[:2]) + " -- rule: " if BUFFERED else ""))
    # ---- R05.2 per-iteration rules (they do not need the four-construct form) ---------
    pass_rules(chk, "py", _tol_py(py_l.body), {p: "P%d" % i for i, p in enumerate(_array_params(py_l))}, lambda ln: "%s:%s" % (rel, ln) if ln else py.where())
    cw0 = "esutil/stat/chist_pywrap.c"
    pass_rules(chk, "c", _tol_c((cfront.body_of(cfn_l) or {}).get("inner", []) or []), sibling.c_roles(cfn_l), lambda ln: "%s:%s" % (cw0, ln) if ln else "%s:%s" % (cw0, cfn.get("line", "?")))
    offset_rule(chk, "py", _tol_py(py_l.body), {p: "P%d" % i for i, p in enumerate(_array_params(py_l))}, lambda ln: "%s:%s" % (rel, ln) if ln else py.where())
    offset_rule(chk, "c", _tol_c((cfront.body_of(cfn_l) or {}).get("inner", []) or []), sibling.c_roles(cfn_l), lambda ln: "%s:%s" % (cw0, ln) if ln else "%s:%s" % (cw0, cfn.get("line", "?")))
    try:
        EA, ia, EB, ib = compare_engines(py_l, cfn_l)
    except AnalysisError as e:
        # the engines use a construct the effect comparison does not have: no verdict from R05.1 / the effect-set half of R05.2
        # (the run ends without a verdict unless another rule has positively found a violation)
        chk.ob("R05.1", "engines::effect-sets-found", None, py.where(), str(e))
        return
    A, B = {e.key() for e in EA}, {e.key() for e in EB}
    chk.ob("R05.1", "engines::effect-sets-found", len(A) >= 5 and len(B) >= 5, py.where(), "guarded effects: python %d, C %d" % (len(A), len(B)))
    for x in sorted(A - B):
        chk.ob("R05.1", "engines::python-only-effect::%s/%s" % (x[2], x[3]), False, py.where(),
               "the Python engine performs an effect the C engine does not: array role %s, index %s, value %s under %s in loops %s" % (x[3], x[4], x[5], list(x[1]), list(x[0])))
    for x in sorted(B - A):
        chk.ob("R05.1", "engines::c-only-effect::%s/%s" % (x[2], x[3]), False, "esutil/stat/chist_pywrap.c",
               "the C engine performs an effect the Python engine does not: array role %s, index %s, value %s under %s in loops %s" % (x[3], x[4], x[5], list(x[1]), list(x[0])))
    if A == B:
        chk.ob("R05.1", "engines::isomorphic", True, py.where(), "both engines reduce to the same %d guarded effects" % len(A))
        di = {k: (ia.get(k), ib.get(k)) for k in set(ia) | set(ib) if ia.get(k) != ib.get(k)}
        chk.ob("R05.1", "engines::same-initial-state", not di, py.where(), "loop carried variables start from the same values in both engines (%s)" % (di or ia))
    chk.notes["guarded_effects"] = [list(map(str, x)) for x in sorted(A)]
    # ---- R05.2 count / index pairing (on the effect set of the Python engine) ---
    P0, P1, P2, P3, P4, P5 = sp.symbols("P0 P1 P2 P3 P4 P5")
    K0, K1 = sp.Symbol("K0", integer=True), sp.Symbol("K1", integer=True)
    rd, size, trunc, notnone = sp.Function("rd"), sp.Function("size"), sp.Function("trunc"), sp.Function("notnone")
    BINe = trunc((rd(P0, rd(P2, K0)) - P1) / P3)
    BIN = str(nf(BINe))
    OFF = str(nf(K0 + size(P4) + 1))
    MAIN = str(nf(K0 < size(P2)))
    DOREV = str(nf(notnone(P5) > 0))
    COUNTED = {str(nf(BINe >= 0)), str(nf(size(P4) > BINe))}
    counted = sp.And(BINe >= 0, size(P4) > BINe)
    w = py.where()
    incs = [e for e in EA if e.kind == "store" and e.a == "P4"]
    ok = len(incs) == 1 and incs[0].n == 1 and incs[0].i == BIN and incs[0].v == str(nf(rd(P4, BINe) + 1))
    chk.ob("R05.2", "engine::one-increment-per-datum-in-its-bin", ok, w, "hist[b] += 1 with b = trunc((data[s[i]] - min)/binsize) once per sorted datum (%s)" % [(e.i, e.v, e.n) for e in incs])
    if incs:
        chk.ob("R05.2", "engine::count-guard-is-valid-bin", set(incs[0].g) == COUNTED, w, "the increment is guarded by exactly 0 <= b < nbin (found %s)" % sorted(incs[0].g))
        chk.ob("R05.2", "engine::main-loop-over-all-sorted-data", incs[0].loops == (MAIN,), w, "the pass visits every sorted datum i in [0, s.size) (%s)" % list(incs[0].loops))
    # the same three conditions on the C engine's own effects: the sort index is the only carrier of the min/max filter, so every
    # datum the compiled engine counts must be reached through it -- with and without reverse indices
    cw = "esutil/stat/chist_pywrap.c"
    cinc = [e for e in EB if e.kind == "store" and e.a == "P4"]
    ok = len(cinc) == 1 and cinc[0].n == 1 and cinc[0].i == BIN and cinc[0].v == str(nf(rd(P4, BINe) + 1)) and set(cinc[0].g) == COUNTED and cinc[0].loops == (MAIN,)
    chk.ob("R05.2", "engine::c::counts-exactly-the-data-in-the-sort-index", ok, cw,
           "the C engine counts hist[trunc((data[s[i]] - min)/binsize)] += 1 once for every i in [0, s.size) under 0 <= b < nbin and nothing else: the data are reached only through the "
           "(limit-filtered) sort index, whether or not reverse indices are requested (found: %s)" % [("index " + e.i, "guards %s" % sorted(e.g), "loops %s" % list(e.loops), "x%d" % e.n) for e in cinc])
    revs = [e for e in EA if e.kind == "store" and e.a == "P5"]
    idx = [e for e in revs if e.v == str(nf(rd(P2, K0)))]
    ok = len(idx) == 1 and idx[0].n == 1 and idx[0].i == OFF and set(idx[0].g) == {DOREV} and idx[0].loops == (MAIN,)
    chk.ob("R05.2", "engine::every-sorted-index-stored-at-its-offset", ok, w, "rev[i + nbin + 1] = s[i] for every i (value order, ties in original order) when reverse indices are requested")
    # loop-carried state: the last occupied bin, and the end of the counted data
    st = {e.a: e for e in EA if e.kind == "state"}
    # (the variable may hold the last occupied bin itself, starting at -1, or a cursor at a fixed distance from it -- the first bin
    # whose offset is still to be set, last + 1, starting at 0: SHIFT is that distance, the bin meant is always variable - SHIFT)
    binst, SHIFT = [], 0
    for c in (0, 1, -1, 2):
        got = [a for a, e in st.items() if e.loops == (MAIN,) and e.v == _pw(sp.Piecewise((BINe + c, counted), (sp.Symbol(a), True)))]
        if got:
            binst, SHIFT = got, c
            break
    endst = [a for a, e in st.items() if e.loops == (MAIN,) and e.v == _pw(sp.Piecewise((K0 + size(P4) + 2, counted), (sp.Symbol(a), True)))]
    ok = len(binst) == 1 and ia.get(binst[0]) == str(nf(sp.Integer(SHIFT - 1)))
    chk.ob("R05.2", "engine::state::last-occupied-bin", ok, w, "the last occupied bin (no bin, -1, before the pass) is updated to b exactly when a datum is counted (%s; initial values %s)"
           % (sorted((a, e.v) for a, e in st.items()), ia))
    SB = (sp.Symbol(binst[0]) if len(binst) == 1 else sp.Symbol("T?")) - SHIFT
    fills = [e for e in revs if e.v == OFF and len(e.loops) == 2]
    # (the guard `previous bin < b` is the entry condition of the inner loop below: implied, and dropped from the effect)
    ok = len(fills) == 1 and fills[0].i == str(nf(SB + K1 + 1)) and fills[0].loops == (MAIN, str(nf(SB + K1 + 1 <= BINe)))
    chk.ob("R05.2", "engine::bin-offsets-filled-up-to-current-bin", ok, w, "when a datum opens bin b, rev[t] = offset for every t in (previous bin, b] (empty bins in between get the same offset)")
    chk.ob("R05.2", "engine::effect-count", len(revs) == 3, w, "three kinds of stores into the reverse-index array (index, bin offset, tail)")
    # the offsets of the bins past the last occupied one
    SBf = sp.Symbol((binst[0] if len(binst) == 1 else "T?") + "_final") - SHIFT
    outside = [e for e in revs if not (e.loops and e.loops[0] == MAIN)]
    cands = [e for e in outside if len(e.loops) == 1 and e.i == str(nf(SBf + K0 + 1))]           # fills starting right after the last occupied bin
    tails = [e for e in cands if e.loops[0] == str(nf(SBf + K0 + 1 <= size(P4)))]
    found = True if len(tails) == 1 else (False if not outside or len(cands) == 1 else None)
    chk.ob("R05.2", "engine::tail-fill-found", found, w,
           "after the pass rev[t] is set for every t in (last occupied bin, nbin] (stores after the pass: %s)" % [(e.loops, e.i) for e in outside])
    if len(tails) == 1:
        t = tails[0]
        ok = len(endst) == 1 and t.v == endst[0] + "_final" and ia.get(endst[0]) == str(nf(size(P4) + 1)) and DOREV in t.g
        if ok:
            chk.ob("R05.2", "engine::tail-fill-is-end-of-counted-data", True, w,
                   "the offsets of the bins past the last occupied one are the end of the counted data: a variable that starts at nbin+1 and is set to offset+1 whenever a datum is counted")
        else:
            chk.ob("R05.2", "engine::tail-fill-is-end-of-counted-data", False, w,
                   "the offsets of the bins past the last occupied one are set to `%s` (initial values %s), not to the end of the *counted* data (nbin+1, then offset+1 after each counted datum): "
                   "data that were stored in the index area but not counted (bin index >= nbin, e.g. the maximum when nbin= is given) then fall into the last occupied bin's slice, "
                   "whose length exceeds hist[i]" % (t.v, ia))


# =============================================================================
# Path-sensitive forward substitution over the (loop-free) wrapper functions
# =============================================================================
# The wrapper rules (R05.3 call roles, R05.4 limits, R05.5 derivations) are stated on *values*: every path through a
# function is executed symbolically (names and `self.<attr>` / `self[<key>]` cells are replaced by the expressions that
# flow into them, private helpers without loops are followed), so a rule sees "what reaches the engine when min is given"
# and not "the statement that assigns xmin".  Flags, conditional expressions, early returns, swapped arms, named
# temporaries and extracted helpers all reduce to the same per-path values.

class _Unsupported(Exception):
    pass


class _Sub(ast.NodeTransformer):
    """replace loads of names / self cells by their current values (values are already closed: no re-substitution)"""

    def __init__(self, env):
        self.env = env

    def visit_Name(self, n):
        if isinstance(n.ctx, ast.Load) and n.id in self.env:
            return copy.deepcopy(self.env[n.id])
        return n

    def _cell(self, n):
        if isinstance(n.ctx, ast.Load):
            k = norm(n)
            if k in self.env:
                return copy.deepcopy(self.env[k])
        return self.generic_visit(n)

    visit_Attribute = _cell
    visit_Subscript = _cell

    def visit_Lambda(self, n):
        return n


def _sub(e, env):
    return _Sub(env).visit(copy.deepcopy(e))


class _Call:
    __slots__ = ("raw", "func", "args", "kws", "in_loop", "value")

    def __init__(self, raw, env, in_loop=False):
        self.raw = raw
        self.func = _sub(raw.func, env)
        self.args = [_sub(a, env) for a in raw.args]
        self.kws = {k.arg: _sub(k.value, env) for k in raw.keywords}
        self.in_loop = in_loop
        self.value = _sub(raw, env)

    @property
    def name(self):
        return dotted_name(self.func) or ""


class _St:
    """one path: env (name / self cell -> expression over the function's inputs), branch decisions, calls met"""

    def __init__(self):
        self.env = {}
        self.conds = []
        self.calls = []
        self.known = {}
        self.outcome = None
        self.ret = None

    def fork(self):
        t = _St()
        t.env, t.conds, t.calls, t.known = dict(self.env), list(self.conds), list(self.calls), dict(self.known)
        return t

    def learn(self, t, truth):
        self.known[norm(t)] = truth
        if isinstance(t, ast.UnaryOp) and isinstance(t.op, ast.Not):
            self.learn(t.operand, not truth)
        elif isinstance(t, ast.BoolOp):
            if isinstance(t.op, ast.And) and truth or isinstance(t.op, ast.Or) and not truth:
                for v in t.values:
                    self.learn(v, truth)
        elif isinstance(t, ast.Compare) and len(t.ops) == 1 and isinstance(t.ops[0], (ast.Is, ast.IsNot, ast.Eq, ast.NotEq, ast.Lt, ast.GtE, ast.Gt, ast.LtE)):
            flip = {ast.Is: ast.IsNot, ast.IsNot: ast.Is, ast.Eq: ast.NotEq, ast.NotEq: ast.Eq, ast.Lt: ast.GtE, ast.GtE: ast.Lt, ast.Gt: ast.LtE, ast.LtE: ast.Gt}
            o = ast.Compare(left=t.left, ops=[flip[type(t.ops[0])]()], comparators=t.comparators)
            self.known[norm(o)] = not truth


def _is_self_key(k):
    return k.startswith("self.") or k.startswith("self[")


class _PathEx:
    LIMIT = 600

    def __init__(self, repo, opaque=(), depth=2):
        self.repo = repo
        self.opaque = set(opaque)
        self.depth = depth

    # -- entry ---------------------------------------------------------------
    def run(self, fi):
        done = []
        live = self.block(fi, fi.node.body, [_St()], done, self.depth)
        for st in live:
            st.outcome = "fall"
            done.append(st)
        return done

    def block(self, fi, stmts, live, done, depth):
        for s in stmts:
            nxt = []
            for st in live:
                nxt.extend(self.stmt(fi, s, st, done, depth))
            live = nxt
            if len(live) + len(done) > self.LIMIT:
                raise _Unsupported("too many paths in %s" % fi.qualname)
        return live

    # -- helpers ---------------------------------------------------------------
    def note_calls(self, e, st, in_loop=False):
        if e is None:
            return
        for x in walk_no_nested(e):
            if isinstance(x, ast.Call):
                st.calls.append(_Call(x, st.env, in_loop))

    def assign(self, t, v, st):
        if isinstance(t, ast.Name):
            st.env[t.id] = v
        elif isinstance(t, (ast.Tuple, ast.List)):
            if isinstance(v, (ast.Tuple, ast.List)) and len(v.elts) == len(t.elts) and not any(isinstance(e, ast.Starred) for e in t.elts + v.elts):
                for tt, vv in zip(t.elts, v.elts):
                    self.assign(tt, vv, st)
            else:
                for i, tt in enumerate(t.elts):
                    if isinstance(tt, ast.Starred):
                        raise _Unsupported("starred target")
                    self.assign(tt, ast.Subscript(value=copy.deepcopy(v), slice=ast.Constant(value=i), ctx=ast.Load()), st)
        elif isinstance(t, ast.Subscript):
            st.env[norm(ast.Subscript(value=t.value, slice=_sub(t.slice, st.env), ctx=ast.Load()))] = v
        elif isinstance(t, ast.Attribute):
            st.env[norm(t)] = v
        else:
            raise _Unsupported("assignment target %s" % type(t).__name__)

    def callee(self, fi, call):
        """FuncInfo of a private helper that can be followed (same class through self, or same module), else None"""
        f = call.func
        q = None
        if isinstance(f, ast.Attribute) and isinstance(f.value, ast.Name) and f.value.id == "self" and fi.cls:
            q = "%s.%s.%s" % (fi.module.name, fi.cls, f.attr)
        elif isinstance(f, ast.Name):
            q = "%s.%s" % (fi.module.name, f.id)
        g = self.repo.funcs.get(q) if q else None
        if g is None or g.name in self.opaque or g.node is fi.node:
            return None
        if any(isinstance(x, (ast.For, ast.While, ast.Try, ast.With, ast.Yield, ast.YieldFrom)) for x in walk_no_nested(g.node)):
            return None
        if any(p.startswith("*") for p in g.params) or any(isinstance(a, ast.Starred) for a in call.args) or any(k.arg is None for k in call.keywords):
            return None
        return g

    def inline(self, fi, call, st, done, depth):
        """[(state after the call, returned expression)] for a followed helper call"""
        g = self.callee(fi, call)
        st.calls.append(_Call(call, st.env))
        ps = list(g.params)
        if g.cls:
            ps = ps[1:]
        cst = st.fork()
        cst.env = {k: v for k, v in st.env.items() if _is_self_key(k)}
        args = [_sub(a, st.env) for a in call.args]
        if len(args) > len(ps):
            raise _Unsupported("too many arguments for %s" % g.qualname)
        bound = dict(zip(ps, args))
        for k in call.keywords:
            if k.arg not in ps or k.arg in bound:
                raise _Unsupported("keyword %s of %s" % (k.arg, g.qualname))
            bound[k.arg] = _sub(k.value, st.env)
        for p in ps:
            if p not in bound:
                if p not in g.defaults:
                    raise _Unsupported("argument %s of %s missing" % (p, g.qualname))
                bound[p] = copy.deepcopy(g.defaults[p])
        cst.env.update(bound)
        cdone = []
        live = self.block(g, g.node.body, [cst], cdone, depth - 1)
        for c in live:
            c.outcome, c.ret = "return", None
            cdone.append(c)
        out = []
        for c in cdone:
            if c.outcome == "raise":
                done.append(c)
                continue
            n = c.fork()
            n.env = dict(st.env)
            n.env.update({k: v for k, v in c.env.items() if _is_self_key(k)})
            out.append((n, c.ret if c.ret is not None else ast.Constant(value=None)))
        return out

    def decide(self, t, st):
        return eval_test(t, {}, st.known)

    def is_dict(self, fi):
        """the method belongs to a class that derives from the builtin dict and defines neither update nor __setitem__"""
        c = fi.module.classes.get(fi.cls) if fi.cls else None
        if c is None or not any(isinstance(b, ast.Name) and b.id == "dict" for b in c.bases):
            return False
        return not any(isinstance(x, ast.FunctionDef) and x.name in ("update", "__setitem__") for x in c.body)

    # -- statements ------------------------------------------------------------
    def stmt(self, fi, s, st, done, depth):
        if isinstance(s, ast.Expr):
            v = s.value
            if isinstance(v, ast.Call) and depth > 0 and self.callee(fi, v) is not None:
                return [n for n, _ in self.inline(fi, v, st, done, depth)]
            self.note_calls(v, st)
            if isinstance(v, ast.Call) and norm(v.func) == "self.update" and self.is_dict(fi) and not v.args and v.keywords and all(k.arg for k in v.keywords):
                # dict.update(key=value, ...) on an instance of a dict subclass that does not override it: the item stores, in order
                vals = [(k.arg, _sub(k.value, st.env)) for k in v.keywords]
                for k, val in vals:
                    st.env["self[%r]" % k] = val
            return [st]
        if isinstance(s, (ast.Assign, ast.AnnAssign)):
            if s.value is None:
                return [st]
            targets = s.targets if isinstance(s, ast.Assign) else [s.target]
            if isinstance(s.value, ast.Call) and depth > 0 and self.callee(fi, s.value) is not None:
                for a in s.value.args + [k.value for k in s.value.keywords]:
                    self.note_calls(a, st)
                out = []
                for n, r in self.inline(fi, s.value, st, done, depth):
                    for t in targets:
                        self.assign(t, r, n)
                    out.append(n)
                return out
            self.note_calls(s.value, st)
            v = _sub(s.value, st.env)
            for t in targets:
                self.assign(t, v, st)
            return [st]
        if isinstance(s, ast.AugAssign):
            self.note_calls(s.value, st)
            old = _sub(ast.fix_missing_locations(copy.deepcopy(s.target)), st.env) if not isinstance(s.target, ast.Name) else st.env.get(s.target.id, ast.Name(id=s.target.id, ctx=ast.Load()))
            v = ast.BinOp(left=copy.deepcopy(old), op=s.op, right=_sub(s.value, st.env))
            self.assign(s.target, v, st)
            return [st]
        if isinstance(s, ast.If):
            self.note_calls(s.test, st)
            t = _sub(s.test, st.env)
            d = self.decide(t, st)
            if d is True:
                return self.block(fi, s.body, [st], done, depth)
            if d is False:
                return self.block(fi, s.orelse, [st], done, depth)
            a, b = st, st.fork()
            a.conds.append((t, True))
            a.learn(t, True)
            b.conds.append((t, False))
            b.learn(t, False)
            return self.block(fi, s.body, [a], done, depth) + self.block(fi, s.orelse, [b], done, depth)
        if isinstance(s, ast.Return):
            self.note_calls(s.value, st)
            st.outcome = "return"
            st.ret = _sub(s.value, st.env) if s.value is not None else None
            done.append(st)
            return []
        if isinstance(s, ast.Raise):
            st.outcome = "raise"
            done.append(st)
            return []
        if isinstance(s, (ast.For, ast.While)):
            # not followed: everything the loop can assign becomes unknown, the calls inside are remembered as such
            for x in walk_no_nested(s):
                if isinstance(x, ast.Call):
                    st.calls.append(_Call(x, {}, True))
            for x in walk_no_nested(s):
                tg = []
                if isinstance(x, ast.Assign):
                    tg = x.targets
                elif isinstance(x, (ast.AugAssign, ast.AnnAssign)):
                    tg = [x.target]
                elif isinstance(x, ast.For):
                    tg = [x.target]
                for t in tg:
                    for tt in rules._flat_targets(t):
                        if isinstance(tt, ast.Name):
                            st.env[tt.id] = ast.Name(id="<loop:%s>" % tt.id, ctx=ast.Load())
                        elif isinstance(tt, (ast.Attribute, ast.Subscript)):
                            for k in [k for k in st.env if k == norm(tt) or (isinstance(tt, ast.Subscript) and k.startswith(norm(tt.value) + "["))]:
                                st.env[k] = ast.Name(id="<loop:%s>" % k, ctx=ast.Load())
            return [st]
        if isinstance(s, ast.With):
            for it in s.items:
                self.note_calls(it.context_expr, st)
            return self.block(fi, s.body, [st], done, depth)
        if isinstance(s, ast.Delete):
            for t in s.targets:
                st.env.pop(norm(t), None)
            return [st]
        if isinstance(s, (ast.Pass, ast.Import, ast.ImportFrom, ast.Global, ast.Nonlocal, ast.Assert, ast.FunctionDef, ast.ClassDef)):
            return [st]
        raise _Unsupported("statement %s in %s" % (type(s).__name__, fi.qualname))


class _Simp(ast.NodeTransformer):
    """reduce conditional expressions whose test is decided by the case flags"""

    def __init__(self, flags):
        self.flags = flags

    def visit_IfExp(self, n):
        v = eval_test(n.test, self.flags)
        if v is True:
            return self.visit(n.body)
        if v is False:
            return self.visit(n.orelse)
        return self.generic_visit(n)


def _simp(e, flags):
    return None if e is None else _Simp(flags).visit(copy.deepcopy(e))


def _value_cases(e, flags):
    """the values an expression can take, as [(value expression, condition text or None)]: conditional expressions and the
    value forms `a or b` / `a and b` are split on the truth of their test.  A test the flags decide (a parameter known to be
    None) selects one arm; a test they do not decide contributes BOTH arms -- in particular the truth value of a parameter
    that was given: a limit is a number, and the number zero is falsy"""
    if isinstance(e, ast.IfExp):
        t = eval_test(e.test, flags)
        if t is True:
            return _value_cases(e.body, flags)
        if t is False:
            return _value_cases(e.orelse, flags)
        return [(v, _why("`%s` is true" % norm(e.test), w)) for v, w in _value_cases(e.body, flags)] + \
               [(v, _why("`%s` is false" % norm(e.test), w)) for v, w in _value_cases(e.orelse, flags)]
    if isinstance(e, ast.BoolOp) and len(e.values) >= 2:
        first = e.values[0]
        rest = e.values[1] if len(e.values) == 2 else ast.BoolOp(op=e.op, values=e.values[1:])
        t = eval_test(first, flags)
        is_or = isinstance(e.op, ast.Or)
        if t is not None:
            return _value_cases(first if t is is_or else rest, flags)
        falsy = "`%s` is falsy (zero counts as falsy)" % norm(first)
        truthy = "`%s` is truthy" % norm(first)
        return [(v, _why(truthy if is_or else falsy, w)) for v, w in _value_cases(first, flags)] + \
               [(v, _why(falsy if is_or else truthy, w)) for v, w in _value_cases(rest, flags)]
    return [(e, None)]


def _cond_cases(e, flags):
    """the values a (nested) conditional expression can take as [(value, [(test, outcome), ...])], arms that the flags rule out
    left out; None when a value is one of the forms `a or b` / `a and b` (their test is the truth of a value, not a condition)"""
    if isinstance(e, ast.IfExp):
        t = eval_test(e.test, flags)
        if t is not None:
            return _cond_cases(e.body if t else e.orelse, flags)
        a, b = _cond_cases(e.body, flags), _cond_cases(e.orelse, flags)
        if a is None or b is None:
            return None
        return [(v, [(e.test, True)] + c) for v, c in a] + [(v, [(e.test, False)] + c) for v, c in b]
    if isinstance(e, ast.BoolOp):
        return None
    return [(e, [])]


def _why(a, b):
    return a if not b else "%s and %s" % (a, b)


def _consistent(st, flags):
    for t, truth in st.conds:
        v = eval_test(_simp(t, flags), flags)
        if v is not None and v != truth:
            return False
    return True


def _paths(repo, fi, opaque=()):
    """finished paths of fi, or None when the function uses a construct the path executor does not model"""
    try:
        return _PathEx(repo, opaque=opaque).run(fi)
    except (_Unsupported, RecursionError):
        return None


def _verdict(vs):
    """aggregate of per-path / per-case verdicts: violated if one is, else unrecognised if one is, else held"""
    vs = list(vs)
    if any(v is False for v in vs):
        return False
    if not vs or any(v is None for v in vs):
        return None
    return True


def _bind(call, fi, skip_self=None):
    """{parameter name: argument expression} of a recorded call (_Call) against the signature of fi"""
    ps = list(fi.params)
    if fi.cls if skip_self is None else skip_self:
        ps = ps[1:]
    out = {}
    for p, a in zip(ps, call.args):
        out[p] = a
    for k, v in call.kws.items():
        out[k] = v
    return out


def _lin(e):
    """sympy value of an integer size expression; anything that is not + - * or a literal is an atom named by its text"""
    import sympy as sp
    if isinstance(e, ast.Constant) and isinstance(e.value, int) and not isinstance(e.value, bool):
        return sp.Integer(e.value)
    if isinstance(e, ast.BinOp) and isinstance(e.op, (ast.Add, ast.Sub, ast.Mult)):
        a, b = _lin(e.left), _lin(e.right)
        return a + b if isinstance(e.op, ast.Add) else a - b if isinstance(e.op, ast.Sub) else a * b
    if isinstance(e, ast.UnaryOp) and isinstance(e.op, ast.USub):
        return -_lin(e.operand)
    if isinstance(e, ast.Call) and call_name(e) == "len" and len(e.args) == 1:
        return sp.Symbol(norm(e.args[0]) + ".size")
    return sp.Symbol(norm(e))


def _same_size(a, b):
    import sympy as sp
    try:
        return sp.expand(_lin(a) - _lin(b)) == 0
    except Exception:
        return False


INT64 = ("'i8'", "np.int64", "numpy.int64", "'int64'", "'<i8'", "'=i8'")
FLOAT64 = ("'f8'", "np.float64", "numpy.float64", "'float64'", "float", "'d'", "np.double")


def _zeros(e):
    """(size expr, dtype text) of np.zeros(n, dtype=...) / np.zeros(n, 'i8'), else None"""
    if isinstance(e, ast.Call) and call_name(e) == "zeros" and e.args:
        dt = kwarg(e, "dtype") or (e.args[1] if len(e.args) > 1 else None)
        return e.args[0], norm(dt) if dt is not None else None
    return None


def _is_none(e):
    return isinstance(e, ast.Constant) and e.value is None


def _is_name(e, name):
    return isinstance(e, ast.Name) and e.id == name


# ---- the private methods of Binner, found by what they do ------------------------------
# The public surface (histogram, Binner.dohist, Binner.__init__, the module function _dohist that is the Python engine, the
# compiled _chist.chist) and the dict keys / attributes the class publishes ('wsort', 'hist', 'rev', sort_index, dmin, dmax)
# are the handles; the names of the private methods in between are not part of any contract.  A role is given to the one
# method that does what the role is about; when that is not unique the name the method has in the reviewed tree is used.
_ROLE_NAMES = {"engine": "_do_hist", "limits": "_get_minmax_and_indices", "equal": "_hist_by_binsize_or_nbin", "bynum": "_hist_by_num",
               "sortidx": "_get_sort_index", "merge": "_merge_last"}
_role_cache = {}


def _stores(fi, key):
    for x in walk_no_nested(fi.node):
        tg = x.targets if isinstance(x, ast.Assign) else [x.target] if isinstance(x, (ast.AugAssign, ast.AnnAssign)) else []
        for t in tg:
            if any(isinstance(tt, (ast.Attribute, ast.Subscript)) and norm(tt) == key for tt in rules._flat_targets(t)):
                return True
    return False


def _self_calls(fi, name):
    return [x for x in walk_no_nested(fi.node) if isinstance(x, ast.Call) and norm(x.func) == "self." + name]


def method(repo, role):
    """FuncInfo of the Binner method that plays `role` (see above)"""
    key = (id(repo), role)
    if key in _role_cache:
        return _role_cache[key]
    mod = repo.funcs.get(ST + "Binner.dohist")
    ms = [fi for fi in repo.funcs.values() if fi.cls == "Binner" and mod is not None and fi.module is mod.module]
    priv = [fi for fi in ms if fi.name.startswith("_") and not fi.name.startswith("__")]
    found = []
    if role == "engine":
        found = [fi for fi in priv if any(isinstance(x, ast.Call) and ((dotted_name(x.func) or "").endswith(".chist") or call_name(x) == "_dohist") for x in walk_no_nested(fi.node))]
    elif role == "limits":
        found = [fi for fi in priv if _stores(fi, "self['wsort']")]
    elif role == "sortidx":
        found = [fi for fi in priv if _stores(fi, "self.sort_index")]
    elif role in ("equal", "bynum"):
        eng = method(repo, "engine")
        want = "binsize" if role == "equal" else "nperbin"
        for fi in priv:
            if fi is eng or not _self_calls(fi, eng.name) or mod is None:
                continue
            sites = _self_calls(mod, fi.name)
            if sites and all(any(_is_name(a, want) for a in list(c.args) + [k.value for k in c.keywords]) for c in sites):
                found.append(fi)
    elif role == "merge":
        bn = method(repo, "bynum")
        found = [fi for fi in priv if fi is not bn and _self_calls(bn, fi.name) and _stores(fi, "self['rev']")]
    r = found[0] if len(found) == 1 else repo.func(ST + "Binner." + _ROLE_NAMES[role])
    _role_cache[key] = r
    return r


# ---- R05.3 --------------------------------------------------------------------
def abi(chk, repo, cfn):
    fmt, names = parse_tuple_binding(cfn)
    units = parse_tuple_format(fmt or "")
    chk.ob("R05.3", "chist::parse-format", units == ["O", "d", "O", "d", "O", "O"] and len(names) == 6, "esutil/stat/chist_pywrap.c", "PyArg_ParseTuple format %r binds %s" % (fmt, names))
    dh = method(repo, "engine")
    pe = repo.func(ST + "_dohist")
    chk.analysed_unit(dh.qualname)
    paths = _paths(repo, dh, opaque=(pe.name,))
    want = dh.params[1:5]                      # data, dmin, sortind, bsize: the values _do_hist was given
    nbin_p = dh.params[5] if len(dh.params) > 5 else None
    v_c, v_p, v_buf, v_size = [], [], [], []
    v_need, why_need = [], []
    seen = {"c": [], "py": []}
    c_bind = []
    for st in paths or []:
        if st.outcome == "raise":
            continue
        eng = []
        for c in st.calls:
            if c.name.split(".")[-1] == "chist" and "." in c.name:
                eng.append(("c", c, dict(zip(pe.params, c.args)) if not c.kws and len(c.args) == 6 else None))
            elif c.name == pe.name:
                eng.append(("py", c, _bind(c, pe)))
        if len(eng) != 1 or eng[0][1].in_loop:
            v_c.append(None)
            v_p.append(None)
            continue
        kind, c, b = eng[0]
        seen[kind].append(norm(c.value))
        if kind == "c":
            c_bind.append(b)
        if b is None:
            v_c.append(False)                   # the C engine takes exactly six positional arguments (format "OdOdOO")
            continue
        roles = all(p in b for p in pe.params) and all(_is_name(b[p], w) for p, w in zip(pe.params[:4], want))
        (v_c if kind == "c" else v_p).append(bool(roles))
        if not all(p in b for p in pe.params[4:6]):
            continue
        v_need.extend(_rev_when_needed(st, b[pe.params[5]], dh, kind, why_need))
        h, r = _zeros(b[pe.params[4]]), (None if _is_none(b[pe.params[5]]) else _zeros(b[pe.params[5]]))
        if h is None or (r is None and not _is_none(b[pe.params[5]])):
            v_buf.append(None)
            continue
        v_buf.append(h[1] in INT64 and _is_name(h[0], nbin_p) and (r is None or r[1] in INT64))
        if r is not None:
            v_size.append(_same_size(r[0], ast.parse("%s.size + %s + 1" % (want[2], nbin_p), mode="eval").body))
    chk.ob("R05.3", "Binner._do_hist::positional-call", _verdict(v_c), dh.where(), "chist(data, min, sort index, binsize, hist, rev) matches the parse order (%s)" % sorted(set(seen["c"])))
    chk.ob("R05.3", "Binner._do_hist::python-engine-same-roles", _verdict(v_p), dh.where(), "the Python engine receives the same six values in the same roles (%s)" % sorted(set(seen["py"])))
    # element types read/written by the C engine
    # (the element type an array is read / written with: the pointee type of every cast, and of every pointer local, that
    # points into the array's buffer -- directly, through the strides, or through a pointer derived from it)
    casts, unknown = c_element_types(cfn, names)
    wantc = {names[0]: {"double*"}, names[2]: {"npy_int64*"}, names[4]: {"npy_int64*"}, names[5]: {"npy_int64*"}} if len(names) == 6 else {}
    # violated: an array is accessed through a pointer of another element type; held: every array is accessed, and only with its
    # own element type; otherwise (an access that was not found, a pointer whose array could not be established): not recognised
    wrong = {o: sorted(t - wantc.get(o, set())) for o, t in casts.items() if t - wantc.get(o, set())}
    ok = False if wrong else (True if casts == wantc and not unknown else None)
    chk.ob("R05.3", "chist::element-casts", ok, "esutil/stat/chist_pywrap.c:%s" % cfn.get("line", 1),
           "C reads data as double and sort index / hist / rev as 64-bit integers (%s%s)" % ({k: sorted(v) for k, v in casts.items()}, "; not resolved: %s" % unknown if unknown else ""))
    # bare-pointer element access only on arrays that are contiguous on every path
    layout(chk, repo, cfn, names, units, dh, pe, c_bind if paths is not None else [None])
    # python-side dtype provenance of the buffers that reach the engines
    chk.ob("R05.3", "Binner._do_hist::int64-out-buffers", _verdict(v_buf), dh.where(), "hist (nbin) and rev reach the engines as freshly zeroed int64 arrays")
    chk.ob("R05.3", "Binner._do_hist::rev-size", _verdict(v_size), dh.where(), "rev has nbin+1 offsets followed by one slot per sorted datum")
    vn = _verdict(v_need)
    chk.ob("R05.3", "Binner._do_hist::reverse-indices-whenever-needed", vn, dh.where(),
           "%sboth engines are handed a reverse-index array whenever reverse indices are needed -- the caller asked for them, or weights are present (the weighted histogram is summed "
           "over them and 'rev' is part of the result then) -- so the engines return the same arrays in every configuration" % ("; ".join(sorted(set(why_need))[:2]) + " -- rule: " if vn is False and why_need else ""))
    init = repo.func(ST + "Binner.__init__")
    # the value that reaches the cell self.x on every path that returns, private conversion helpers followed
    vs, seen_x = [], set()
    for st in _paths(repo, init) or [None]:
        if st is None:
            vs.append(None)
            continue
        if st.outcome == "raise":
            continue
        v = st.env.get("self.x")
        if v is None:
            vs.append(None)
            continue
        seen_x.add(norm(v))
        dt = _converted(v)
        if dt is not None and _is_name(dt[1], init.params[1]):
            # converted to float64: held; to another literal dtype: violated; to a dtype computed elsewhere: not recognised
            vs.append(True if norm(dt[0]) in FLOAT64 else (False if _dtype_literal(dt[0]) else None))
        elif dt is None and _is_name(_unwrapped(v), init.params[1]):
            vs.append(False)                           # the caller's values as they are (whatever their dtype): no conversion at all
        else:
            vs.append(None)
    chk.ob("R05.3", "Binner.__init__::data-is-float64", _verdict(vs), init.where(), "the binned data are converted to float64 (matches the C double read): %s" % sorted(seen_x))
    si = method(repo, "sortidx")
    # every argsort that can produce the sort index: the calls in the values that reach the cell on some path (helpers followed,
    # their parameters replaced by what they are called with), and the calls written in the method itself
    srt = [x for x in walk_no_nested(si.node) if isinstance(x, ast.Call) and call_name(x) == "argsort"]
    for st in _paths(repo, si) or []:
        v = st.env.get("self.sort_index") if st.outcome != "raise" else None
        if v is not None:
            srt += [x for x in ast.walk(v) if isinstance(x, ast.Call) and call_name(x) == "argsort" and norm(x) not in {norm(y) for y in srt}]
    # held: there is one and every one is a stable argsort of the data; violated: one of them is not; none found: not recognised
    ok = (all(_stable_argsort(x) for x in srt) and True) if srt else None
    chk.ob("R05.4", "Binner._get_sort_index::stable-argsort", ok, si.where(), "the sort index is a stable argsort of the data (ties keep original order): %s" % sorted({norm(x) for x in srt}))
    sort_index_values(chk, repo, si)
    # the two callers of _do_hist pass float64 data and an int64 sort index
    engine_callers(chk, repo, dh)


class _Unbool(ast.NodeTransformer):
    """bool(x) in a test is the truth of x"""

    def visit_Call(self, n):
        self.generic_visit(n)
        if isinstance(n.func, ast.Name) and n.func.id == "bool" and len(n.args) == 1 and not n.keywords:
            return n.args[0]
        return n


def _rev_when_needed(st, revarg, dh, kind, why):
    """per-path verdicts of R05.3 reverse-indices-whenever-needed for the path st of the engine dispatcher, whose one engine
    call (kind 'c' / 'py') receives `revarg` as the reverse-index array.  The need is a function of two inputs: the truth of
    the dispatcher's rev parameter and whether the public cell self.weights is None.  For each of the three configurations in
    which reverse indices are needed the path's branch decisions are evaluated (three-valued): a path that hands the engine None
    and whose decisions on rev / self.weights all come out as taken in that configuration is a violation; a decision on them that
    cannot be evaluated gives no verdict; decisions on anything else (which engine is available) do not depend on the
    configuration and are left alone."""
    rev_p = dh.params[6] if len(dh.params) > 6 else None
    if rev_p is None:
        return [None]
    if isinstance(revarg, ast.IfExp):
        # a conditional value: each arm, with the tests that select it added to the path's decisions
        cases = _cond_cases(revarg, {})
        if cases is None:
            return [None]
        out = []
        for v, cs in cases:
            t = st.fork()
            t.conds = list(st.conds) + list(cs)
            out.extend(_rev_when_needed(t, v, dh, kind, why))
        return out
    if not _is_none(revarg):
        return [True if _zeros(revarg) is not None else None]
    out = []
    for rv, w, text in ((True, NOTNONE, "%s is true and weights are present" % rev_p), (True, None, "%s is true" % rev_p), (False, NOTNONE, "weights are present and %s is false" % rev_p)):
        flags = {rev_p: rv, "self.weights": w}
        verdict = False
        for t, truth in st.conds:
            names = {norm(x) for x in ast.walk(t) if isinstance(x, (ast.Name, ast.Attribute))}
            if not names & {rev_p, "self.weights"}:
                continue
            v = eval_test(_Unbool().visit(copy.deepcopy(t)), flags)
            if v is None:
                verdict = None
            elif v != truth:
                verdict = True                     # the path is not taken in this configuration
                break
        out.append(verdict)
        if verdict is False:
            why.append("when %s the %s engine is called with no reverse-index array (rev argument None on the path where %s)"
                       % (text, "compiled" if kind == "c" else "pure-Python", " and ".join("`%s` is %s" % (norm(t), truth) for t, truth in st.conds) or "no test is made"))
    return out


# element types that are the same object representation on the assumed platform (LP64): spelled one way for the comparison
_C_SAME_ELEM = {"int64_t": "npy_int64", "long": "npy_int64", "longlong": "npy_int64", "npy_intp": "npy_int64", "npy_longlong": "npy_int64", "npy_long": "npy_int64",
                "Py_ssize_t": "npy_int64", "ssize_t": "npy_int64", "signedlong": "npy_int64", "longint": "npy_int64", "npy_float64": "double", "npy_double": "double"}


def c_element_types(cfn, names):
    """({array object: {element pointer types it is accessed through}}, [pointer casts / locals whose array is not known])"""
    casts, unknown = {}, []
    model = c_pointer_model(cfn)
    if model is None:
        return casts, ["the pointer locals of the function"]
    stmts, cp = model
    known = set(names) | set(cp.alias) | set(cp.ptrs)
    for x in cfront.walk(_c_compound(stmts)):
        if x.get("kind") == "CStyleCastExpr":
            pt = _c_pointee(x.get("type", {}).get("qualType"))
            if pt is None or pt in _C_BYTE_POINTEES or pt in ("PyArrayObject", "PyObject", "PyArrayObject_fields"):
                continue
            try:
                v = cp.pval(x, probe=True)
            except NotImplementedError:
                v = None
            pt = _C_SAME_ELEM.get(pt, pt)
            if v is not None:
                casts.setdefault(v.arr, set()).add(pt + "*")
            elif _c_refs(x) & known:
                unknown.append("(%s *) at line %s" % (pt, x.get("line")))
    for nm in sorted(cp.ptrs):
        pt = _c_pointee(cp.types.get(nm))
        if pt is None or pt in _C_BYTE_POINTEES:
            continue
        pt = _C_SAME_ELEM.get(pt, pt)
        if nm in cp.simple:
            casts.setdefault(cp.simple[nm].arr, set()).add(pt + "*")
        elif nm in cp.pvar:
            casts.setdefault(cp.pvar[nm][0], set()).add(pt + "*")
        elif [d for d in cp.defs.get(nm, []) if not _c_is_null(d)]:
            unknown.append("pointer `%s`" % nm)
    return casts, unknown


# ---- R05.3 memory layout ---------------------------------------------------------
# An element of a numpy array can be addressed in C in two ways: through the strides (PyArray_GETPTR1, i.e.
# PyArray_BYTES(a) + i * PyArray_STRIDES(a)[0]), right for every layout, or through the bare buffer pointer
# (((T *) PyArray_DATA(a))[i]), right only when the array is C-contiguous.  Necessary condition of "the compiled engine
# bins the data": every array the engine addresses through the bare pointer is, on every path from the public entry points,
# a freshly allocated contiguous array -- never (a view of) an array supplied by the caller.
_C_DATA_FUNCS = ("PyArray_DATA", "PyArray_BYTES")
_C_STRIDE_FUNCS = ("PyArray_STRIDES", "PyArray_STRIDE")
_C_LAYOUT_AWARE = ("PyArray_GETCONTIGUOUS", "PyArray_ContiguousFromAny", "PyArray_ContiguousFromObject", "PyArray_FROM_OTF", "PyArray_FROM_OF", "PyArray_FROM_OT",
                   "PyArray_FROMANY", "PyArray_FromAny", "PyArray_CheckFromAny", "PyArray_FromArray", "PyArray_NewCopy", "PyArray_Copy", "PyArray_ISCONTIGUOUS",
                   "PyArray_IS_C_CONTIGUOUS", "PyArray_ISCARRAY", "PyArray_ISCARRAY_RO", "PyArray_ISONESEGMENT", "PyArray_CHKFLAGS", "PyArray_FLAGS")


def _c_bases(e, objs):
    """{array object: set of 'data' / 'strides'} for the accessor calls on the engine's array arguments inside expression e"""
    out = {}
    for x in cfront.walk(e):
        if x.get("kind") == "CallExpr" and len(x.get("inner", []) or []) >= 2:
            f = cfront.callee_name(x)
            a = cfront.strip(x["inner"][1])
            nm = a.get("referencedDecl", {}).get("name") if a.get("kind") == "DeclRefExpr" else None
            if nm in objs:
                if f in _C_DATA_FUNCS:
                    out.setdefault(nm, set()).add("data")
                elif f in _C_STRIDE_FUNCS:
                    out.setdefault(nm, set()).add("strides")
    return out


def c_array_access(cfn, objs):
    """how the C function addresses the elements of its array arguments:
    {object name: {'strided': [line], 'raw': [(text, line)], 'unknown': [(text, line)], 'aware': [callee]}}
    Decided on the pointer typing of the function's locals (_CPtr): an access through a pointer counted in elements is a
    bare-buffer access, one through a pointer counted in strides of the array is stride aware, whichever way the pointer
    was obtained (accessor macro, hoisted base pointer and stride, stepped pointer)."""
    model = c_pointer_model(cfn)
    if model is None:
        return _c_array_access_syntactic(cfn, objs)
    stmts, cp = model
    acc = {o: {"strided": [], "raw": [], "unknown": [], "aware": []} for o in objs}

    def arrays_in(e):
        out = set()
        for r in _c_refs(e):
            a = cp.root(r)
            if a is None and r in cp.simple:
                a = cp.simple[r].arr
            if a is None and r in cp.pvar:
                a = cp.pvar[r][0]
            if a in acc:
                out.add(a)
        return out

    def access(addr, line, index=None):
        u = _cu(addr)
        if u.get("kind") == "UnaryOperator" and u.get("opcode") in ("++", "--"):
            addr = u["inner"][0]
        try:
            v = cp.pval(addr, probe=True)
        except NotImplementedError:
            v = None
        if v is not None and v.arr in acc:
            if v.unit == "stride" and (index is None or _c_is_lit(index, 0)):
                acc[v.arr]["strided"].append(line)
            elif v.unit in ("elem", "base"):
                acc[v.arr]["raw"].append(("`%s`" % cfront.render(addr)[:60], line))
            else:
                acc[v.arr]["unknown"].append(("`%s`" % cfront.render(addr)[:60], line))
            return
        for a in arrays_in(addr):
            acc[a]["unknown"].append(("`%s`" % cfront.render(addr)[:60], line))
    for x in cfront.walk(_c_compound(stmts)):
        k = x.get("kind")
        if k == "UnaryOperator" and x.get("opcode") == "*":
            access(x["inner"][0], x.get("line"))
        elif k == "ArraySubscriptExpr":
            b = _cu(x["inner"][0])
            if b.get("kind") == "CallExpr" and cfront.callee_name(b) not in _C_DATA_FUNCS:
                continue                               # PyArray_STRIDES(a)[0] / PyArray_DIMS(a)[0]: not an element access
            access(x["inner"][0], x.get("line"), x["inner"][1])
        elif k == "CallExpr":
            f = cfront.callee_name(x) or ""
            for a in (x.get("inner", []) or [])[1:]:
                nm = _c_name(cfront.strip(a))
                o = cp.root(nm) if nm else None
                if o in acc and f in _C_LAYOUT_AWARE:
                    acc[o]["aware"].append(f)
                elif nm and (nm in cp.simple or nm in cp.pvar or (nm in cp.ptrs and arrays_in(a))) and not f.startswith(("Py", "_Py", "Npy", "npy_")):
                    # the pointer is handed to a helper, which indexes it
                    o, unit = (cp.simple[nm].arr, cp.simple[nm].unit) if nm in cp.simple else (cp.pvar[nm][0], cp.pvar[nm][1]) if nm in cp.pvar else (None, None)
                    if o in acc:
                        acc[o]["raw" if unit == "elem" else "unknown"].append(("pointer `%s` passed to %s()" % (nm, f), x.get("line")))
    # pointer locals that hold something derived from an array but could not be typed
    for nm in sorted(cp.ptrs - set(cp.simple) - set(cp.pvar)):
        for d in cp.defs.get(nm, []):
            for a in arrays_in(d):
                acc[a]["unknown"].append(("pointer `%s`" % nm, d.get("line")))
    return acc


def _c_array_access_syntactic(cfn, objs):
    """fallback of c_array_access when the function cannot be desugared: accessor calls found in the address expressions"""
    body = cfront.body_of(cfn)
    acc = {o: {"strided": [], "raw": [], "unknown": [], "aware": []} for o in objs}
    types = {x["name"]: x.get("type", {}).get("qualType", "") for x in cfront.walk(cfn) if x.get("kind") in ("VarDecl", "ParmVarDecl") and x.get("name")}
    # pointer variables derived from the arrays: name -> (object, 'raw' | 'elem' | 'unknown')
    defs = []
    for x in cfront.walk(body):
        if x.get("kind") == "BinaryOperator" and x.get("opcode") == "=":
            l = cfront.strip(x["inner"][0])
            if l.get("kind") == "DeclRefExpr" and "*" in types.get(l["referencedDecl"].get("name"), ""):
                defs.append((l["referencedDecl"]["name"], x["inner"][1]))
        elif x.get("kind") == "VarDecl" and "*" in x.get("type", {}).get("qualType", ""):
            init = [c for c in x.get("inner", []) or [] if isinstance(c, dict) and c.get("kind")]
            if init:
                defs.append((x["name"], init[-1]))
    ptr = {}
    for _ in range(4):
        for nm, rhs in defs:
            b = _c_bases(rhs, objs)
            kinds = set()
            for o, k in b.items():
                if "data" in k:
                    kinds.add((o, "elem" if "strides" in k else "raw"))
            for r in _c_refs(rhs):
                if r in ptr and r != nm:
                    kinds.add((ptr[r][0], "raw" if ptr[r][1] == "raw" else "unknown"))
            if len(kinds) == 1:
                ptr.setdefault(nm, kinds.pop())
            elif kinds:
                ptr[nm] = (sorted(kinds)[0][0], "unknown")

    def note(e, how, line):
        """e: the address expression of one element access (operand of * / base of [])"""
        for o, k in _c_bases(e, objs).items():
            if "data" in k:
                (acc[o]["strided"] if "strides" in k else acc[o]["raw"]).append(line if "strides" in k else ("%s(%s)" % ("PyArray_DATA", o), line))
        for r in _c_refs(e):
            if r in ptr:
                o, kind = ptr[r]
                if kind == "raw":
                    acc[o]["raw"].append(("pointer `%s`" % r, line))
                elif kind == "elem" and how in ("deref", "zero"):
                    acc[o]["strided"].append(line)
                else:
                    acc[o]["unknown"].append(("pointer `%s`" % r, line))
    for x in cfront.walk(body):
        k = x.get("kind")
        if k == "UnaryOperator" and x.get("opcode") == "*":
            note(x["inner"][0], "deref", x.get("line"))
        elif k == "ArraySubscriptExpr":
            base, idx = x["inner"][0], cfront.strip(x["inner"][1])
            if _c_bases(base, objs) and not any("data" in v for v in _c_bases(base, objs).values()):
                continue                               # PyArray_STRIDES(a)[0] / PyArray_DIMS(a)[0]: not an element access
            note(base, "zero" if idx.get("kind") == "IntegerLiteral" and str(idx.get("value")) == "0" else "index", x.get("line"))
        elif k == "CallExpr":
            f = cfront.callee_name(x) or ""
            for a in (x.get("inner", []) or [])[1:]:
                u = cfront.strip(a)
                nm = u.get("referencedDecl", {}).get("name") if u.get("kind") == "DeclRefExpr" else None
                if nm in objs and f in _C_LAYOUT_AWARE:
                    acc[nm]["aware"].append(f)
                elif nm in ptr and not f.startswith(("Py", "_Py", "Npy", "npy_")):
                    # the pointer is handed to a helper, which indexes it
                    o, kind = ptr[nm]
                    acc[o]["raw" if kind == "raw" else "unknown"].append(("pointer `%s` passed to %s()" % (nm, f), x.get("line")))
    return acc


_NP = ("np", "numpy")
_FRESH_FUNCS = ("zeros", "ones", "empty", "full", "arange", "linspace", "ascontiguousarray", "argsort", "copy", "zeros_like", "ones_like", "empty_like",
                "where", "nonzero", "flatnonzero", "concatenate", "sort", "cumsum", "searchsorted", "digitize", "bincount", "unique")
_VIEW_FUNCS = ("atleast_1d", "asarray", "asanyarray", "ravel", "squeeze", "reshape", "view", "array")


def _index_is_array(i):
    """the subscript is an index array / boolean mask (the result of the indexing is then a new array)"""
    if isinstance(i, (ast.Compare, ast.List)):
        return True
    if isinstance(i, ast.BinOp) and isinstance(i.op, (ast.BitAnd, ast.BitOr)):
        return True
    if isinstance(i, ast.UnaryOp) and isinstance(i.op, ast.Invert):
        return True
    if isinstance(i, ast.Subscript) and isinstance(i.value, ast.Call) and call_name(i.value) in ("where", "nonzero"):
        return True
    if isinstance(i, ast.Call) and call_name(i) in ("flatnonzero", "argsort", "arange", "logical_and", "logical_or", "logical_not", "isfinite"):
        return True
    return False


def fresh_contiguous(e, user, cell, depth=0):
    """True: e is a newly allocated C-contiguous 1-d array whatever its inputs are; False: e can be the caller's array object
    itself (or a view of it) with arbitrary strides; None: not known.  user: the names that hold caller supplied objects;
    cell(key) -> list of verdicts for the values stored in the instance cell `self.<attr>` / `self[<key>]`"""
    def comb(vs):
        vs = list(vs)
        return False if any(v is False for v in vs) else (None if not vs or any(v is None for v in vs) else True)
    if e is None or depth > 6:
        return None
    if isinstance(e, (ast.IfExp, ast.BoolOp)):
        return comb(fresh_contiguous(v, user, cell, depth + 1) for v, _ in _value_cases(e, {}))
    if isinstance(e, ast.Name):
        return False if e.id in user else None
    if isinstance(e, (ast.Attribute, ast.Subscript)) and norm(e).startswith(("self.", "self[")) and not (isinstance(e, ast.Subscript) and isinstance(e.slice, ast.Slice)):
        k = norm(e)
        if isinstance(e, ast.Attribute) or (isinstance(e.value, ast.Name) and isinstance(e.slice, ast.Constant)):
            return comb(cell(k))
    if isinstance(e, ast.Subscript):
        if isinstance(e.slice, ast.Slice):
            b = fresh_contiguous(e.value, user, cell, depth + 1)
            if b is False or (e.slice.step is not None and const_value(e.slice.step) != 1):
                return False                                    # a strided view
            return b
        return True if _index_is_array(e.slice) else None
    if isinstance(e, ast.Call):
        f = e.func
        nm = call_name(e)
        is_np = isinstance(f, ast.Attribute) and norm(f.value) in _NP
        recv = e.args[0] if is_np and e.args else (f.value if isinstance(f, ast.Attribute) and not is_np else None)
        cp = kwarg(e, "copy")
        if nm == "astype" and not is_np:
            if kwarg(e, "order") is not None or kwarg(e, "subok") is not None:
                return None
            if len(e.args) >= 5:
                cp = e.args[4]
            if cp is None or const_value(cp) is True:
                return True                                     # astype copies by default
            return fresh_contiguous(recv, user, cell, depth + 1)   # copy=False: the very same array when the dtype already matches
        if nm == "array" and is_np:
            if kwarg(e, "order") is not None or kwarg(e, "subok") is not None:
                return None
            if cp is None or const_value(cp) is True:
                return True
            return fresh_contiguous(recv, user, cell, depth + 1)
        if nm == "copy" and not e.args and not is_np or nm in _FRESH_FUNCS and (is_np or nm in ("argsort", "cumsum", "nonzero", "searchsorted")):
            return True
        if nm in _VIEW_FUNCS or nm == "require":
            if nm == "require" and any(norm(x).find("'C'") >= 0 or norm(x).find("C_CONTIGUOUS") >= 0 for x in list(e.args[1:]) + [k.value for k in e.keywords]):
                return True
            return fresh_contiguous(recv, user, cell, depth + 1)
        return None
    if isinstance(e, ast.BinOp):
        return True                                              # arithmetic on arrays allocates its result
    return None


def layout(chk, repo, cfn, names, units, dh, pe, c_bindings):
    """R05.3 chist::layout::<role>: bare-pointer element access in C only on arrays that are fresh and contiguous on every path"""
    objs = [n for n, u in zip(names, units) if u == "O"]
    acc = c_array_access(cfn, set(objs))
    cls = dh.cls
    methods = [fi for q, fi in repo.funcs.items() if fi.cls == cls and fi.module is dh.module]
    pcache = {}

    def paths_of(fi):
        if fi.qualname not in pcache:
            pcache[fi.qualname] = _paths(repo, fi, opaque=(dh.name, pe.name, _merge_name(repo)))
        return pcache[fi.qualname]
    busy = set()

    def cell(key):
        """verdicts for every value a method of the class stores into the cell"""
        if key in busy:
            return []
        busy.add(key)
        try:
            out = []
            for fi in methods:
                tg = []
                for x in walk_no_nested(fi.node):
                    if isinstance(x, ast.Assign):
                        tg += [t for t0 in x.targets for t in rules._flat_targets(t0)]
                    elif isinstance(x, (ast.AugAssign, ast.AnnAssign)):
                        tg.append(x.target)
                if not any(isinstance(t, (ast.Attribute, ast.Subscript)) and norm(t) == key for t in tg):
                    continue
                ps = paths_of(fi)
                if ps is None:
                    out.append(None)
                    continue
                user = set(fi.params[1:]) if not fi.name.startswith("_") or fi.name.startswith("__") else set()
                for st in ps:
                    v = st.env.get(key)
                    if st.outcome == "raise" or v is None or _is_none(v):
                        continue
                    r = fresh_contiguous(v, user, cell)
                    if r is False:
                        shown.add("%s = %s  (%s)" % (key, norm(v), fi.name))
                    out.append(r)
            return out
        finally:
            busy.discard(key)

    def through_callers(param):
        """verdicts for the values the class's methods pass for `param` of the engine wrapper"""
        out = []
        for fi in methods:
            if fi.node is dh.node or not any(isinstance(x, ast.Call) and norm(x.func) == "self." + dh.name for x in ast.walk(fi.node)):
                continue
            ps = paths_of(fi)
            if ps is None:
                out.append(None)
                continue
            for st in ps:
                if st.outcome == "raise":
                    continue
                for c in st.calls:
                    if c.name == "self." + dh.name:
                        b = _bind(c, dh)
                        if param not in b:
                            out.append(None)
                            continue
                        user = set(fi.params[1:]) if not fi.name.startswith("_") else set()
                        r = fresh_contiguous(b[param], user, cell)
                        if r is False:
                            shown.add("%s=%s  (%s)" % (param, norm(b[param]), fi.name))
                        out.append(r)
        return out or [None]
    for k, obj in enumerate(names):
        if k >= len(units) or units[k] != "O" or k >= len(pe.params):
            continue
        role = pe.params[k]
        a = acc[obj]
        key = "chist::layout::%s" % role
        where = "esutil/stat/chist_pywrap.c"
        if not a["raw"]:
            if a["strided"] and not a["unknown"]:
                chk.ob("R05.3", key, True, where, "the C engine addresses `%s` through its strides (right for every memory layout)" % obj)
            else:
                chk.ob("R05.3", key, None, where, "how the C engine addresses the elements of `%s` (%s)" % (obj, a["unknown"] or "no element access found"))
            continue
        shown = set()
        vs = []
        for b in c_bindings:
            e = b.get(role) if b else None
            if e is None:
                vs.append(None)
            elif isinstance(e, ast.Name) and e.id in dh.params:
                vs.extend(through_callers(e.id))
            elif _is_none(e):
                continue
            else:
                vs.append(fresh_contiguous(e, set(), cell))
        v = _verdict(vs) if vs else None
        if v is False and a["aware"]:
            v = None                                             # the C side inspects / converts the layout itself: not modelled
        how = "%s at line %s" % a["raw"][0]
        if v is False:
            chk.ob("R05.3", key, False, where, "the C engine addresses the elements of `%s` through the bare buffer pointer (%s), which is only right for a C-contiguous array, "
                   "but the array that reaches it can be the caller's own array (or a view of it) with arbitrary strides: %s -- a strided view or a record-array field is then "
                   "binned from neighbouring memory; use the stride-aware PyArray_GETPTR1 or make a contiguous copy" % (obj, how, "; ".join(sorted(shown)) or "?"))
        else:
            chk.ob("R05.3", key, v, where, "`%s` is addressed through the bare buffer pointer (%s); every array that reaches it is freshly allocated and contiguous" % (obj, how))


def _converted(e):
    """(dtype expression, source expression) of an array conversion whose result has that dtype whatever the keywords that only
    steer copying are: X.astype(T[, copy=..]) / np.asarray(X, dtype=T) / np.array(X, dtype=T, ...) / np.ascontiguousarray(X, dtype=T) /
    np.require(X, T, ...), looking through np.atleast_1d / ravel on either side; else None"""
    if not isinstance(e, ast.Call):
        return None
    f, nm = e.func, call_name(e)
    is_np = isinstance(f, ast.Attribute) and norm(f.value) in _NP

    def src(x):
        while isinstance(x, ast.Call) and call_name(x) in ("atleast_1d", "ravel", "asarray", "asanyarray") and \
                ((isinstance(x.func, ast.Attribute) and norm(x.func.value) in _NP and len(x.args) == 1 and not x.keywords) or (call_name(x) == "ravel" and not x.args)):
            x = x.args[0] if x.args else x.func.value
        return x
    if nm == "astype" and not is_np and isinstance(f, ast.Attribute):
        t = e.args[0] if e.args else kwarg(e, "dtype")
        if t is None or len(e.args) > 1 or any(k.arg not in ("dtype", "copy") for k in e.keywords):
            return None
        return t, src(f.value)
    if is_np and nm in ("asarray", "array", "ascontiguousarray", "asanyarray", "require") and e.args:
        t = kwarg(e, "dtype") or (e.args[1] if len(e.args) > 1 else None)
        if t is None or any(k.arg not in ("dtype", "copy", "ndmin", "requirements") for k in e.keywords):
            return None
        return t, src(e.args[0])
    if is_np and nm in ("atleast_1d", "ravel") and len(e.args) == 1 and not e.keywords:
        return _converted(e.args[0])
    if not is_np and nm == "ravel" and isinstance(f, ast.Attribute) and not e.args and not e.keywords:
        return _converted(f.value)
    return None


def _dtype_literal(t):
    """the dtype is written out: a string, np.<type>, or a builtin type name"""
    return (isinstance(t, ast.Constant) and isinstance(t.value, str)) or (isinstance(t, ast.Attribute) and norm(t.value) in _NP) or \
        (isinstance(t, ast.Name) and t.id in ("int", "float", "bool", "complex"))


def _unwrapped(e):
    """the array behind calls that neither convert nor copy: np.atleast_1d(X) / np.asarray(X) / np.asanyarray(X) / X.ravel() / np.ravel(X) / np.squeeze(X)"""
    while isinstance(e, ast.Call) and not e.keywords and isinstance(e.func, ast.Attribute):
        nm = e.func.attr
        if norm(e.func.value) in _NP and nm in ("atleast_1d", "asarray", "asanyarray", "ravel", "squeeze") and len(e.args) == 1:
            e = e.args[0]
        elif nm in ("ravel", "squeeze") and not e.args:
            e = e.func.value
        else:
            break
    return e


def _stable_argsort(c):
    """x.argsort(kind='stable') / np.argsort(x, kind='stable') of the binned data self.x"""
    if not (isinstance(c, ast.Call) and call_name(c) == "argsort"):
        return False
    k = kwarg(c, "kind")
    if k is None or norm(k) not in ("'stable'", "'mergesort'"):
        return False
    if isinstance(c.func, ast.Attribute) and norm(c.func.value) in ("np", "numpy"):
        return len(c.args) == 1 and norm(c.args[0]) == "self.x"
    return isinstance(c.func, ast.Attribute) and norm(c.func.value) == "self.x" and not c.args


DERIVE_NBIN = ("np.int64((self.dmax - self.dmin) / _B) + 1", "int((self.dmax - self.dmin) / _B) + 1", "numpy.int64((self.dmax - self.dmin) / _B) + 1")
DERIVE_BSIZE = ("float(self.dmax - self.dmin) / _N", "(self.dmax - self.dmin) / float(_N)", "np.float64(self.dmax - self.dmin) / _N")


def engine_callers(chk, repo, dh):
    # ---- the binsize / nbin histogram -------------------------------------------------
    fi = method(repo, "equal")
    chk.analysed_unit(fi.qualname)
    paths = _paths(repo, fi, opaque=(dh.name, "_dohist"))
    bs_p, nb_p = fi.params[1], fi.params[2]
    v_args, v_nbin, v_bsize, v_store = [], [], [], []
    v_kept, why_kept = [], []
    shown = {}
    for bs, nb in ((NOTNONE, NOTNONE), (NOTNONE, None), (None, NOTNONE)):
        flags = {bs_p: bs, nb_p: nb}
        sts = [st for st in paths or [] if st.outcome != "raise" and _consistent(st, flags)]
        if not sts:
            for v in (v_args, v_nbin, v_bsize, v_store):
                v.append(None)
        for st in sts:
            cs = [c for c in st.calls if c.name == "self." + dh.name]
            if len(cs) != 1 or cs[0].in_loop:
                v_args.append(None)
                continue
            b = {k: _simp(v, flags) for k, v in _bind(cs[0], dh).items()}
            d = dh.params
            v_args.append(all(p in b for p in d[1:6]) and [norm(b[p]) for p in d[1:4]] == ["self.x", "self.dmin", "self['wsort']"] if all(p in b for p in d[1:6]) else None)
            if not all(p in b for p in d[4:6]):
                continue
            bsz, nbn = b[d[4]], b[d[5]]
            shown[(bs is None, nb is None)] = (norm(bsz), norm(nbn))
            if bs is not None:
                v_bsize.append(True if _is_name(bsz, bs_p) else None)
                m = [pat.match(p, nbn) for p in DERIVE_NBIN]
                v_nbin.append(True if any(x is not None and _is_name(x["_B"], bs_p) for x in m) else _derive_contra(nbn))
            else:
                v_nbin.append(True if _is_name(nbn, nb_p) else None)
                m = [pat.match(p, bsz, commutative=False) for p in DERIVE_BSIZE]
                v_bsize.append(True if any(x is not None and _is_name(x["_N"], nb_p) for x in m) else _derive_contra(bsz))
            # the half of the bin specification the caller gave reaches the engine as given (value flow, per path and per case)
            for given, par, got, what in ((bs, bs_p, bsz, "bin size"), (nb, nb_p, nbn, "bin count")):
                if given is None or (bs is not None and nb is not None):
                    continue                          # (both given: which one wins is the public wrapper's business, histogram::nbin-overrides-binsize)
                k = _given_kept(got, par)
                v_kept.append(k)
                if k is False:
                    why_kept.append("with %s= given (and no %s) the %s that reaches the engine is `%s`, a value recomputed from the data range (max - min), not the caller's `%s`%s"
                                    % (par, "nbin" if par == bs_p else "binsize", what, norm(got)[:160], par,
                                       ": trunc((max-min)/((max-min)/nbin)) + 1 is nbin + 1 -- one bin too many, and the data equal to the upper limit (bin index nbin, not a valid bin) "
                                       "are counted in it" if par == nb_p and any(pat.match(p, got) is not None for p in DERIVE_NBIN) else ""))
            e = {k: _simp(v, flags) for k, v in st.env.items() if k.startswith("self[")}
            call = cs[0].value
            okst = "self['binsize']" in e and pat.same(e["self['binsize']"], bsz) and "self['nbin']" in e and pat.same(e["self['nbin']"], nbn) and \
                "self['hist']" in e and pat.same(e["self['hist']"], ast.Subscript(value=call, slice=ast.Constant(value=0), ctx=ast.Load()))
            if "self['rev']" in e:
                okst = okst and pat.same(e["self['rev']"], ast.Subscript(value=call, slice=ast.Constant(value=1), ctx=ast.Load()))
            v_store.append(bool(okst))
    chk.ob("R05.3", "_hist_by_binsize_or_nbin::engine-arguments", _verdict(v_args), fi.where(), "engine called with (self.x, self.dmin, self['wsort'], binsize, nbin)")
    chk.ob("R05.5", "derive::nbin-from-binsize", _verdict(v_nbin), fi.where(), "nbin = trunc((max-min)/binsize) + 1 (the largest datum maps to the last bin): %s" % (shown,))
    chk.ob("R05.5", "derive::binsize-from-nbin", _verdict(v_bsize), fi.where(), "binsize = (max-min)/nbin: %s" % (shown,))
    chk.ob("R05.5", "derive::results-stored", _verdict(v_store), fi.where(), "hist / rev / binsize / nbin are stored as computed")
    vk = _verdict(v_kept)
    chk.ob("R05.5", "derive::given-specification-is-kept", vk, fi.where(), "%sthe bin size / bin count the caller gives is the one the histogram is made with (only the other one is derived from it and the data range)"
           % ("; ".join(sorted(set(why_kept))[:2]) + " -- rule: " if vk is False and why_kept else ""))
    # ---- the equal-occupancy histogram ---------------------------------------------------
    fi = method(repo, "bynum")
    chk.analysed_unit(fi.qualname)
    paths = _paths(repo, fi, opaque=(dh.name, "_dohist", _merge_name(repo)))
    vs = []
    for st in paths or []:
        if st.outcome == "raise":
            continue
        cs = [c for c in st.calls if c.name == "self." + dh.name]
        if not cs:
            continue                                   # this path does not use the histogram engines: nothing reaches them
        if len(cs) != 1 or cs[0].in_loop:
            vs.append(None)
            continue
        b = _bind(cs[0], dh)
        d = dh.params
        if not all(p in b for p in d[1:7]):
            vs.append(None)
            continue
        data, dmin, sidx, bsz, rev = b[d[1]], b[d[2]], b[d[3]], b[d[4]], b[d[6]]
        m = pat.match("np.atleast_1d(_I).astype(_T)", data) or pat.match("_I.astype(_T)", data)
        pos = pat.match("np.arange(self['wsort'].size)", sidx) is not None or pat.match("np.arange(len(self['wsort']))", sidx) is not None
        if m is None or not pos:
            vs.append(None)
            continue
        vs.append(norm(m["_T"]) in FLOAT64 and pat.same(m["_I"], sidx) and isinstance(dmin, ast.Constant) and dmin.value == 0 and type(dmin.value) in (int, float)
                  and pat.match("float(%s)" % fi.params[1], bsz) is not None and isinstance(rev, ast.Constant) and rev.value is True)
    if paths is not None and not vs and not any(isinstance(x, ast.Call) and call_name(x) in (dh.name, "_dohist", "chist") for x in ast.walk(fi.node)):
        chk.ob("R05.3", "_hist_by_num::engine-arguments", True, fi.where(), "the equal-occupancy histogram does not go through the histogram engines: no value reaches them from here", nontrivial=False)
    else:
        chk.ob("R05.3", "_hist_by_num::engine-arguments", _verdict(vs), fi.where(), "engine called with (float64 positions 0..n-1, 0, the positions, float(nperbin), nbin, True)")


def _merge_name(repo):
    try:
        return method(repo, "merge").name
    except AnalysisError:
        return _ROLE_NAMES["merge"]


def _derive_contra(e):
    """the derived value is recognisably a bin count / bin size formula over the data range but not the required one: violated;
    anything else: not recognised"""
    t = norm(e)
    return False if ("self.dmax" in t and "self.dmin" in t) else None


def _given_kept(e, par):
    """what reaches the engine for a specification parameter the caller gave: the parameter itself (a scalar conversion of it
    included): held; a plain arithmetic value computed from the data range self.dmax / self.dmin: violated (for a given bin
    count / bin size the value must not depend on the data); anything else (conditional values, other helpers): not recognised"""
    u = e
    while isinstance(u, ast.Call) and dotted_name(u.func) in _PURE_CALLS and len(u.args) == 1 and not u.keywords:
        u = u.args[0]
    if _is_name(u, par):
        return True
    if any(isinstance(x, (ast.IfExp, ast.BoolOp, ast.Lambda, ast.Compare)) for x in ast.walk(e)):
        return None
    cells = {norm(x) for x in ast.walk(e) if isinstance(x, ast.Attribute)}
    if "self.dmax" in cells and "self.dmin" in cells and all(dotted_name(x.func) in _PURE_CALLS + ("round", "np.ceil", "np.floor", "np.round", "np.rint", "np.trunc", "math.ceil", "math.floor")
                                                             for x in ast.walk(e) if isinstance(x, ast.Call)):
        return False
    return None


# ---- R05.4 ----------------------------------------------------------------------
def _is_sort_index(e):
    """the stable sort index of the binned data: the argsort itself or the cell it is cached in"""
    return e is not None and (_stable_argsort(e) or norm(e) in ("self.sort_index",))


def _sorted_data(e, s):
    """e is the data gathered in sorted order, self.x[S]"""
    b = pat.match("self.x[_S]", e)
    return b is not None and pat.same(b["_S"], s)


def _data_extreme(e):
    """('min'|'max'|'other') when e is the datum at a fixed position of the sorted data / a data extreme, else None"""
    for p in ("self.x[_S[_K]]", "self.x[_S][_K]"):
        b = pat.match(p, e)
        if b is not None and _is_sort_index(b["_S"]):
            k = const_value(b["_K"])
            return {0: "min", -1: "max"}.get(k, "other") if isinstance(k, int) else None
    for p, r in (("self.x.min()", "min"), ("self.x.max()", "max"), ("np.min(self.x)", "min"), ("np.max(self.x)", "max"), ("np.amin(self.x)", "min"), ("np.amax(self.x)", "max")):
        if pat.match(p, e) is not None:
            return r
    return None


def _conjuncts(m):
    if isinstance(m, ast.BinOp) and isinstance(m.op, ast.BitAnd):
        return _conjuncts(m.left) + _conjuncts(m.right)
    if isinstance(m, ast.Call) and call_name(m) == "logical_and" and len(m.args) == 2 and not m.keywords:
        return _conjuncts(m.args[0]) + _conjuncts(m.args[1])
    return [m]


def _bound(c, s):
    """(side 'lo'|'hi', inclusive, bound expr, data in sorted order?) of one comparison between the data and a bound, else None"""
    if not (isinstance(c, ast.Compare) and len(c.ops) == 1):
        return None

    def data(e):
        return _sorted_data(e, s) or norm(e) == "self.x"
    a, b, op = c.left, c.comparators[0], type(c.ops[0])
    if data(b) and not data(a):
        a, b = b, a
        op = {ast.Lt: ast.Gt, ast.Gt: ast.Lt, ast.LtE: ast.GtE, ast.GtE: ast.LtE}.get(op, op)
    if not data(a):
        return None
    if op in (ast.GtE, ast.Gt):
        return "lo", op is ast.GtE, b, _sorted_data(a, s)
    if op in (ast.LtE, ast.Lt):
        return "hi", op is ast.LtE, b, _sorted_data(a, s)
    return None


def _selection(sel):
    """the boolean mask behind an index expression: np.where(M)[0] / np.nonzero(M)[0] / np.flatnonzero(M) / M itself"""
    for p in ("np.where(_M)[0]", "np.nonzero(_M)[0]", "np.flatnonzero(_M)", "_M.nonzero()[0]"):
        b = pat.match(p, sel)
        if b is not None:
            return b["_M"]
    if isinstance(sel, (ast.BinOp, ast.Compare)) or (isinstance(sel, ast.Call) and call_name(sel) == "logical_and"):
        return sel
    return None


def _searchsorted(e, s):
    """(bound, side) of a binary search for a bound in the data in sorted order, else None:  X.searchsorted(b, side=...) /
    np.searchsorted(X, b, side=...) over the gathered data X = self.x[S], or self.x.searchsorted(b, side=..., sorter=S) /
    np.searchsorted(self.x, b, side=..., sorter=S) over the data with the sort index S as sorter"""
    if not (isinstance(e, ast.Call) and call_name(e) == "searchsorted" and isinstance(e.func, ast.Attribute)):
        return None
    if any(k.arg not in ("side", "sorter", "v", "a") for k in e.keywords):
        return None
    args = list(e.args)
    if norm(e.func.value) in ("np", "numpy"):
        arr = args[0] if args else kwarg(e, "a")
        args = args[1:]
    else:
        arr = e.func.value
    bound = args[0] if args else kwarg(e, "v")
    side = kwarg(e, "side") or (args[1] if len(args) > 1 else None)
    sorter = kwarg(e, "sorter") or (args[2] if len(args) > 2 else None)
    if arr is None or bound is None or len(args) > 3:
        return None
    if sorter is not None:
        if not (norm(arr) == "self.x" and pat.same(sorter, s)):
            return None
    elif not _sorted_data(arr, s):
        return None
    side = const_value(side) if side is not None else "left"
    return (bound, side) if side in ("left", "right") else None


def _uncopied(e):
    """the array behind calls that only copy it: X.copy() / np.copy(X) / np.array(X) / np.ascontiguousarray(X)"""
    while isinstance(e, ast.Call) and isinstance(e.func, ast.Attribute) and not e.keywords:
        if e.func.attr == "copy" and not e.args and norm(e.func.value) not in _NP:
            e = e.func.value
        elif e.func.attr in ("copy", "array", "ascontiguousarray") and norm(e.func.value) in _NP and len(e.args) == 1:
            e = e.args[0]
        else:
            break
    return e


# ---- every value that becomes the sort index is the stable ascending order ---------------------------------
# The reverse-index slices list the data "ordered by value with ties in original order": the sort index must be that
# order on every path that produces it.  A stable argsort of the data is that order by definition.  A path may also
# produce it without sorting, but only under a condition on the data that makes the shortcut equal to the stable order:
# the identity 0..n-1 when the data are non-decreasing (ties then already stand in original order), the reversed identity
# n-1..0 only when the data are *strictly* decreasing -- under a non-strict guard equal values come out in reversed
# original order.  The rule looks at the value that reaches the cell on each path and at the facts the path's branch
# conditions establish about successive data; how the guard is spelled (np.diff, shifted slices, all / not any) does not
# matter.
_MONO_OPS = {ast.GtE: "inc", ast.Gt: "sinc", ast.LtE: "dec", ast.Lt: "sdec"}
_MONO_MIRROR = {"inc": "dec", "sinc": "sdec", "dec": "inc", "sdec": "sinc"}        # the same comparison with its operands exchanged
_MONO_NEG = {"inc": "sdec", "sinc": "dec", "dec": "sinc", "sdec": "inc"}           # `not (a >= b)` is `a < b` (finite data)


def _data_size(e):
    return norm(e) in ("self.x.size", "len(self.x)", "self.x.shape[0]", "np.size(self.x)", "np.diff(self.x).size + 1", "len(np.diff(self.x)) + 1")


def _no_dtype(e):
    """the call without a dtype keyword (it does not change which positions are listed)"""
    if isinstance(e, ast.Call) and any(k.arg == "dtype" for k in e.keywords):
        e = copy.copy(e)
        e.keywords = [k for k in e.keywords if k.arg != "dtype"]
    return e


def _position_order(e):
    """'id' when e lists the positions 0..n-1 of the data in increasing order, 'rev' for n-1..0, else None"""
    e = _no_dtype(e)
    if isinstance(e, ast.Call) and call_name(e) == "astype" and isinstance(e.func, ast.Attribute) and norm(e.func.value) not in _NP:
        return _position_order(e.func.value)
    for p in ("np.arange(_N)", "np.arange(0, _N)", "np.arange(0, _N, 1)", "numpy.arange(_N)", "numpy.arange(0, _N)", "numpy.arange(0, _N, 1)"):
        b = pat.match(p, e, commutative=False)
        if b is not None and _data_size(b["_N"]):
            return "id"
    for p in ("np.arange(_N - 1, -1, -1)", "numpy.arange(_N - 1, -1, -1)"):
        b = pat.match(p, e, commutative=False)
        if b is not None and _data_size(b["_N"]):
            return "rev"
    for p in ("_S[::-1]", "np.flip(_S)", "np.flipud(_S)", "np.flip(_S, 0)", "np.flip(_S, axis=0)", "numpy.flip(_S)"):
        b = pat.match(p, e, commutative=False)
        if b is not None:
            o = _position_order(b["_S"])
            return {"id": "rev", "rev": "id"}.get(o)
    return None


def _successive(e):
    """+1 when e is the vector x[i+1] - x[i] of successive differences of the data, -1 for x[i] - x[i+1], else None"""
    if norm(e) in ("np.diff(self.x)", "numpy.diff(self.x)", "np.ediff1d(self.x)", "np.diff(self.x, 1)", "np.diff(self.x, n=1)"):
        return 1
    b = pat.match("_A - _B", e, commutative=False)
    if b is not None:
        a, c = norm(b["_A"]), norm(b["_B"])
        if (a, c) == ("self.x[1:]", "self.x[:-1]"):
            return 1
        if (a, c) == ("self.x[:-1]", "self.x[1:]"):
            return -1
    return None


def _is_zero(e):
    v = const_value(e)
    return isinstance(v, (int, float)) and not isinstance(v, bool) and v == 0


def _pairwise(c):
    """what an elementwise comparison says about every pair of successive data when it holds for all of them:
    'inc' x[i] <= x[i+1], 'sinc' <, 'dec' >=, 'sdec' >; None when c is not such a comparison"""
    if not (isinstance(c, ast.Compare) and len(c.ops) == 1 and type(c.ops[0]) in _MONO_OPS):
        return None
    kind = _MONO_OPS[type(c.ops[0])]
    a, b = c.left, c.comparators[0]
    if _is_zero(b) and _successive(a) is not None:
        return kind if _successive(a) > 0 else _MONO_MIRROR[kind]
    if _is_zero(a) and _successive(b) is not None:
        return _MONO_MIRROR[kind] if _successive(b) > 0 else kind
    ta, tb = norm(a), norm(b)
    if (ta, tb) == ("self.x[1:]", "self.x[:-1]"):
        return kind
    if (ta, tb) == ("self.x[:-1]", "self.x[1:]"):
        return _MONO_MIRROR[kind]
    return None


def _order_fact(t, truth):
    """the fact about the order of the data that a branch condition with the given outcome establishes, else None"""
    while isinstance(t, ast.UnaryOp) and isinstance(t.op, ast.Not):
        t, truth = t.operand, not truth
    if isinstance(t, ast.Call) and call_name(t) == "bool" and len(t.args) == 1 and not t.keywords:
        return _order_fact(t.args[0], truth)
    if not (isinstance(t, ast.Call) and call_name(t) in ("all", "any", "alltrue", "sometrue") and not t.keywords):
        return None
    if isinstance(t.func, ast.Attribute) and norm(t.func.value) not in _NP:
        if t.args:
            return None
        c = t.func.value
    elif len(t.args) == 1:
        c = t.args[0]
    else:
        return None
    k = _pairwise(c)
    if k is None:
        return None
    if call_name(t) in ("all", "alltrue"):
        return k if truth else None            # "not all" only says that one pair is out of order
    return _MONO_NEG[k] if not truth else None


def _order_facts(t, truth):
    """the facts about the order of the data that a branch condition with the given outcome establishes: a conjunction that
    held (a disjunction that did not) establishes what each of its operands does"""
    while isinstance(t, ast.UnaryOp) and isinstance(t.op, ast.Not):
        t, truth = t.operand, not truth
    if isinstance(t, ast.Call) and call_name(t) == "bool" and isinstance(t.func, ast.Name) and len(t.args) == 1 and not t.keywords:
        return _order_facts(t.args[0], truth)
    if isinstance(t, ast.BoolOp):
        if isinstance(t.op, ast.And) is truth:
            out = set()
            for v in t.values:
                out |= _order_facts(v, truth)
            return out
        return set()
    f = _order_fact(t, truth)
    return {f} if f else set()


def _path_order_facts(st):
    out = set()
    for t, truth in st.conds:
        out |= _order_facts(t, truth)
    return out


class _CanonSort(ast.NodeTransformer):
    """every expression that is the stable sort index of the data on this path -- the stable argsort itself, or positions 0..n-1
    (n-1..0) on a path whose conditions make the data non-decreasing (strictly decreasing) -- is spelled as the cell that caches
    it, `self.sort_index`;  (a, b)[k] with a literal k is the element"""

    def __init__(self, facts):
        self.facts = facts

    def generic_visit(self, n):
        if isinstance(n, ast.expr):
            if _stable_argsort(n):
                return ast.parse("self.sort_index", mode="eval").body
            o = _position_order(n) if isinstance(n, (ast.Call, ast.Subscript)) else None
            if (o == "id" and self.facts & {"inc", "sinc"}) or (o == "rev" and "sdec" in self.facts):
                return ast.parse("self.sort_index", mode="eval").body
        n = ast.NodeTransformer.generic_visit(self, n)
        if isinstance(n, ast.Subscript) and isinstance(n.value, ast.Tuple) and isinstance(n.slice, ast.Constant) and isinstance(n.slice.value, int) \
                and not isinstance(n.slice.value, bool) and -len(n.value.elts) <= n.slice.value < len(n.value.elts) and not any(isinstance(e, ast.Starred) for e in n.value.elts):
            return n.value.elts[n.slice.value]
        return n


def _canon_sort(e, facts):
    return None if e is None else _CanonSort(facts).visit(copy.deepcopy(e))


def cell_invariants(repo, fi):
    """{'self.<attr>': expression} for the instance attributes of fi's class that, whenever they are not None, hold one and the same
    function of the binned data: every method that assigns the attribute leaves (on every path, raising ones included) either
    None or a value that reads nothing but self.x and its stable sort index, and the values agree.  self.x itself must be
    assigned by the constructor only."""
    ms = [g for g in repo.funcs.values() if g.module is fi.module and g.cls == fi.cls]
    stores = {}
    for g in ms:
        for x in walk_no_nested(g.node):
            tg = x.targets if isinstance(x, ast.Assign) else [x.target] if isinstance(x, (ast.AugAssign, ast.AnnAssign)) else [x.target] if isinstance(x, (ast.For,)) else []
            for t in tg:
                for tt in rules._flat_targets(t):
                    if isinstance(tt, ast.Attribute) and norm(tt.value) == "self":
                        stores.setdefault(norm(tt), set()).add(g.qualname)
                    elif isinstance(tt, (ast.Subscript, ast.Attribute)) and isinstance(tt.value, ast.Attribute) and norm(tt.value.value) == "self":
                        stores.setdefault(norm(tt.value), set()).add("<element store>")
    if any(not q.endswith(".__init__") for q in stores.get("self.x", ())):
        return {}
    out = {}
    for cell, owners in stores.items():
        if cell in ("self.x", "self.sort_index") or "<element store>" in owners:
            continue
        vals, ok = {}, True
        for q in sorted(owners):
            ps = _paths(repo, repo.funcs[q])
            if ps is None:
                ok = False
                break
            for st in ps:
                v = st.env.get(cell)
                if v is None or _is_none(v):
                    continue
                v = _canon_sort(v, _path_order_facts(st))
                reads = {norm(x) for x in ast.walk(v) if isinstance(x, ast.Attribute) and norm(x).startswith("self.")}
                names = {x.id for x in ast.walk(v) if isinstance(x, ast.Name)} - {"self", "np", "numpy"}
                if names or not reads <= {"self.x", "self.sort_index"} or any(isinstance(x, (ast.Call, ast.Lambda)) for x in ast.walk(v)):
                    ok = False
                vals[norm(v)] = v
        if ok and len(vals) == 1:
            out[cell] = next(iter(vals.values()))
    return out


class _CellSub(ast.NodeTransformer):
    def __init__(self, inv):
        self.inv = inv

    def visit_Attribute(self, n):
        if isinstance(n.ctx, ast.Load) and norm(n) in self.inv:
            return copy.deepcopy(self.inv[norm(n)])
        return self.generic_visit(n)


def canonical_path(st, inv):
    """copy of a finished path with the values and branch conditions in canonical spelling (_CanonSort); an attribute read that the
    path did not assign itself, that the path knows not to be None and that has a class invariant (cell_invariants) is replaced
    by that invariant first"""
    facts = _path_order_facts(st)
    use = {c: e for c, e in inv.items() if st.known.get("%s is None" % c) is False or st.known.get("%s is not None" % c) is True}

    def cv(e):
        if e is None:
            return None
        if use:
            e = _CellSub(use).visit(copy.deepcopy(e))
        return _canon_sort(e, facts)
    n = st.fork()
    n.outcome, n.ret = st.outcome, cv(st.ret)
    n.env = {k: cv(v) for k, v in st.env.items()}
    own = {"%s is None" % c for c in use} | {"%s is not None" % c for c in use}
    n.conds = [(t if norm(t) in own else cv(t), truth) for t, truth in st.conds]
    return n


def _truths(t, truth):
    """the elementary conditions (expression, outcome) that a branch condition with the given outcome establishes"""
    while isinstance(t, ast.UnaryOp) and isinstance(t.op, ast.Not):
        t, truth = t.operand, not truth
    if isinstance(t, ast.Call) and isinstance(t.func, ast.Name) and t.func.id == "bool" and len(t.args) == 1 and not t.keywords:
        return _truths(t.args[0], truth)
    if isinstance(t, ast.BoolOp):
        if isinstance(t.op, ast.And) is truth:
            return [x for v in t.values for x in _truths(v, truth)]
        return []
    return [(t, truth)]


def _length_of(e):
    """X when e is the number of elements of the 1-d array X: X.size / len(X) / X.shape[0]"""
    if isinstance(e, ast.Attribute) and e.attr == "size":
        return e.value
    if isinstance(e, ast.Call) and isinstance(e.func, ast.Name) and e.func.id == "len" and len(e.args) == 1 and not e.keywords:
        return e.args[0]
    b = pat.match("_X.shape[0]", e)
    return b["_X"] if b is not None else None


def _np_call1(e, names):
    """the single argument A of np.<name>(A) or A.<name>() (no other arguments), else None"""
    if not (isinstance(e, ast.Call) and isinstance(e.func, ast.Attribute) and e.func.attr in names and not e.keywords):
        return None
    if norm(e.func.value) in _NP:
        return e.args[0] if len(e.args) == 1 and not isinstance(e.args[0], ast.Starred) else None
    return e.func.value if not e.args else None


def _is_all_data(x):
    """x has one element per datum: the data, the sort index, the data gathered in sorted order"""
    if x is None:
        return False
    x = _uncopied(x)
    if norm(x) == "self.x" or _is_sort_index(x):
        return True
    b = pat.match("self.x[_S]", x)
    return b is not None and _is_sort_index(b["_S"])


def _kept_mask(e):
    """the boolean mask M over the data when e is the number of data M keeps: the length of np.where(M)[0] / np.nonzero(M)[0] /
    np.flatnonzero(M) / M.nonzero()[0], np.count_nonzero(M), M.sum() / np.sum(M)"""
    x = _length_of(e)
    if x is not None:
        x = _uncopied(x)
        if isinstance(x, ast.Subscript) and const_value(x.slice) == 0:
            return _np_call1(x.value, ("where", "nonzero"))
        return _np_call1(x, ("flatnonzero",))
    return _np_call1(e, ("count_nonzero", "sum"))


def _keeps_everything(c, tr, flags, lo_p, hi_p, only_limits=False):
    """the sides ('lo' / 'hi') on which the elementary condition c (with outcome tr) says that the limit of the call removes
    nothing: c compares the number of data kept by a mask with the number of data (`np.where(M)[0].size == s.size`,
    `np.count_nonzero(M) >= len(self.x)`, the negation of `!=` / `<`) or is `M.all()` / `np.all(M)`, so every datum satisfies
    every conjunct of M; a conjunct `data >= min` / `data > min` (`data <= max` / `data < max`) whose bound is the limit itself
    then says that no datum lies outside that limit.  (A NaN limit keeps nothing: the condition is false for it unless there
    are no data at all, and then there is nothing to remove.)
    only_limits: nothing is returned unless every other conjunct of M is an inclusive comparison with the data extreme of its
    side, which every datum meets -- then the *negation* of c says that a datum lies outside one of the returned limits."""
    m = None
    if isinstance(c, ast.Compare) and len(c.ops) == 1:
        a, b, op = c.left, c.comparators[0], type(c.ops[0])
        if _is_all_data(_length_of(a)) and not _is_all_data(_length_of(b)):
            a, b = b, a
            op = {ast.Lt: ast.Gt, ast.Gt: ast.Lt, ast.LtE: ast.GtE, ast.GtE: ast.LtE}.get(op, op)
        if _is_all_data(_length_of(b)) and ((tr and op in (ast.Eq, ast.GtE)) or (not tr and op in (ast.NotEq, ast.Lt))):
            m = _kept_mask(a)
    elif tr:
        m = _np_call1(c, ("all",))
    if m is None:
        return set()
    out, others = set(), True
    for cj in _conjuncts(m):
        bd = None
        if isinstance(cj, ast.Compare) and len(cj.ops) == 1:
            for x in (cj.left, cj.comparators[0]):
                b = pat.match("self.x[_S]", x)
                if b is not None and _is_sort_index(b["_S"]):
                    bd = _bound(cj, b["_S"])
                    break
            else:
                bd = _bound(cj, _n("self.sort_index"))
        if bd is None:
            return set()                       # not a conjunction of comparisons of the data: not known to be a boolean mask over them
        side, inc, lim, _ = bd
        vals = [v for v, _ in _value_cases(_simp(lim, flags), flags)]
        if all(_is_name(v, lo_p if side == "lo" else hi_p) for v in vals):
            out.add(side)
        elif not (inc and all(_data_extreme(v) == ("min" if side == "lo" else "max") for v in vals)):
            others = False                     # a conjunct that is neither a limit of the call nor a bound that every datum meets
    return out if others or not only_limits else set()


def _vacuous_limits(conds, flags, lo_p, hi_p):
    """the sides ('lo' / 'hi') whose given limit the conditions [(test, outcome)] of a path say to remove nothing: a branch
    condition that held says limit <= smallest datum (largest datum <= limit), or that the filter keeps every datum
    (_keeps_everything).  Only the comparison as written counts, not the negation of its
    opposite (that one also holds for a NaN limit, which selects nothing)."""
    out = set()
    for t, truth in conds:
        for c, tr in _truths(_simp(t, flags), truth):
            out |= _keeps_everything(c, tr, flags, lo_p, hi_p)
            if not (tr and isinstance(c, ast.Compare) and len(c.ops) == 1):
                continue
            a, b, op = c.left, c.comparators[0], type(c.ops[0])
            if op in (ast.GtE, ast.Gt):
                a, b = b, a
            elif op not in (ast.LtE, ast.Lt):
                continue
            if _is_name(a, lo_p) and _data_extreme(b) == "min":
                out.add("lo")
            if _is_name(b, hi_p) and _data_extreme(a) == "max":
                out.add("hi")
    return out


def sort_index_values(chk, repo, si):
    """R05.4 Binner._get_sort_index::every-path-gives-the-stable-order (see the section comment)"""
    cell = "self.sort_index"
    paths = _paths(repo, si)
    vs, shown, why = [], set(), set()
    for st in paths if paths is not None else [None]:
        if st is None:
            vs.append(None)
            continue
        if st.outcome == "raise":
            continue
        v = st.env.get(cell)
        if v is None:
            # the cell is left alone: a cached index of the same data, made by one of the other paths
            cached = st.known.get("%s is None" % cell) is False or st.known.get("%s is not None" % cell) is True
            vs.append(True if cached else None)
            continue
        shown.add(norm(v))
        facts = _path_order_facts(st)
        guard = " and ".join("%s`%s`" % ("" if truth else "not ", norm(t)) for t, truth in st.conds if _order_facts(t, truth)) or "no condition on the order of the data"
        if _stable_argsort(v):
            vs.append(True)
            continue
        if isinstance(v, ast.Call) and call_name(v) == "argsort" and (norm(v.func.value) == "self.x" or (norm(v.func.value) in _NP and v.args and norm(v.args[0]) == "self.x")):
            k = kwarg(v, "kind")
            if k is None or (isinstance(k, ast.Constant) and k.value not in ("stable", "mergesort")):
                vs.append(False)
                why.add("`%s` is not a stable sort: equal values come out in an unspecified order" % norm(v))
            else:
                vs.append(None)
            continue
        o = _position_order(v)
        if o == "id":
            # 0..n-1 is the stable order exactly when no datum is smaller than its predecessor
            if facts & {"inc", "sinc"}:
                vs.append(True)
            elif facts & {"dec", "sdec"}:
                vs.append(False)
                why.add("`%s` (the data in their original order) is used as the sort index under %s, which does not make the data non-decreasing" % (norm(v), guard))
            else:
                vs.append(None)
        elif o == "rev":
            # n-1..0 lists equal values in reversed original order: it is the stable order only for strictly decreasing data
            if "sdec" in facts:
                vs.append(True)
            elif facts:
                vs.append(False)
                why.add("`%s` (the data in reversed original order) is used as the sort index under %s: the guard admits equal values, which are then listed in reversed instead of original order"
                        % (norm(v), guard))
            else:
                vs.append(None)
        else:
            vs.append(None)
    v = _verdict(vs)
    chk.ob("R05.4", "Binner._get_sort_index::every-path-gives-the-stable-order", v, si.where(),
           "every value that becomes the sort index is the ascending order of the data with equal values in original order: a stable argsort, or a shortcut "
           "whose guard makes it equal to one%s (%s)" % (" -- " + "; ".join(sorted(why)) if why and v is False else "", sorted(shown)))


def _mentions(e, names):
    """the expression reads one of the names as a value (a callee of that name is the builtin, not the parameter)"""
    callees = {id(x.func) for x in ast.walk(e) if isinstance(x, ast.Call)}
    return any(isinstance(x, ast.Name) and x.id in names and id(x) not in callees for x in ast.walk(e))


def _stale_reads(e, cells):
    """the cells of `cells` whose value from before the call is read by e (the path executor has replaced every read of a cell that
    was assigned earlier on the path: what is left reads the state the object was in when the call began)"""
    return sorted({norm(x) for x in ast.walk(e) if isinstance(x, ast.Attribute) and norm(x) in cells})


def limits(chk, repo):
    fi = method(repo, "limits")
    chk.analysed_unit(fi.qualname)
    paths = _paths(repo, fi)
    if paths is not None:
        inv = cell_invariants(repo, fi)
        paths = [canonical_path(st, inv) for st in paths]
    lo_p, hi_p = ("min", "max") if "min" in fi.params and "max" in fi.params else tuple(fi.params[1:3])
    v_incl, v_filt, v_def, v_org, v_appl = [], [], [], [], []
    shown = set()
    why = {"org": set(), "incl": set(), "appl": set(), "hist": set()}     # what exactly contradicts a rule (named constructs), for the messages
    # instance attributes in which some path of this method (a path that raises included: the object survives) leaves a value
    # that depends on the limits of the call: a later call that reads such a cell before assigning it sees the limits of the
    # earlier call.  Not counted when another method (other than the constructor) assigns the cell as well: it may reset it.
    carried = {}
    for st in paths or []:
        for k, v in st.env.items():
            if k.startswith("self.") and "[" not in k and "(" not in k and _mentions(v, (lo_p, hi_p)):
                carried.setdefault(k, norm(v))
    reset = set()
    for g in repo.funcs.values():
        if g.module is fi.module and g.cls == fi.cls and g.node is not fi.node and g.name != "__init__":
            for x in ast.walk(g.node):
                tg = x.targets if isinstance(x, ast.Assign) else [x.target] if isinstance(x, (ast.AugAssign, ast.AnnAssign)) else []
                for t in tg:
                    reset |= {norm(tt) for tt in rules._flat_targets(t) if isinstance(tt, ast.Attribute)}
    v_hist = [None] if paths is None else []
    for lo in (None, NOTNONE):
        for hi in (None, NOTNONE):
            flags = {lo_p: lo, hi_p: hi}
            sts = [st for st in paths or [] if st.outcome != "raise" and _consistent(st, flags)]
            if not sts:
                for v in (v_incl, v_filt, v_def, v_org, v_appl):
                    v.append(None)
            for st in sts:
                env = st.env
                # what reaches the engine depends on this call's limits and on the data only
                for cell in ("self.dmin", "self.dmax", "self['wsort']"):
                    val = _simp(env.get(cell), flags)
                    if val is None:
                        if cell not in carried:
                            continue                  # never assigned here: the other rules say "not recognised"
                        val = ast.parse(cell, mode="eval").body
                    for val, cond in _value_cases(val, flags):
                        stale = _stale_reads(val, carried)
                        if not stale:
                            v_hist.append(True)
                            continue
                        v_hist.append(None if set(stale) & reset else False)
                        given = ", ".join("%s %s" % (p, "given" if g is not None else "absent") for p, g in ((lo_p, lo), (hi_p, hi)))
                        why["hist"].add("with %s%s, %s is `%s`, which reads what an earlier call left in %s" % (given, " and %s" % cond if cond else "", cell, norm(val),
                                        ", ".join("%s (`%s = %s` on another path)" % (c, c, carried[c]) for c in stale)))
                # the binning origin / range handed to the engine
                for given, cell, par, ext, vv in ((lo, "self.dmin", lo_p, "min", None), (hi, "self.dmax", hi_p, "max", None)):
                    val = _simp(env.get(cell), flags)
                    if val is None:
                        (v_def if given is None else v_org).append(None)
                        continue
                    for val, cond in _value_cases(val, flags):
                        if given is not None:
                            bad = not _is_name(val, par) and bool(_data_extreme(val))
                            v_org.append(True if _is_name(val, par) else (False if bad else None))
                            if bad:
                                why["org"].add("with %s given, %s is `%s`%s instead of the limit" % (par, cell, norm(val), " when %s" % cond if cond else ""))
                        else:
                            d = _data_extreme(val)
                            v_def.append(True if d == ext else (False if d is not None or _is_name(val, lo_p) or _is_name(val, hi_p) else None))
                w = _simp(env.get("self['wsort']"), flags)
                shown.add(norm(w) if w is not None else "<unset>")
                if w is None:
                    v_filt.append(None)
                    continue
                wcases = _value_cases(w, flags)
                split = [(w, [])]
                if len(wcases) > 1:
                    # the filter is selected by a value test that the presence of the limits does not decide: every arm of a
                    # conditional expression is judged like the same assignment under an `if` with that test (the test joins the
                    # conditions of the path); the value forms `a or b` / `a and b` are not split that way
                    split = _cond_cases(w, flags)
                    if split is None:
                        unf = [c for v, c in wcases if _is_sort_index(v)]
                        if unf and (lo is not None or hi is not None):
                            v_appl.append(False)
                            why["appl"].add("the unfiltered sort index is used when %s although a limit is given" % unf[0])
                        else:
                            v_filt.append(None)
                        continue
                for w, extra in split:
                    conds = list(st.conds) + extra
                    if _is_sort_index(w):
                        # unfiltered: right when no limit was given, or on a path whose conditions say that every given limit lies at or
                        # beyond the data extreme on its side (the filter would keep everything); wrong when a limit is given and
                        # nothing on the path looks at its value
                        need = {side for side, g in (("lo", lo), ("hi", hi)) if g is not None}
                        if need <= _vacuous_limits(conds, flags, lo_p, hi_p):
                            v_appl.append(True)
                        else:
                            # side by side: a given limit that is not known to be vacuous must at least have been looked at by a
                            # condition of this path (then the path may know something about it that is not recognised here: no
                            # verdict); a given limit whose value no condition of the path reads is simply not applied
                            open_sides = need - _vacuous_limits(conds, flags, lo_p, hi_p)
                            # the path itself says that its limits remove a datum (the negation of "the filter keeps everything")
                            cut = [(c, tr, sd) for t, truth in conds for c, tr in _truths(_simp(t, flags), truth)
                                   for sd in [_keeps_everything(c, not tr, flags, lo_p, hi_p, only_limits=True)] if sd and sd <= need]
                            if cut:
                                v_appl.append(False)
                                why["appl"].add("the unfiltered sort index reaches the engine on the path where %s`%s`, i.e. where a datum lies outside the given limit(s)"
                                                % ("" if cut[0][1] else "not ", norm(cut[0][0])))
                                v_filt.append(True)
                                continue
                            und = [_simp(t, flags) for t, _ in conds if eval_test(_simp(t, flags), flags) is None]
                            unread = sorted(p for p, side in ((lo_p, "lo"), (hi_p, "hi")) if side in open_sides and not any(_mentions(t, {p}) for t in und))
                            v_appl.append(False if unread else None)
                            if unread:
                                given = " and ".join(p for p, g in ((lo_p, lo), (hi_p, hi)) if g is not None)
                                on = " and ".join("%s`%s`" % ("" if truth else "not ", norm(_simp(t, flags))) for t, truth in conds
                                                  if eval_test(_simp(t, flags), flags) is None and _mentions(_simp(t, flags), {lo_p, hi_p}))
                                why["appl"].add("with %s given, the unfiltered sort index reaches the engine on the path where %s: no condition of that path reads the value of %s, so data outside that limit stay in the sort index"
                                                % (given, on or "no condition on the limits holds", " / ".join(unread)))
                        v_filt.append(True)
                        continue
                    b = pat.match("_S[_SEL]", _uncopied(w))
                    if b is None or not _is_sort_index(b["_S"]):
                        v_filt.append(None)
                        continue
                    s, sel = b["_S"], b["_SEL"]
                    found = {"lo": [], "hi": []}           # side -> [(inclusive, bound)]
                    if isinstance(sel, ast.Slice):
                        if sel.step is not None:
                            v_filt.append(None)
                            continue
                        okk = True
                        for side, e, whole in (("lo", sel.lower, lambda e: e is None or const_value(e) == 0), ("hi", sel.upper, lambda e: e is None or norm(e) in (norm(s) + ".size", "len(%s)" % norm(s), "self.x.size"))):
                            if whole(e):
                                continue
                            ss = _searchsorted(e, s)
                            if ss is None:
                                okk = False
                            else:
                                found[side].append((ss[1] == ("left" if side == "lo" else "right"), ss[0]))
                        if not okk:
                            v_filt.append(None)
                            continue
                    else:
                        m = _selection(sel)
                        cj = [_bound(c, s) for c in _conjuncts(m)] if m is not None else [None]
                        if any(c is None for c in cj):
                            v_filt.append(None)
                            continue
                        if not all(c[3] for c in cj):
                            v_filt.append(False)        # a mask over the data in original order selects from the *sorted* index
                            continue
                        for side, inc, bd, _ in cj:
                            found[side].append((inc, bd))
                    v_filt.append(True)
                    v_appl.append(True)
                    # every given limit is applied, inclusively, with the limit itself as bound; any other bound is an (inclusive) data extreme
                    for side, given, par, ext in (("lo", lo, lo_p, "min"), ("hi", hi, hi_p, "max")):
                        loc, hit = [], False
                        for inc, bd in found[side]:
                            # every value the bound can take: the limit itself, or a (vacuous) data extreme
                            kinds = []
                            for v, cond in _value_cases(_simp(bd, flags), flags):
                                if given is not None and _is_name(v, par):
                                    kinds.append("limit")
                                elif _data_extreme(v) == ext:
                                    kinds.append("extreme")    # a vacuous bound; an exclusive one would drop the extreme datum
                                    if given is not None and cond:
                                        why["incl"].add("with %s given, the %s bound of the filter is the data extreme `%s` when %s" % (par, "lower" if side == "lo" else "upper", norm(v), cond))
                                else:
                                    kinds.append(None)
                            loc.append(None if None in kinds else bool(inc))
                            if kinds and all(k == "limit" for k in kinds):
                                hit = True
                        if given is not None and not hit:
                            loc.append(None if None in loc else False)      # the limit was given but is not applied (for every value it can have)
                        v_incl.extend(loc or [True])
    wh = fi.where()

    def because(kind, v):
        return " -- " + "; ".join(sorted(why[kind])[:2]) if why[kind] and v is False else ""
    chk.ob("R05.4", "limits::inclusive-conjunction", _verdict(v_incl), wh, "data are kept when min <= x <= max, both inclusive, in sorted order, for every value a given limit can have%s (%s)"
           % (because("incl", _verdict(v_incl)), sorted(shown)))
    chk.ob("R05.4", "limits::filtered-sort-index", _verdict(v_filt), wh, "the engine's sort index is the stable sort index restricted to the kept data (%s)" % sorted(shown))
    chk.ob("R05.4", "limits::defaults-are-data-extremes", _verdict(v_def), wh, "absent limits default to the smallest / largest datum")
    chk.ob("R05.4", "limits::engine-min-is-lower-limit", _verdict(v_org), wh, "the binning origin / range is the given limit, for every value the limit can have (zero included)" + because("org", _verdict(v_org)))
    chk.ob("R05.4", "limits::filter-applied-when-a-limit-is-given", _verdict(v_appl), wh, "the filter runs whenever min or max is given" + because("appl", _verdict(v_appl)))
    chk.ob("R05.4", "limits::independent-of-earlier-calls", _verdict(v_hist), wh, "the binning origin / range and the filtered sort index of a call are determined by that call's "
           "limits and the data: no path reads an attribute in which an earlier call on the same object left a value derived from its limits" + because("hist", _verdict(v_hist)))


# ---- R05.5 ------------------------------------------------------------------------
OPTIONS = ("binsize", "nbin", "nperbin", "mergelast", "min", "max", "rev")


def derivations(chk, repo):
    h = repo.func(ST + "histogram")
    chk.analysed_unit(h.qualname)
    cfg = cfg_of(h)
    view = cfg.view()
    b = [x for x in walk_no_nested(h.node) if isinstance(x, ast.Call) and call_name(x) == "Binner"]
    ok = len(b) == 1 and [norm(a) for a in b[0].args] == ["data"] and norm(kwarg(b[0], "weights")) == "weights"
    chk.ob("R05.5", "histogram::binner-of-data", ok, h.where(), "histogram builds Binner(data, weights=weights)")
    dh = repo.func(ST + "Binner.dohist")
    dc = [x for x in walk_no_nested(h.node) if isinstance(x, ast.Call) and call_name(x) == "dohist"]
    ok = False
    if len(dc) == 1 and not any(isinstance(a, ast.Starred) for a in dc[0].args):
        bound = dict(zip(dh.params[1:], dc[0].args))
        bound.update({k.arg: k.value for k in dc[0].keywords if k.arg})
        ok = all(o in bound and _is_name(bound[o], o) for o in OPTIONS)
    chk.ob("R05.5", "histogram::options-forwarded", ok, h.where(), "every binning option is forwarded under its own name")
    rets = {norm(n.ast.value): dict(rules.controlling_tests(view, n, skip_reject_guards=False)) for n in rules.return_nodes(cfg)}
    ok = rets.get("(b['hist'], b['rev'])", {}).get("rev") == "T" and rets.get("b['hist']", {}).get("rev") == "F" and "b" in rets
    chk.ob("R05.5", "histogram::returns", ok, h.where(), "returns hist (and rev when asked), or the Binner when more statistics are requested (%s)" % {k: v for k, v in rets.items()})
    pre = {(norm(n.ast), tuple(rules.controlling_tests(view, n)[:1])) for n in cfg.nodes if n.kind == "stmt" and isinstance(n.ast, ast.Assign) and norm(n.ast.targets[0]) in ("binsize", "rev")}
    chk.ob("R05.5", "histogram::nbin-overrides-binsize", ("binsize = None", (("nbin is not None", "T"),)) in pre and ("rev = True", (("more", "T"),)) in pre, h.where(), "nbin overrides binsize; more=True implies reverse indices")
    chk.analysed_unit(dh.qualname)
    dispatch(chk, repo, dh)


def dispatch(chk, repo, dh):
    """R05.5 dohist::dispatch, per path and per given / absent binning option: the limits are applied (min -> min, max -> max)
    before a histogram is made, and with no nperbin and a binsize or nbin the equal-width histogram is made from exactly
    (binsize, nbin, rev).  Stated on the calls each path performs, in order, with the values that reach them; how the
    selection is spelled (if / elif chain, guard clause that raises first, nested tests) does not matter."""
    import itertools
    lim_f = method(repo, "limits")
    hb_f = method(repo, "equal")
    hn = "self." + method(repo, "bynum").name
    paths = _paths(repo, dh, opaque=(lim_f.name, hb_f.name, hn[5:], "calc_stats", method(repo, "sortidx").name))
    opts = [p for p in ("nperbin", "nbin", "binsize") if p in dh.params]
    vs, shown, why = [], set(), set()
    if len(opts) != 3 or "min" not in dh.params or "max" not in dh.params:
        vs.append(None)
    else:
        for combo in itertools.product((None, NOTNONE), repeat=3):
            flags = dict(zip(opts, combo))
            if all(v is None for v in combo):
                continue                                   # nothing to bin by: outside the property
            sts = [st for st in paths or [] if st.outcome != "raise" and _consistent(st, flags)]
            if not sts:
                vs.append(None)
            for st in sts:
                calls = [c for c in st.calls if c.name in ("self." + lim_f.name, "self." + hb_f.name, hn)]
                lim = [i for i, c in enumerate(calls) if c.name == "self." + lim_f.name]
                hb = [i for i, c in enumerate(calls) if c.name == "self." + hb_f.name]
                hist = [i for i, c in enumerate(calls) if c.name != "self." + lim_f.name]
                shown.add(" -> ".join(norm(c.value) for c in calls))
                if any(c.in_loop for c in calls) or len(lim) != 1 or len(hist) != 1:
                    vs.append(None)
                    continue
                b = {k: _simp(v, flags) for k, v in _bind(calls[lim[0]], lim_f).items()}
                if lim[0] > hist[0]:
                    vs.append(False)
                    why.add("the limits are applied after the histogram is made")
                elif "min" in b and "max" in b:
                    good = _is_name(b["min"], "min") and _is_name(b["max"], "max")
                    bad = any(isinstance(b[k], ast.Name) and b[k].id in dh.params and b[k].id != k for k in ("min", "max")) or any(_is_none(b[k]) for k in ("min", "max"))
                    vs.append(True if good else (False if bad else None))
                    if bad:
                        why.add("the limits handed on are min=%s, max=%s" % (norm(b["min"]), norm(b["max"])))
                elif all(k in b or _is_none(lim_f.defaults.get(k)) for k in ("min", "max")):
                    vs.append(False)                       # a limit is left to the callee's default None: it is dropped
                    why.add("only %s handed on: the other limit is never applied" % (", ".join("%s=%s" % (k, norm(v)) for k, v in sorted(b.items())) or "no limit is"))
                else:
                    vs.append(None)
                if flags["nperbin"] is None:
                    if not hb:
                        vs.append(False if calls[hist[0]].name == hn else None)
                        why.add("the equal-occupancy histogram is made although nperbin is None")
                        continue
                    a = {k: _simp(v, flags) for k, v in _bind(calls[hb[0]], hb_f).items()}
                    want = hb_f.params[1:4]
                    if not all(k in a for k in want):
                        vs.append(None)
                        continue
                    for k, par in zip(want, ("binsize", "nbin", "rev")):
                        v = a[k]
                        if _is_name(v, par) or (par == "rev" and isinstance(v, ast.Constant) and v.value is True):
                            vs.append(True)
                        elif (isinstance(v, ast.Name) and v.id in dh.params) or isinstance(v, ast.Constant):
                            vs.append(False)
                            why.add("%s of the equal-width histogram is `%s`" % (k, norm(v)))
                        else:
                            vs.append(None)
    v = _verdict(vs)
    chk.ob("R05.5", "dohist::dispatch", v, dh.where(), "limits are applied first (min=min, max=max), then with no nperbin the binsize/nbin histogram is made from (binsize, nbin, rev)%s (%s)"
           % (" -- " + "; ".join(sorted(why)) if why and v is False else "", sorted(shown)[:4]))
