"""C08 -- angular separations equal the true great-circle angle.

The separation functions are lowered to symbolic terms by the term-domain
abstract interpreter (vcheck.symx) for every units option, and compared with
the stated formulas (DESIGN appendix C): chord formula with cross-product
branch near 180 degrees, spherical law of cosines with two-sided clipping,
lon/lat -> unit vector.  Units are decided by the same comparison (the
reference carries the deg->rad factors for the requested units).
"""
import ast

import sympy as sp

from vcheck import symx
from vcheck.core import PyRepo, AnalysisError, call_name, dotted_name, kwarg, norm, walk_no_nested

MANIFEST = dict(
    text="Formula conformance by symbolic normal forms (not numerical testing, not a behavioural proof): the chord-based and "
         "the cosine-based separation functions and the lon/lat->unit-vector conversion are abstractly interpreted over a term domain "
         "for every units option; the resulting terms are compared (sympy as normaliser) with the stated definitions carrying the "
         "unit factors of the requested option: 2*asin(|p1-p2|/2), pi - asin|p1 x p2| on the near-antipodal branch whose threshold on "
         "|p1-p2|^2 must lie in [3, 3.9999], acos(clip(sin d1 sin d2 + cos d1 cos d2 cos(dra), -1, 1)); every asin/acos argument is "
         "two-sided clipped or sits in the branch that bounds it; the exact-zero override for identical inputs is present after unit "
         "conversion; symmetry under exchange of the two points is decided symbolically; a per-point mask must not index the component "
         "axis of a stacked array; the single-argument where() must be applied to ndmin=1-normalised operands (scalar inputs).",
    note="Not decided: the 1e-11 / 2e-6 degree accuracy, finiteness under rounding. Trusted: sympy's normaliser (a failure to "
         "normalise two equal forms would be a false alarm; benign-twin self-tests guard the idioms in use), numpy element-wise semantics.",
    technique="static analysis: abstract interpretation over a symbolic term domain with algebraic normal-form comparison (sympy as normaliser), AST rank/shape rules",
)

CO = "esutil.coords."


def conv(x, units):
    return x * sp.pi / 180 if units == "deg" else x


def xyz(ra, dec, units):
    r, d = conv(ra, units), conv(dec, units)
    return sp.cos(r) * sp.cos(d), sp.sin(r) * sp.cos(d), sp.sin(d)


def pieces(e):
    """[(value, cond)] of a Piecewise (or [(e, True)])"""
    if isinstance(e, sp.Piecewise):
        return [(v, c) for v, c in e.args]
    return [(e, sp.true)]


def strip_factor(e):
    """split a leading numeric factor: e = k * rest"""
    k, rest = e.as_coeff_Mul()
    return k, rest


# rules that keep their verdict however the code is laid out (decided by term equality, effect analysis or dominance over
# resolved calls); every other rule of this check is a template rule (vcheck.core.Check.obt)
SEMANTIC = ('R08.2', 'R08.4', 'R08.5', 'R08.6', 'R08.7')


def run(chk):
    repo = PyRepo()
    chk.set_templates(repo, semantic=SEMANTIC)
    chk.explanation = MANIFEST["text"]
    chk.trusted = ["sympy normaliser", "numpy element-wise semantics", "CPython ast"]
    chk.floor = 30
    se = symx.SymEval(repo, opaque={CO + "atbound", CO + "atbound2"})
    ra1, dec1, ra2, dec2 = symx.symbols("ra1", "dec1", "ra2", "dec2")
    ra, dec = symx.symbols("ra", "dec")

    # ---- the term domain below ignores aliasing: the four coordinate arguments must never be written (the same array may be
    # passed for two of them, e.g. gcirc(ra1, dec, ra2, dec), and an in-place unit conversion would then be applied twice)
    from vcheck import effects
    from checks.C15 import analyse_with_arrays
    eng = effects.Effects(repo, {})
    for q, params, variants in ((CO + "gcirc", ["ra1deg", "dec1deg", "ra2deg", "dec2deg"], [{"getangle": False}, {"getangle": True}]),
                                (CO + "sphdist", ["ra1", "dec1", "ra2", "dec2"], [{}]),
                                (CO + "eq2xyz", ["ra", "dec"], [{"units": "deg"}, {"units": "rad"}])):
        f0 = repo.func(q)
        for flags in variants:
            s0 = analyse_with_arrays(eng, f0, params, flags)
            for p_ in params:
                sites = [st for st in s0.mut.get(p_, []) if st.kind in ("data", "meta")]
                fl = ",".join("%s=%s" % kv for kv in sorted(flags.items()))
                chk.ob("R08.7", "%s(%s)%s" % (f0.name, p_, "[%s]" % fl if fl else ""), not sites, sites[0].where() if sites else f0.where(),
                       "argument `%s` is never written%s" % (p_, "" if not sites else ": " + sites[0].describe()))

    # ---- lon/lat -> unit vector -------------------------------------------
    fi = repo.func(CO + "eq2xyz")
    chk.analysed_unit(fi.qualname)
    for units in ("deg", "rad"):
        r = se.run(fi, {"ra": ra, "dec": dec}, {"units": units, "stomp": False})
        ref = xyz(ra, dec, units)
        ok = isinstance(r, tuple) and len(r) == 3
        for i, nm in enumerate("xyz"):
            eq = ok and symx.equal(r[i], ref[i])[0]
            chk.ob("R08.4", "eq2xyz[units=%s]::%s" % (units, nm), bool(eq), fi.where(),
                   "%s component for units=%s is %s (found %s)" % (nm, units, ref[i], r[i] if ok else r))
        if ok:
            nrm = sp.simplify(r[0] ** 2 + r[1] ** 2 + r[2] ** 2)
            chk.ob("R08.4", "eq2xyz[units=%s]::unit-length" % units, nrm == 1, fi.where(), "x^2+y^2+z^2 simplifies to 1 symbolically (got %s)" % nrm)

    # ---- chord-based separation -----------------------------------------------
    fi = repo.func(CO + "sphdist")
    chk.analysed_unit(fi.qualname)
    for uin in ("deg", "rad"):
        for uout in ("deg", "rad"):
            se.issues = []
            r = se.run(fi, {"ra1": ra1, "dec1": dec1, "ra2": ra2, "dec2": dec2, "units": (uin, uout)}, {})
            tag = "sphdist[units=%s,%s]" % (uin, uout)
            for wh, txt in se.issues:
                chk.ob("R08.6", "sphdist::mask-on-point-axis::" + txt.split("`")[1], False, wh, txt)
            if not se.issues:
                chk.ob("R08.6", tag + "::mask-on-point-axis", True, fi.where(), "per-point masks index per-point axes only")
            check_chord(chk, fi, tag, r, (ra1, dec1, ra2, dec2), uin, uout)

    # ---- cosine-based separation -----------------------------------------------
    fi = repo.func(CO + "gcirc")
    chk.analysed_unit(fi.qualname)
    r = se.run(fi, {"ra1deg": ra1, "dec1deg": dec1, "ra2deg": ra2, "dec2deg": dec2}, {"getangle": False})
    check_cosine(chk, fi, r, (ra1, dec1, ra2, dec2))

    # ---- scalar / array uniformity ---------------------------------------------
    for q in (CO + "sphdist", CO + "gcirc"):
        rank_rule(chk, repo, repo.func(q))


def check_chord(chk, fi, tag, r, syms, uin, uout):
    ra1, dec1, ra2, dec2 = syms
    p1 = xyz(ra1, dec1, uin)
    p2 = xyz(ra2, dec2, uin)
    dsq = sum((a - b) ** 2 for a, b in zip(p1, p2))
    cross = (p1[1] * p2[2] - p1[2] * p2[1], p1[2] * p2[0] - p1[0] * p2[2], p1[0] * p2[1] - p1[1] * p2[0])
    crosssq = sum(c ** 2 for c in cross)
    outf = sp.Integer(180) / sp.pi if uout == "deg" else sp.Integer(1)
    ps = pieces(r) if isinstance(r, sp.Basic) else []
    # exact-zero override
    zero = [(v, c) for v, c in ps if v == 0]
    ok = len(zero) == 1 and _is_identity_cond(zero[0][1], syms)
    chk.ob("R08.3", tag + "::exact-zero-for-identical-inputs", ok, fi.where(),
           "identical inputs give exactly 0 (override piece: %s)" % (zero[0][1] if zero else "MISSING"))
    rest = [(v, c) for v, c in ps if v != 0]
    chk.ob("R08.3", tag + "::override-applied-last", len(rest) == 1 and rest[0][1] == sp.true, fi.where(),
           "the override is applied to the converted result (after unit conversion)")
    if len(rest) != 1:
        return
    body = rest[0][0]
    # pull out the unit factor
    inner = None
    if isinstance(body, sp.Piecewise):
        inner, k = body, sp.Integer(1)
    else:
        k, restm = body.as_independent(*syms, as_Add=False)
        inner = restm if isinstance(restm, sp.Piecewise) else None
    okf = inner is not None and sp.simplify(k - outf) == 0
    chk.ob("R08.1", tag + "::output-unit-factor", bool(okf), fi.where(),
           "the result is converted by the factor %s for units_out=%s (found factor %s)" % (outf, uout, k if inner is not None else "?"))
    if inner is None:
        chk.ob("R08.4", tag + "::two-branch-structure", False, fi.where(), "expected chord / cross-product branches, found %s" % sp.srepr(body)[:200])
        return
    ip = pieces(inner)
    chk.ob("R08.4", tag + "::two-branch-structure", len(ip) == 2 and ip[1][1] == sp.true, fi.where(), "chord branch with a near-antipodal override branch")
    if len(ip) != 2:
        return
    (crossv, crossc), (chordv, _) = ip
    eq, d = symx.equal(chordv, 2 * sp.asin(sp.sqrt(dsq) / 2))
    chk.ob("R08.4", tag + "::chord-formula", eq, fi.where(), "chord branch is 2*asin(|p1-p2|/2) with inputs in %s%s" % (uin, "" if eq else " (difference %s)" % str(d)[:200]))
    eq, d = symx.equal(crossv, sp.pi - sp.asin(sp.sqrt(crosssq)))
    chk.ob("R08.4", tag + "::cross-product-formula", eq, fi.where(), "near-antipodal branch is pi - asin|p1 x p2|%s" % ("" if eq else " (difference %s)" % str(d)[:200]))
    # threshold
    thr = None
    if isinstance(crossc, (sp.Ge, sp.Gt)):
        lhs, rhs = crossc.lhs, crossc.rhs
        if symx.equal(lhs, dsq)[0] and rhs.is_number:
            thr = rhs
    elif isinstance(crossc, (sp.Le, sp.Lt)):
        lhs, rhs = crossc.lhs, crossc.rhs
        if symx.equal(rhs, dsq)[0] and lhs.is_number:
            thr = lhs
    ok = thr is not None and sp.Rational(3) <= thr <= sp.Rational(39999, 10000)
    chk.ob("R08.2", tag + "::antipodal-threshold", bool(ok), fi.where(),
           "the cross-product branch takes over for |p1-p2|^2 >= t with t in [3, 3.9999] (keeps asin's argument away from 1 in both branches): t = %s" % thr)
    # symmetry under exchange of the points
    sw = {ra1: ra2, ra2: ra1, dec1: dec2, dec2: dec1}
    for nm, v in (("chord", chordv), ("cross", crossv)):
        eq, _ = symx.equal(v, v.xreplace(sw))
        chk.ob("R08.7", "%s::symmetric::%s" % (tag, nm), eq, fi.where(), "the %s branch is symmetric under exchange of the two points" % nm)
    # asin arguments: only the two whitelisted forms
    args = {a.args[0] for a in inner.atoms(sp.asin)} | {a.args[0] for a in inner.atoms(sp.acos)}
    chk.ob("R08.2", tag + "::inverse-trig-arguments", len(args) == 2, fi.where(),
           "inverse trig is applied only to |p1-p2|/2 (bounded by sqrt(t)/2 < 1 outside the override) and |p1 x p2| (small on the override branch): %d distinct arguments" % len(args))


def _is_identity_cond(c, syms):
    ra1, dec1, ra2, dec2 = syms
    if not isinstance(c, sp.And):
        return False
    ok = 0
    for a in c.args:
        if isinstance(a, sp.Eq):
            d = sp.simplify(a.lhs - a.rhs)
            for x, y in ((ra1, ra2), (dec1, dec2)):
                q = sp.simplify(d / (x - y))
                if q.is_number and q != 0:
                    ok += 1
    return ok == 2 and len(c.args) == 2


def check_cosine(chk, fi, r, syms):
    ra1, dec1, ra2, dec2 = syms
    tag = "gcirc"
    ps = pieces(r) if isinstance(r, sp.Basic) else []
    zero = [(v, c) for v, c in ps if v == 0]
    ok = len(zero) == 1 and _is_identity_cond(zero[0][1], syms)
    chk.ob("R08.3", tag + "::exact-zero-for-identical-inputs", ok, fi.where(), "identical inputs give exactly 0 (override piece: %s)" % (zero[0][1] if zero else "MISSING"))
    rest = [(v, c) for v, c in ps if v != 0]
    if len(rest) != 1:
        chk.ob("R08.4", tag + "::law-of-cosines", False, fi.where(), "unexpected structure %s" % str(r)[:200])
        return
    body = rest[0][0]
    d2r = sp.pi / 180
    cosd = sp.sin(dec1 * d2r) * sp.sin(dec2 * d2r) + sp.cos(dec1 * d2r) * sp.cos(dec2 * d2r) * sp.cos((ra2 - ra1) * d2r)
    CL = sp.Function("CLIP")
    ok = isinstance(body, sp.acos) and isinstance(body.args[0], CL)
    chk.ob("R08.2", tag + "::two-sided-clip-before-acos", bool(ok) and body.args[0].args[1:] == (-1, 1), fi.where(),
           "acos is applied to a value clipped to [-1, 1] on both sides (found %s)" % str(body)[:120])
    if ok:
        eq, d = symx.equal(body.args[0].args[0], cosd)
        chk.ob("R08.4", tag + "::law-of-cosines", eq, fi.where(), "cos(d) = sin d1 sin d2 + cos d1 cos d2 cos(ra2-ra1), degrees in, radians out%s" % ("" if eq else " (difference %s)" % str(d)[:200]))
        sw = {ra1: ra2, ra2: ra1, dec1: dec2, dec2: dec1}
        eq, _ = symx.equal(body.args[0].args[0], body.args[0].args[0].xreplace(sw))
        chk.ob("R08.7", tag + "::symmetric", eq, fi.where(), "symmetric under exchange of the two points")
    chk.ob("R08.1", tag + "::radians-out", ok and not body.has(sp.pi) or (ok and body.args[0].has(sp.pi) and body.func == sp.acos), fi.where(),
           "documented units: degrees in, radians out (no conversion factor on the result)")


def rank_rule(chk, repo, fi):
    """single-argument where(cond): cond must involve a value normalised to >= 1-d (0-d conditions raise in numpy >= 2)"""
    fn = fi.node
    params = set(fi.params)
    rank1 = set()
    changed = True
    assigns = sorted([x for x in walk_no_nested(fn) if isinstance(x, ast.Assign)], key=lambda x: x.lineno)
    while changed:
        changed = False
        for a in assigns:
            v = a.value
            is1 = False
            if isinstance(v, ast.Call):
                nm = call_name(v)
                nd = kwarg(v, "ndmin")
                if nm == "atleast_1d" or (nm == "array" and nd is not None and norm(nd) == "1"):
                    is1 = True
                elif nm in ("eq2xyz", "xyz2eq", "_thetaphi2xyz"):
                    is1 = True          # package converters return ndmin=1 arrays (their own rank rule is checked where they are anchored)
            if not is1:
                is1 = any(isinstance(x, ast.Name) and x.id in rank1 for x in ast.walk(v)) and not isinstance(v, ast.Call)
                if isinstance(v, ast.Call) and call_name(v) in ("sin", "cos", "sqrt", "arcsin", "arccos", "arctan2", "abs", "cross"):
                    is1 = any(isinstance(x, ast.Name) and x.id in rank1 for x in ast.walk(v))
            if is1:
                for t in a.targets:
                    for x in ast.walk(t):
                        if isinstance(x, ast.Name) and x.id not in rank1:
                            rank1.add(x.id)
                            changed = True
    n = 0
    for x in walk_no_nested(fn):
        if isinstance(x, ast.Call) and call_name(x) == "where" and len(x.args) == 1:
            n += 1
            names = {y.id for y in ast.walk(x.args[0]) if isinstance(y, ast.Name)}
            ok = bool(names & rank1)
            raw = sorted(names & params)
            chk.ob("R08.5", "%s::where-on-normalised-operands::%s" % (fi.qualname, norm(x.args[0])), ok, fi.where(x),
                   "`%s`: the condition must be built from values normalised with ndmin=1 / atleast_1d%s"
                   % (norm(x), "" if ok else "; it is built from the raw arguments %s, so all-scalar inputs give a 0-d condition and numpy.where raises" % raw))
    chk.ob("R08.5", fi.qualname + "::where-calls-found", n >= 1, fi.where(), "%d single-argument where() calls examined" % n)
