"""C08 -- angular separations equal the true great-circle angle.

The separation functions are lowered to symbolic terms by the term-domain
abstract interpreter (vcheck.symx) for every units option, and compared with
the stated formulas (DESIGN appendix C): chord formula with cross-product
branch near 180 degrees, spherical law of cosines with two-sided clipping,
lon/lat -> unit vector.  Units are decided by the same comparison (the
reference carries the deg->rad factors for the requested units).
"""
import ast
import os

import sympy as sp

from vcheck import symx
from vcheck.core import PyRepo, call_name, dotted_name, kwarg, norm

MANIFEST = dict(
    text="Formula conformance by symbolic normal forms (not numerical testing, not a behavioural proof): the chord-based and "
         "the cosine-based separation functions and the lon/lat->unit-vector conversion are abstractly interpreted over a term domain "
         "for every units option; the resulting terms are compared (sympy as normaliser) with the stated definitions carrying the "
         "unit factors of the requested option: 2*asin(|p1-p2|/2), pi - asin|p1 x p2| on the near-antipodal branch whose threshold on "
         "|p1-p2|^2 must lie in [3, 3.9999], acos(clip(sin d1 sin d2 + cos d1 cos d2 cos(dra), -1, 1)); every asin/acos argument is "
         "two-sided clipped or sits in the branch that bounds it; the small quantity under the root of either piece is a sum of terms that vanish one by one in the degenerate "
         "configuration (order-of-magnitude abstract interpretation: no cancellation of terms of order one directly under the root); "
         "an input angle is reduced (%) only modulo a whole number of turns in its own unit, for every units option; "
         "the exact-zero override for identical inputs is a piece of the result "
         "(in the output unit) that no other piece overrides; conversely every piece that is the constant 0 is selected by a condition "
         "that implies identical inputs (equalities that pin both coordinates; a condition shown to hold identically on a symbolic family "
         "of distinct pairs, or a tolerance comparison holding with slack at identical inputs, is a violation; np.isclose is read as "
         "|a-b| <= atol + rtol*|b|); symmetry under exchange of the two points is decided symbolically; a "
         "per-point mask must not index the component axis of a stacked array; rank provenance from the raw arguments: single-argument "
         "where()/nonzero() needs a condition reached by ndmin=1-normalised values and .any()/.all() a numpy-typed receiver when the "
         "inputs are scalars (boolean-mask subscripts work for every rank); a boolean option of a separation function (getangle) does not "
         "change the separation: the function is evaluated for both values and the separation components must be the same decision list "
         "(a missing exact-zero override or a constant factor is a violation); dtype provenance from the coordinate arguments over a "
         "five-point domain (forced float64 / forced lower / the caller's dtype / python number / unknown): every rounding ufunc and "
         "arithmetic operator the separation is computed with must work on values forced to float64, not on values that still carry "
         "the caller's dtype (float32 coordinates would be converted and run through sin/cos in single precision).",
    note="Not decided: the 1e-11 / 2e-6 degree accuracy beyond the conditioning rule (a structural necessary condition), finiteness under rounding. Trusted: sympy's normaliser (a failure to "
         "normalise two equal forms would be a false alarm; benign-twin self-tests guard the idioms in use), numpy element-wise semantics.",
    technique="static analysis: abstract interpretation over a symbolic term domain with algebraic normal-form comparison (sympy as normaliser), AST rank/shape rules",
)

CO = "esutil.coords."


def conv(x, units):
    return x * sp.pi / 180 if units == "deg" else x


def xyz(ra, dec, units):
    r, d = conv(ra, units), conv(dec, units)
    return sp.cos(r) * sp.cos(d), sp.sin(r) * sp.cos(d), sp.sin(d)


# rules that keep their verdict however the code is laid out (decided by term equality, effect analysis or dominance over
# resolved calls); every other rule of this check is a template rule (vcheck.core.Check.obt)
SEMANTIC = ('R08.2', 'R08.4', 'R08.5', 'R08.6', 'R08.7', 'R08.8', 'R08.9', 'R08.10', 'R08.11', 'R08.12')


def source_repo():
    """the sources as they are written.  Every rule of this check is decided on data flow (term equality, effect analysis, rank
    provenance) and looks only at the names of the public functions and of their parameters, so nothing here needs the locals renamed
    back to the baseline's names; the rename-undo can merge two locals that are live at the same time into one name (a new temporary
    whose defining statement has the shape of another local's, e.g. `cosphi = cos(phi)` next to `z = sin(phi)`), which changes the
    function the term domain evaluates."""
    old = os.environ.get("VCHECK_NO_RENAME")
    os.environ["VCHECK_NO_RENAME"] = "1"
    try:
        return PyRepo()
    finally:
        if old is None:
            os.environ.pop("VCHECK_NO_RENAME", None)
        else:
            os.environ["VCHECK_NO_RENAME"] = old


# --------------------------------------------------------------------------
# the evaluator: vcheck.symx's term interpreter extended with the idioms the separation functions may be written in
# --------------------------------------------------------------------------
#   * functions as values: a numpy / math / package function named without being called (an entry of a module-level dispatch table
#     such as {"deg": np.deg2rad}, a local `convert = table.get(units)`) is a function reference; calling the variable that holds it
#     is the call of that function (in-place `out` operands included);
#   * *args of an inlined package helper: the extra positional arguments are bound to a list; an element updated in place through
#     the loop variable (`for a in arrays: np.deg2rad(a, a)`) is updated in the caller's variable, as for a named parameter;
#   * index arrays: np.nonzero(cond) / np.flatnonzero(cond) / cond.nonzero() select the same elements, in the same order, as the
#     boolean mask (like single-argument np.where);
#   * np.stack / np.vstack of per-point arrays along the first axis is the sequence of components (like np.array([x, y, z]));
#   * np.sum(components, axis=0) / components.sum(axis=0) is the sum of the components; np.linalg.norm(components, axis=0) its root;
#   * `mask.all()` / `np.all(mask)` as a test: "this element satisfies the condition and so do all the others", the second part an
#     unknown of its own (a whole-array fast path is taken for some inputs and not for others; see drop_shortcuts).
#   * a loop over a literal sequence of local names whose body updates the loop variable in place (`for a in (ra1, dec1, ra2, dec2):
#     np.deg2rad(a, out=a)`) updates the named arrays (the loop variable is the array itself); a body that re-binds the loop variable
#     is left to the base evaluator (a re-bound name no longer is the element);
#   * record classes: calling a package class that is a typing.NamedTuple / a plain @dataclass without a constructor of its own makes
#     a record of its fields (positional arguments in field order, keywords by name, class-level defaults); `rec.field` reads the
#     field.  Anything else done with the record (indexing, unpacking, its methods) is not interpreted (no verdict).

class FnRef(symx.Opaque):
    """a function named without being called; `what` is its fully qualified name"""


class Record(dict):
    """the value of a record class instance: field name -> value"""
    cls = ""


_RECORD_CACHE = {}
_DATACLASS_FLAGS = ("frozen", "eq", "order", "repr", "slots", "unsafe_hash")


def _record_fields(repo, mod, cls):
    """[(field, default expression or None)] in constructor order when `cls` (a ClassDef of module `mod`) is a record class whose
    constructor does nothing but store its arguments: `class C(NamedTuple)` or a plain `@dataclass`, the body made of annotated
    fields (and methods other than a constructor / attribute hooks); None for every other class"""
    key = (mod.name, cls.name)
    if key in _RECORD_CACHE:
        return _RECORD_CACHE[key]
    _RECORD_CACHE[key] = None

    def res(n):
        d = dotted_name(n)
        return repo.resolve_name(mod, d) if d else ""

    named = len(cls.bases) == 1 and res(cls.bases[0]) == "typing.NamedTuple" and not cls.keywords and not cls.decorator_list
    data = False
    if not cls.bases and not cls.keywords and len(cls.decorator_list) == 1:
        dec = cls.decorator_list[0]
        if isinstance(dec, ast.Call):
            data = res(dec.func) == "dataclasses.dataclass" and not dec.args and all(
                k.arg in _DATACLASS_FLAGS and isinstance(k.value, ast.Constant) for k in dec.keywords)
        else:
            data = res(dec) == "dataclasses.dataclass"
    if not (named or data):
        return None
    fields = []
    for st in cls.body:
        if isinstance(st, ast.Expr) and isinstance(st.value, ast.Constant):
            continue
        if isinstance(st, ast.Pass):
            continue
        if isinstance(st, (ast.FunctionDef, ast.AsyncFunctionDef)):
            if st.name in ("__new__", "__init__", "__post_init__", "__getattr__", "__getattribute__", "__setattr__", "__init_subclass__"):
                return None
            continue
        if isinstance(st, ast.AnnAssign) and isinstance(st.target, ast.Name) and st.simple:
            if any(isinstance(x, (ast.Name, ast.Attribute)) and (x.id if isinstance(x, ast.Name) else x.attr) in ("ClassVar", "InitVar", "KW_ONLY")
                   for x in ast.walk(st.annotation)):
                return None
            if st.value is not None and isinstance(st.value, ast.Call) and call_name(st.value) == "field":
                return None
            if st.value is None and any(dflt is not None for _, dflt in fields):
                return None
            fields.append((st.target.id, st.value))
            continue
        return None
    if not fields or len({f for f, _ in fields}) != len(fields):
        return None
    _RECORD_CACHE[key] = fields
    return fields


def _rebinds(stmts, name):
    """a statement of the block gives `name` a new value (as opposed to updating, in place, the object it names)"""
    def bound(t):
        if isinstance(t, ast.Name):
            return t.id == name
        if isinstance(t, (ast.Tuple, ast.List)):
            return any(bound(x) for x in t.elts)
        if isinstance(t, ast.Starred):
            return bound(t.value)
        return False
    for st in stmts:
        for x in ast.walk(st):
            if isinstance(x, ast.Assign) and any(bound(t) for t in x.targets):
                return True
            if isinstance(x, (ast.AnnAssign, ast.AugAssign, ast.NamedExpr, ast.For, ast.AsyncFor)) and bound(x.target):
                return True          # `a *= k` is in place for an array and a new object for a python number: not decided here
            if isinstance(x, ast.comprehension) and bound(x.target):
                return True
            if isinstance(x, (ast.With, ast.AsyncWith)) and any(it.optional_vars is not None and bound(it.optional_vars) for it in x.items):
                return True
            if isinstance(x, ast.ExceptHandler) and x.name == name:
                return True
            if isinstance(x, (ast.Import, ast.ImportFrom)) and any((al.asname or al.name.split(".")[0]) == name for al in x.names):
                return True
            if isinstance(x, (ast.Global, ast.Nonlocal)) and name in x.names:
                return True
            if isinstance(x, (ast.FunctionDef, ast.AsyncFunctionDef, ast.ClassDef)) and x.name == name:
                return True
            if isinstance(x, ast.Delete) and any(bound(t) for t in x.targets):
                return True
    return False


_NOT_FUNCS =("numpy.pi", "math.pi", "numpy.e", "math.e", "numpy.inf", "math.inf", "numpy.nan", "math.nan", "numpy.newaxis")

# numpy's functional spellings of the operators on element-wise conditions (boolean arrays)
_MASK_NOT = {"numpy.logical_not", "numpy.invert", "numpy.bitwise_not", "numpy.bitwise_invert"}
_MASK_BIN = {"numpy.logical_and": sp.And, "numpy.bitwise_and": sp.And, "numpy.logical_or": sp.Or, "numpy.bitwise_or": sp.Or,
             "numpy.logical_xor": sp.Xor, "numpy.bitwise_xor": sp.Xor}
_MASK_CMP = {"numpy.equal": ast.Eq, "numpy.not_equal": ast.NotEq, "numpy.less": ast.Lt, "numpy.less_equal": ast.LtE,
             "numpy.greater": ast.Gt, "numpy.greater_equal": ast.GtE}
# numpy functions that write their first argument in place
_NP_WRITERS = {"numpy.putmask", "numpy.place", "numpy.copyto", "numpy.put", "numpy.put_along_axis", "numpy.fill_diagonal"}


def _cond_of(x, ints=False):
    """the condition a value stands for where an element-wise condition is expected: a mask, a python truth value (broadcast), and
    (in a comparison with a mask only) the integers 0 and 1, which compare equal to False and True; None for anything else"""
    if isinstance(x, symx.Mask):
        return x.cond
    if isinstance(x, bool):
        return sp.true if x else sp.false
    if ints and isinstance(x, (int, sp.Integer)) and x in (0, 1):
        return sp.true if x == 1 else sp.false
    return None


class SepEnv(symx.Env):
    # ---- names ---------------------------------------------------------------------------------------------------------------
    def _shadowed(self, head):
        return head in self.vars or head in self.pins or head in self.flags

    def ev(self, e, stmt_level=False):
        if isinstance(e, ast.Name) and not self._shadowed(e.id):
            v = symx.Env.ev(self, e, stmt_level)
            if type(v) is symx.Opaque:
                if v.what.startswith(("numpy.", "math.")) and v.what not in _NOT_FUNCS:
                    return FnRef(v.what)
                if v.what == e.id and e.id in self.mod.funcs and self.se.repo.has(self.mod.name + "." + e.id):
                    return FnRef(self.mod.name + "." + e.id)
            return v
        if isinstance(e, ast.Attribute):
            if isinstance(e.value, ast.Name) and e.value.id not in self.pins and isinstance(self.vars.get(e.value.id), Record) \
                    and norm(e) not in self.vars and norm(e) not in self.flags:
                rec = self.vars[e.value.id]
                return rec[e.attr] if e.attr in rec else symx.Opaque(norm(e))
            d = dotted_name(e)
            if d and not self._shadowed(d.split(".")[0]) and norm(e) not in self.vars and norm(e) not in self.flags:
                full = self.se.repo.resolve_name(self.mod, d)
                if full != d and full not in _NOT_FUNCS and (full.startswith(("numpy.", "math.")) or self.se.repo.has(full)):
                    try:
                        return symx.Env.ev(self, e, stmt_level)
                    except symx.Unsupported:
                        return FnRef(full)
        return symx.Env.ev(self, e, stmt_level)

    def _callee_expr(self, full):
        """an expression that names the function `full` in this module, or None"""
        cands = []
        if full.startswith(self.mod.name + ".") and full[len(self.mod.name) + 1:] in self.mod.funcs:
            cands.append(full[len(self.mod.name) + 1:])
        for alias, tgt in sorted(self.mod.imports.items()):
            if full == tgt:
                cands.append(alias)
            elif full.startswith(tgt + "."):
                cands.append(alias + full[len(tgt):])
        for dn in cands:
            parts = dn.split(".")
            if self._shadowed(parts[0]) or self.se.repo.resolve_name(self.mod, dn) != full:
                continue
            node = ast.Name(id=parts[0], ctx=ast.Load())
            for p in parts[1:]:
                node = ast.Attribute(value=node, attr=p, ctx=ast.Load())
            return node
        return None

    # ---- loops ---------------------------------------------------------------------------------------------------------------
    def exec_for(self, st, cond):
        tgt, it = st.target, st.iter
        if not (isinstance(it, (ast.Tuple, ast.List)) and isinstance(tgt, ast.Name) and 0 < len(it.elts) <= 64 and not st.orelse
                and tgt.id not in self.pins and not any(isinstance(x, ast.Starred) for x in it.elts)) or _rebinds(st.body, tgt.id):
            return symx.Env.exec_for(self, st, cond)
        # the loop variable names the element itself during the whole body: whatever the body does to it in place (out=, the output
        # operand of a ufunc, an inlined helper that writes its parameter) is done to the element
        vals = [self.ev(x) for x in it.elts]
        body_ = symx._continue_to_else(st.body)
        rets, updated = [], set()
        for x, v in zip(it.elts, vals):
            if isinstance(x, ast.Name) and x.id in updated:
                v = self.vars[x.id]                     # the same array listed twice: the second visit sees the first update
            self.vars[tgt.id] = v
            try:
                rets += self.exec_body(body_, cond)
            except symx._ContinueLoop as c_:
                if c_.cond != cond:
                    raise symx.Unsupported("symx: conditional continue at %s" % self.where(st))
            new = self.vars.get(tgt.id)
            if symx._same(new, v):
                continue
            if not (isinstance(x, ast.Name) and x.id in self.vars and x.id not in self.pins and x.id != tgt.id and symx._is_expr(new)):
                raise symx.Unsupported("symx: in-place update of the element `%s` through the loop variable `%s` at %s"
                                       % (norm(x), tgt.id, self.where(st)))
            self.vars[x.id] = new
            updated.add(x.id)
            if self.fi is not None and self.depth > 0 and x.id in [p.lstrip("*") for p in self.fi.params]:
                symx._inplace_params(self.fi).add(x.id)      # the caller of an inlined helper sees its argument updated
        return rets

    # ---- record classes ------------------------------------------------------------------------------------------------------
    def _record(self, full, c):
        """the record made by calling the record class `full`, or None when `full` is not one"""
        hit = self.se.repo.class_of(full)
        if hit is None:
            return None
        cmod, cls = hit
        fields = _record_fields(self.se.repo, cmod, cls)
        if fields is None:
            return None
        names = [f for f, _ in fields]
        if len(c.args) > len(names) or any(k.arg is None for k in c.keywords):
            raise symx.Unsupported("symx: call `%s` at %s" % (norm(c)[:60], self.where(c)))
        rec = Record()
        rec.cls = full
        for f, a in zip(names, c.args):
            rec[f] = self.ev(a)
        for k in c.keywords:
            if k.arg not in names or k.arg in rec:
                raise symx.Unsupported("symx: call `%s` at %s" % (norm(c)[:60], self.where(c)))
            rec[k.arg] = self.ev(k.value)
        for f, dflt in fields:
            if f not in rec:
                if dflt is None:
                    raise symx.Unsupported("symx: call `%s` at %s" % (norm(c)[:60], self.where(c)))
                rec[f] = type(self)(self.se, None, cmod, {}, {}).ev(dflt)
        return rec

    # ---- tests ---------------------------------------------------------------------------------------------------------------
    def truth(self, t):
        if isinstance(t, ast.Call) and not t.keywords:
            recv = None
            if isinstance(t.func, ast.Attribute) and t.func.attr == "all" and not t.args:
                recv = t.func.value
            elif len(t.args) == 1 and call_name(t) == "all":
                d = dotted_name(t.func)
                if d and not self._shadowed(d.split(".")[0]) and self.se.repo.resolve_name(self.mod, d) == "numpy.all":
                    recv = t.args[0]
            if recv is not None and isinstance(recv, (ast.Name, ast.Compare, ast.BinOp)):
                try:
                    v = self.ev(recv)
                except symx.Unsupported:
                    v = None
                if isinstance(v, symx.Mask):
                    self.se._alls = getattr(self.se, "_alls", 0) + 1
                    return sp.And(v.cond, sp.Symbol("ALL_OTHER_ELEMENTS_%d" % self.se._alls))
        # whole-array comparisons: np.array_equal(a, b) / np.array_equiv(a, b) is `(a == b).all()` (and the shapes agree, which
        # only narrows it further), np.allclose(a, b, ..) is `np.isclose(a, b, ..).all()`: this pair satisfies the element-wise
        # condition and so do all the others
        if isinstance(t, ast.Call) and len(t.args) >= 2 and not any(isinstance(a, ast.Starred) for a in t.args):
            d = dotted_name(t.func)
            full = self.se.repo.resolve_name(self.mod, d) if d and not self._shadowed(d.split(".")[0]) else ""
            elem = None
            if full in ("numpy.array_equal", "numpy.array_equiv") and len(t.args) == 2 and (
                    not t.keywords or (full == "numpy.array_equal" and len(t.keywords) == 1 and t.keywords[0].arg == "equal_nan"
                                       and isinstance(t.keywords[0].value, ast.Constant) and t.keywords[0].value.value is False)):
                elem = ast.copy_location(ast.Compare(left=t.args[0], ops=[ast.Eq()], comparators=[t.args[1]]), t)
            elif full == "numpy.allclose" and len(t.args) <= 4 and all(k.arg in ("rtol", "atol", "equal_nan") for k in t.keywords):
                node = self._callee_expr("numpy.isclose")
                if node is not None:
                    elem = ast.copy_location(ast.Call(func=ast.copy_location(node, t.func), args=t.args, keywords=t.keywords), t)
            if elem is not None:
                ast.fix_missing_locations(elem)
                try:
                    v = self.ev(elem)
                except symx.Unsupported:
                    v = None
                if isinstance(v, symx.Mask):
                    self.se._alls = getattr(self.se, "_alls", 0) + 1
                    return sp.And(v.cond, sp.Symbol("ALL_OTHER_ELEMENTS_%d" % self.se._alls))
        return symx.Env.truth(self, t)

    # ---- element-wise conditions: the spellings of boolean algebra on masks --------------------------------------------------
    def binop(self, op, a, b, node):
        if isinstance(op, (ast.BitAnd, ast.BitOr, ast.BitXor)) and (isinstance(a, symx.Mask) or isinstance(b, symx.Mask)):
            ca, cb = _cond_of(a), _cond_of(b)
            if ca is not None and cb is not None:
                return symx.Mask({ast.BitAnd: sp.And, ast.BitOr: sp.Or, ast.BitXor: sp.Xor}[type(op)](ca, cb))
        return symx.Env.binop(self, op, a, b, node)

    def compare(self, e):
        # mask == False / mask != True / mask == other_mask (element-wise: the negation, the mask, the equivalence).  The operands
        # are looked at before the general comparison only when evaluating them twice cannot matter (no call in them).
        if len(e.ops) == 1 and isinstance(e.ops[0], (ast.Eq, ast.NotEq)) \
                and not any(isinstance(x, (ast.Call, ast.NamedExpr, ast.Await, ast.Yield, ast.YieldFrom)) for x in ast.walk(e)):
            a, b = self.ev(e.left), self.ev(e.comparators[0])
            if isinstance(a, symx.Mask) or isinstance(b, symx.Mask):
                ca, cb = _cond_of(a, ints=True), _cond_of(b, ints=True)
                if ca is None or cb is None:
                    raise symx.Unsupported("symx: comparison of an element-wise condition with %r at %s" % (b if cb is None else a, self.where(e)))
                r = sp.Xor(ca, cb)
                return symx.Mask(sp.Not(r) if isinstance(e.ops[0], ast.Eq) else r)
        return symx.Env.compare(self, e)

    def _mask_call(self, full, c):
        """(True, value) for the numpy functions that are spellings of an operation on element-wise conditions, (False, None) for any
        other call: logical_not / invert / bitwise_not, logical_and / _or / _xor and bitwise_*, their .reduce and all / any over a
        literal sequence of conditions along the first axis, equal / not_equal / less / ... (the comparison operators), and the
        in-place selections putmask / place / copyto(where=), which are `a[mask] = v`."""
        args, kws = c.args, {k.arg for k in c.keywords}
        if full in _MASK_NOT and len(args) == 1 and not kws:
            m = _cond_of(self.ev(args[0]))
            return (True, symx.Mask(sp.Not(m))) if m is not None else (False, None)
        if full in _MASK_BIN and len(args) == 2 and not kws:
            a, b = self.ev(args[0]), self.ev(args[1])
            if isinstance(a, symx.Mask) or isinstance(b, symx.Mask):
                ca, cb = _cond_of(a), _cond_of(b)
                if ca is not None and cb is not None:
                    return True, symx.Mask(_MASK_BIN[full](ca, cb))
            return False, None
        red = full[:-len(".reduce")] if full.endswith(".reduce") else {"numpy.all": "numpy.logical_and", "numpy.any": "numpy.logical_or"}.get(full)
        if red in _MASK_BIN and red != "numpy.bitwise_xor" and red != "numpy.logical_xor" and len(args) >= 1 and kws <= {"axis"} \
                and len(args) + len(kws) <= 2 and isinstance(args[0], (ast.Tuple, ast.List, ast.Call)):
            # ufunc.reduce reduces along axis 0 by default; all / any reduce everything unless axis=0 is given
            axis0 = self._axis0(c, 1) if (len(args) + len(kws) == 2) else full.endswith(".reduce")
            seq = self.ev(args[0]) if axis0 else None
            if isinstance(seq, (tuple, list)) and len(seq) > 0 and all(isinstance(x, symx.Mask) for x in seq):
                return True, symx.Mask(_MASK_BIN[red](*[x.cond for x in seq]))
            return False, None
        if full in _MASK_CMP and len(args) == 2 and not kws:
            node = ast.copy_location(ast.Compare(left=args[0], ops=[_MASK_CMP[full]()], comparators=[args[1]]), c)
            return True, self.compare(node)
        if full in _NP_WRITERS:
            done = False
            if full in ("numpy.putmask", "numpy.place") and len(args) == 3 and not kws:
                base, m, v = self.ev(args[0]), _cond_of(self.ev(args[1])), self.ev(args[2])
                # one number for every selected element (a sequence of values is cycled / consumed in order, not aligned)
                if m is not None and symx._is_expr(base) and symx._is_expr(v) and symx._as_expr(v).is_number:
                    self.assign(args[0], sp.Piecewise((symx._as_expr(v), m), (symx._as_expr(base), True)), c)
                    done = True
            elif full == "numpy.copyto" and len(args) == 2 and kws <= {"where"}:
                base, v = self.ev(args[0]), self.ev(args[1])
                m = _cond_of(self.ev(kwarg(c, "where"))) if kws else sp.true
                if m is not None and symx._is_expr(base) and symx._is_expr(v):
                    self.assign(args[0], sp.Piecewise((symx._as_expr(v), m), (symx._as_expr(base), True)), c)
                    done = True
            if not done:
                # the call writes its first argument: ignoring it would leave the evaluation with a stale value
                raise symx.Unsupported("symx: in-place update `%s` at %s" % (norm(c)[:60], self.where(c)))
            return True, symx.Opaque(full)
        return False, None

    # ---- calls ---------------------------------------------------------------------------------------------------------------
    def _axis0(self, c, pos):
        ax = kwarg(c, "axis") or (c.args[pos] if len(c.args) > pos else None)
        return isinstance(ax, ast.Constant) and ax.value == 0 and not isinstance(ax.value, bool)

    @staticmethod
    def _components(x):
        return isinstance(x, (tuple, list)) and len(x) > 0 and all(symx._is_expr(y) for y in x)

    def call(self, c, stmt_level=False):
        f = c.func
        nm = call_name(c)
        d = dotted_name(f)
        # a function value: held in a variable, or looked up in a table at the call
        fv = None
        if isinstance(f, ast.Name) and isinstance(self.vars.get(f.id), FnRef) and f.id not in self.pins:
            fv = self.vars[f.id]
        elif isinstance(f, ast.Subscript) or (isinstance(f, ast.Call) and call_name(f) == "get"):
            fv = self.ev(f)
            if not isinstance(fv, FnRef):
                raise symx.Unsupported("symx: call `%s` at %s" % (norm(c)[:60], self.where(c)))
        if fv is not None:
            node = self._callee_expr(fv.what)
            if node is None:
                raise symx.Unsupported("symx: call of `%s` through a variable: no name for it in this module, at %s" % (fv.what, self.where(c)))
            c2 = ast.copy_location(ast.Call(func=ast.copy_location(node, f), args=c.args, keywords=c.keywords), c)
            ast.fix_missing_locations(c2)
            return self.call(c2, stmt_level)
        full = self.se.repo.resolve_name(self.mod, d) if d and not self._shadowed(d.split(".")[0]) else ""
        starred = any(isinstance(a, ast.Starred) for a in c.args)
        if full and not starred and not full.startswith(("numpy.", "math.")) and not self.se.repo.has(full):
            rec = self._record(full, c)
            if rec is not None:
                return rec
        if full.startswith("numpy.") and not starred:
            handled, r = self._mask_call(full, c)
            if handled:
                return r
            if full in ("numpy.atleast_1d", "numpy.atleast_2d", "numpy.atleast_3d", "numpy.broadcast_arrays") and len(c.args) > 1 and not c.keywords:
                # several arrays normalised in one call: the sequence of the results, each the value of its argument (the term domain
                # is element-wise: shape normalisation and broadcasting do not change an element)
                vals = [self.ev(a) for a in c.args]
                if all(symx._is_expr(v) for v in vals):
                    return tuple(vals)
                raise symx.Unsupported("symx: call `%s` at %s" % (norm(c)[:60], self.where(c)))
            if full in ("numpy.nonzero", "numpy.flatnonzero") and len(c.args) == 1 and not c.keywords:
                m = self.ev(c.args[0])
                return m if isinstance(m, symx.Mask) else symx.Opaque(full)
            if full == "numpy.isclose" and 2 <= len(c.args) <= 4 and all(k.arg in ("rtol", "atol", "equal_nan") for k in c.keywords):
                # numpy's definition, element by element: |a - b| <= atol + rtol*|b| (defaults 1e-5 and 1e-8): a comparison with a
                # tolerance, which the rules see as the inequality it is (it is not an equality: R08.10)
                a, b = self.ev(c.args[0]), self.ev(c.args[1])
                tol = {}
                for i, nm_, dflt in ((2, "rtol", sp.Rational(1, 100000)), (3, "atol", sp.Rational(1, 100000000))):
                    node = c.args[i] if len(c.args) > i else kwarg(c, nm_)
                    tol[nm_] = dflt if node is None else self.ev(node)
                if all(symx._is_expr(x) for x in (a, b, tol["rtol"], tol["atol"])):
                    a, b = symx._as_expr(a), symx._as_expr(b)
                    rel = sp.Le(sp.Abs(a - b), symx._as_expr(tol["atol"]) + symx._as_expr(tol["rtol"]) * sp.Abs(b))
                    return bool(rel) if rel in (sp.true, sp.false) else symx.Mask(rel)
                return symx.Opaque(full)
            if full in ("numpy.stack", "numpy.vstack") and len(c.args) == 1 and isinstance(c.args[0], (ast.Tuple, ast.List)) \
                    and (not c.keywords or (full == "numpy.stack" and len(c.keywords) == 1 and self._axis0(c, 1))):
                x = self.ev(c.args[0])
                return tuple(x) if self._components(x) else symx.Opaque(full)
            if full == "numpy.sum" and c.args and self._axis0(c, 1) and len(c.args) + len(c.keywords) == 2:
                x = self.ev(c.args[0])
                if self._components(x):
                    return sp.Add(*[symx._as_expr(y) for y in x])
                return sp.Function("SUM")(symx._as_expr(x))
            if full == "numpy.linalg.norm" and c.args and self._axis0(c, 2) and len(c.args) + len(c.keywords) == 2 and kwarg(c, "axis") is not None:
                x = self.ev(c.args[0])
                if self._components(x):
                    return sp.sqrt(sp.Add(*[symx._as_expr(y) ** 2 for y in x]))
                return symx.Opaque(full)
        if isinstance(f, ast.Attribute) and not full:
            if nm == "nonzero" and not c.args and not c.keywords:
                m = self.ev(f.value)
                return m if isinstance(m, symx.Mask) else symx.Opaque("%s(...)" % norm(f))
            if nm == "sum" and self._axis0(c, 0) and len(c.args) + len(c.keywords) == 1:
                x = self.ev(f.value)
                if self._components(x):
                    return sp.Add(*[symx._as_expr(y) for y in x])
                return sp.Function("SUM")(symx._as_expr(x)) if symx._is_expr(x) else symx.Opaque("%s(...)" % norm(f))
        # package helper with *args
        if full and self.se.repo.has(full) and not starred:
            tgt = self.se.repo.func(full)
            if tgt.node.args.vararg is not None and not tgt.cls and full not in self.se.opaque and tgt.qualname not in self.se.opaque \
                    and self.depth < self.se.inline_depth:
                return self._inline_varargs(tgt, c)
        return symx.Env.call(self, c, stmt_level)

    def _inline_varargs(self, tgt, c):
        a = tgt.node.args
        pos = [x.arg for x in a.posonlyargs + a.args]
        va = a.vararg.arg
        vals = [self.ev(x) for x in c.args]
        bind = dict(zip(pos, vals))
        extra_nodes, extra = c.args[len(pos):], vals[len(pos):]
        bind[va] = list(extra)
        for k in c.keywords:
            if k.arg is None:
                raise symx.Unsupported("symx: **kwargs in call of %s at %s" % (tgt.name, self.where(c)))
            bind[k.arg] = self.ev(k.value)
        # the elements of *args are the caller's arrays: an update through the loop variable is taken as an update in place, which it
        # is not when the loop variable is simply re-bound
        loopvars = {st.target.id for st in ast.walk(tgt.node) if isinstance(st, ast.For) and isinstance(st.target, ast.Name)
                    and isinstance(st.iter, ast.Name) and st.iter.id == va}
        def bound(t):
            if isinstance(t, ast.Name):
                return {t.id}
            if isinstance(t, (ast.Tuple, ast.List)):
                return set().union(*[bound(x) for x in t.elts]) if t.elts else set()
            if isinstance(t, ast.Starred):
                return bound(t.value)
            return set()
        for st in ast.walk(tgt.node):
            ts = st.targets if isinstance(st, ast.Assign) else ([st.target] if isinstance(st, (ast.AnnAssign, ast.NamedExpr)) else [])
            for t in ts:
                if bound(t) & (loopvars | {va}):
                    raise symx.Unsupported("symx: %s re-binds an element of *%s at %s" % (tgt.name, va, tgt.where(st)))
        env = type(self)(self.se, tgt, tgt.module, dict(bind), {}, depth=self.depth + 1)
        for p in tgt.params:
            pn = p.lstrip("*")
            if pn not in env.vars:
                if pn in tgt.defaults:
                    env.vars[pn] = env.ev(tgt.defaults[pn])
                elif p.startswith("**"):
                    env.vars[pn] = {}
        rets = env.exec_body(tgt.node.body, sp.true)
        env.finish_returns(rets)
        inplace = symx._inplace_params(tgt)
        for p, an in zip(pos, c.args):
            if isinstance(an, ast.Name) and p in env.vars and not symx._same(env.vars[p], bind.get(p)) and symx._is_expr(env.vars[p]) and p in inplace:
                self.vars[an.id] = env.vars[p]
        new = env.vars.get(va)
        if not isinstance(new, list) or len(new) != len(extra):
            raise symx.Unsupported("symx: %s re-binds *%s at %s" % (tgt.name, va, tgt.where()))
        for an, old, nw in zip(extra_nodes, extra, new):
            if symx._same(old, nw):
                continue
            if not (isinstance(an, ast.Name) and symx._is_expr(nw)):
                raise symx.Unsupported("symx: in-place update of the argument `%s` by %s at %s" % (norm(an), tgt.name, self.where(c)))
            self.assign(an, nw, c)
        return env.result


class SepEval(symx.SymEval):
    def module_const(self, mod, name, depth=0):
        v = symx.SymEval.module_const(self, mod, name, depth)
        if v is None and name in mod.consts:
            key = (mod.name, name)
            own = self.__dict__.setdefault("_fn_consts", {})
            if key not in own:
                own[key] = None
                # a table of functions ({"deg": np.deg2rad}); tables filled by later statements are left to the base evaluator
                if isinstance(mod.consts[name], ast.Dict) and not any(
                        isinstance(x, ast.Subscript) and isinstance(x.ctx, ast.Store) and norm(x.value) == name for x in ast.walk(mod.tree)):
                    try:
                        own[key] = SepEnv(self, None, mod, {}, {}).ev(mod.consts[name])
                    except symx.Unsupported:
                        own[key] = None
            v = own[key]
        return v

    def run(self, fi, args, flags=None, depth=0, pins=None):
        flags = dict(flags or {})
        if depth == 0:
            self._alls = 0          # the whole-array unknowns are numbered per evaluation: two evaluations of one function agree
        env = SepEnv(self, fi, fi.module, dict(args), flags, depth=depth)
        env.pins = dict(pins or {})
        for p in fi.params:
            pn = p.lstrip("*")
            if pn not in env.vars:
                if pn in fi.defaults:
                    env.vars[pn] = env.ev(fi.defaults[pn])
                elif p.startswith("**"):
                    env.vars[pn] = {}
                elif p.startswith("*"):
                    env.vars[pn] = ()
        for k, v in flags.items():
            if k in [p.lstrip("*") for p in fi.params]:
                env.vars[k] = v
        rets = env.exec_body(fi.node.body, sp.true)
        env.finish_returns(rets)
        self.last_env = env
        return env.result


def run(chk):
    repo = source_repo()
    chk.set_templates(repo, semantic=SEMANTIC)
    chk.explanation = MANIFEST["text"]
    chk.trusted = ["sympy normaliser", "numpy element-wise semantics", "CPython ast"]
    chk.floor = 30
    se = SepEval(repo, opaque={CO + "atbound", CO + "atbound2"})
    ra1, dec1, ra2, dec2 = symx.symbols("ra1", "dec1", "ra2", "dec2")
    ra, dec = symx.symbols("ra", "dec")

    # ---- the term domain below ignores aliasing: the four coordinate arguments must never be written (the same array may be
    # passed for two of them, e.g. gcirc(ra1, dec, ra2, dec), and an in-place unit conversion would then be applied twice)
    from vcheck import effects
    from checks.C15 import analyse_with_arrays
    eng = effects.Effects(repo, {})
    for q, params, variants in ((CO + "gcirc", ["ra1deg", "dec1deg", "ra2deg", "dec2deg"], [{"getangle": False}, {"getangle": True}]),
                                (CO + "sphdist", ["ra1", "dec1", "ra2", "dec2"], [{}]),
                                (CO + "eq2xyz", ["ra", "dec"], [{"units": "deg"}, {"units": "rad"}])):
        f0 = repo.func(q)
        for flags in variants:
            s0 = analyse_with_arrays(eng, f0, params, flags)
            for p_ in params:
                sites = [st for st in s0.mut.get(p_, []) if st.kind in ("data", "meta")]
                fl = ",".join("%s=%s" % kv for kv in sorted(flags.items()))
                chk.ob("R08.7", "%s(%s)%s" % (f0.name, p_, "[%s]" % fl if fl else ""), not sites, sites[0].where() if sites else f0.where(),
                       "argument `%s` is never written%s" % (p_, "" if not sites else ": " + sites[0].describe()))

    # ---- lon/lat -> unit vector -------------------------------------------
    fi = repo.func(CO + "eq2xyz")
    chk.analysed_unit(fi.qualname)
    for units in ("deg", "rad"):
        r = se.run(fi, {"ra": ra, "dec": dec}, {"units": units, "stomp": False})
        ref = xyz(ra, dec, units)
        ok = isinstance(r, tuple) and len(r) == 3
        if ok and all(isinstance(x, sp.Basic) for x in r):
            r = tuple(reduction_rule(chk, fi, "eq2xyz[units=%s]" % units, sp.Tuple(*r), (ra, dec), units))
        for i, nm in enumerate("xyz"):
            eq = ok and symx.equal(r[i], ref[i])[0]
            chk.ob("R08.4", "eq2xyz[units=%s]::%s" % (units, nm), bool(eq), fi.where(),
                   "%s component for units=%s is %s (found %s)" % (nm, units, ref[i], r[i] if ok else r))
        if ok:
            nrm = sp.simplify(r[0] ** 2 + r[1] ** 2 + r[2] ** 2)
            chk.ob("R08.4", "eq2xyz[units=%s]::unit-length" % units, nrm == 1, fi.where(), "x^2+y^2+z^2 simplifies to 1 symbolically (got %s)" % nrm)

    # ---- chord-based separation -----------------------------------------------
    fi = repo.func(CO + "sphdist")
    chk.analysed_unit(fi.qualname)
    for uin in ("deg", "rad"):
        for uout in ("deg", "rad"):
            se.issues = []
            r = se.run(fi, {"ra1": ra1, "dec1": dec1, "ra2": ra2, "dec2": dec2, "units": (uin, uout)}, {})
            tag = "sphdist[units=%s,%s]" % (uin, uout)
            for wh, txt in se.issues:
                chk.ob("R08.6", "sphdist::mask-on-point-axis::" + txt.split("`")[1], False, wh, txt)
            if not se.issues:
                chk.ob("R08.6", tag + "::mask-on-point-axis", True, fi.where(), "per-point masks index per-point axes only")
            r = reduction_rule(chk, fi, tag, r, (ra1, dec1, ra2, dec2), uin)
            check_chord(chk, fi, tag, r, (ra1, dec1, ra2, dec2), uin, uout)
            if uin == uout:
                option_invariance_rule(chk, se, fi, tag, {"ra1": ra1, "dec1": dec1, "ra2": ra2, "dec2": dec2, "units": (uin, uout)}, {}, r,
                                       (ra1, dec1, ra2, dec2), uin)

    # ---- cosine-based separation -----------------------------------------------
    fi = repo.func(CO + "gcirc")
    chk.analysed_unit(fi.qualname)
    r = se.run(fi, {"ra1deg": ra1, "dec1deg": dec1, "ra2deg": ra2, "dec2deg": dec2}, {"getangle": False})
    r = reduction_rule(chk, fi, "gcirc", r, (ra1, dec1, ra2, dec2), "deg")
    check_cosine(chk, fi, r, (ra1, dec1, ra2, dec2))
    option_invariance_rule(chk, se, fi, "gcirc", {"ra1deg": ra1, "dec1deg": dec1, "ra2deg": ra2, "dec2deg": dec2}, {"getangle": False}, r,
                           (ra1, dec1, ra2, dec2), "deg")

    # ---- double precision whatever the caller's dtype -----------------------------
    precision_rule(chk, repo, repo.func(CO + "sphdist"), "sphdist[units_in=deg]", ["ra1", "dec1", "ra2", "dec2"], {"units": ("deg", "deg")})
    precision_rule(chk, repo, repo.func(CO + "sphdist"), "sphdist[units_in=rad]", ["ra1", "dec1", "ra2", "dec2"], {"units": ("rad", "rad")})
    precision_rule(chk, repo, repo.func(CO + "gcirc"), "gcirc", ["ra1deg", "dec1deg", "ra2deg", "dec2deg"], {"getangle": None})

    # ---- scalar / array uniformity ---------------------------------------------
    for q in (CO + "sphdist", CO + "gcirc"):
        rank_rule(chk, repo, repo.func(q))


# --------------------------------------------------------------------------
# R08.9 an angle may only be reduced modulo a whole number of turns *in its own unit*
# --------------------------------------------------------------------------
# "unchanged when 360 degrees is added to a longitude" invites `ra % 360`.  A reduction Mod(u, P) of an input angle u keeps the
# direction of the point for every u only when P is a whole number of turns in the unit u is in: 360*n for degrees, 2*pi*n for
# radians (and c times that when u is the input scaled by c, e.g. after deg2rad).  Any other P moves some points (Mod(-0.1 rad, 360)
# = 359.9 rad), so the separation is wrong for them.  The rule is decided on the result term for every units option, wherever the
# reduction is written (on the raw arguments, inside a helper, on the longitude difference, in the identical-inputs condition).

def _lin_coeff(u, syms):
    """|c| when u = +-c*(input angles) + constant with one common |c| (a scaled input angle or a difference of two), else None"""
    try:
        u = sp.expand(u)
    except Exception:
        return None
    cs, rest = [], u
    for s_ in syms:
        c = u.coeff(s_, 1)
        if c != 0:
            if c.free_symbols:
                return None
            cs.append(sp.Abs(c))
            rest = rest - c * s_
    rest = sp.expand(rest)
    if not cs or rest.has(*syms) or rest.has(sp.Mod):
        return None
    if any(sp.simplify(c - cs[0]) != 0 for c in cs[1:]):
        return None
    return cs[0]


def _whole(q):
    """q is a non-zero whole number (a float literal of a period, e.g. 6.283185307179586 for 2*pi, counts): True / False; None = not a number"""
    try:
        q = sp.simplify(q)
        if q.is_Integer:
            return q != 0
        if not q.is_number or q.free_symbols:
            return None
        qf = float(q)
    except Exception:
        return None
    if q.is_Rational:
        return False
    n = round(qf)
    return bool(n != 0 and abs(qf - n) <= 1e-9 * abs(n))


def _strip_reductions(e, status, syms):
    """the term with the judged reductions removed where that leaves the function unchanged: inside sin/cos (argument linear in the
    reduction, coefficient times period a multiple of 2*pi) and in `g(point 1) == g(point 2)` conditions (identical inputs still
    satisfy it; with a whole-turn period it still implies equal directions).  A reduction that was reported as a violation is removed
    as well, so that the remaining rules judge the rest of the function instead of repeating the report."""
    sw = None
    if len(syms) == 4:
        ra1, dec1, ra2, dec2 = syms
        sw = {ra1: ra2, ra2: ra1, dec1: dec2, dec2: dec1}

    def trig(x):
        try:
            a = sp.expand(x.args[0])
        except Exception:
            return x
        hit = False
        for M in sorted(a.atoms(sp.Mod), key=str):
            if M not in status:
                continue
            k = a.coeff(M, 1)
            if k == 0 or k.has(sp.Mod) or (a - k * M).expand().has(M):
                continue
            if status[M] is False or _whole(k * M.args[1] / (2 * sp.pi)):
                a = a.xreplace({M: M.args[0]})
                hit = True
        return x.func(a) if hit else x

    def eq(x):
        ms = x.atoms(sp.Mod)
        if sw is None or not ms or any(M not in status for M in ms):
            return x
        try:
            same = x.lhs.xreplace(sw) == x.rhs or symx.equal(x.lhs.xreplace(sw), x.rhs)[0]
        except Exception:
            same = False
        if not same:
            return x
        rep = {M: M.args[0] for M in ms}
        return sp.Eq(x.lhs.xreplace(rep), x.rhs.xreplace(rep))

    try:
        e = e.replace(lambda x: isinstance(x, (sp.sin, sp.cos)) and x.has(sp.Mod), trig)
        e = e.replace(lambda x: isinstance(x, sp.Eq) and x.has(sp.Mod), eq)
    except Exception:
        pass
    return e


def reduction_rule(chk, fi, tag, r, syms, uin, quiet=False):
    """judges every Mod(angle, period) of the result term; returns the term the other rules look at (quiet: the term only, for a
    second evaluation of a function whose reductions have been judged)"""
    if not isinstance(r, sp.Basic):
        return r
    mods = sorted((M for M in r.atoms(sp.Mod) if M.args[0].has(*syms)), key=str)
    if not mods:
        return r
    turn = sp.Integer(360) if uin == "deg" else 2 * sp.pi
    status = {}
    for M in mods:
        u, P = M.args
        c = _lin_coeff(u, syms)
        ok = _whole(P / (c * turn)) if (c is not None and not P.free_symbols) else None
        if ok is not None:
            status[M] = ok
        unit = "%s given in %s" % (u, uin) if c == 1 else "%s (input in %s scaled by %s)" % (u, uin, c)
        if quiet:
            continue
        chk.ob("R08.9", "%s::reduced-by-whole-turns::%s" % (tag, M), ok, fi.where(),
               "an angle is only ever reduced modulo a whole number of turns in its own unit: `%s` reduces %s, where one turn is %s%s"
               % (M, unit, "not determined" if c is None else c * turn,
                  "" if ok else ("; the reduction is not recognised as one of an input angle" if ok is None else
                                 "; %s is not a whole number of turns, so the reduction moves the point (every negative angle, and every angle "
                                 "above the period, becomes a different direction) and the separation is wrong" % M.args[1])))
    return _strip_reductions(r, status, syms)


# --------------------------------------------------------------------------
# R08.8 conditioning: a small quantity under a root is not obtained by cancelling terms of order one
# --------------------------------------------------------------------------
# The chord function owes its accuracy for nearly coincident points (and the cross-product branch for nearly antipodal ones) to the
# way the small quantity under the square root is built: a sum of squares of differences.  Each difference d_i cancels once (absolute
# rounding error ~eps), the square has absolute error ~eps*|d_i|, so the root has absolute error ~eps.  An algebraically equal form
# whose terms do not vanish one by one in the degenerate configuration (2 - 2*p1.p2, |p1|^2 + |p2|^2 - 2*p1.p2, 1 - (p1.p2)^2 for the
# cross product) has absolute error ~eps in the radicand itself, hence ~eps/separation in the root: half of the digits are lost,
# the result can be 0, 1e-8 or NaN for separations below 1e-8 rad.  This is an abstract interpretation over orders of magnitude
# (value ~ s^v, absolute rounding error ~ eps*s^q for separation s from the degenerate configuration), not a numerical experiment.

_ODD_AT_ZERO = (sp.sin, sp.tan, sp.asin, sp.atan, sp.sinh, sp.tanh)


def _at(e, sub):
    e = e.xreplace(sub)
    try:
        return e.replace(lambda x: isinstance(x, (sp.sin, sp.cos)), lambda x: x.func(sp.expand(x.args[0])))
    except Exception:
        return e


def _nonvanishing(z):
    """the term is structurally not the zero function: a non-zero number, a symbol, sin/cos of something that varies, products and
    powers of those"""
    if z.is_number:
        return z != 0
    if isinstance(z, sp.Symbol):
        return True
    if isinstance(z, sp.Mul):
        return all(_nonvanishing(a) for a in z.args)
    if isinstance(z, sp.Pow):
        return z.exp.is_number and _nonvanishing(z.base)
    if isinstance(z, (sp.sin, sp.cos)):
        return bool(z.args[0].free_symbols)
    return False


class _Cond:
    def __init__(self, sub, syms):
        self.sub, self.syms, self.memo = sub, syms, {}

    def vanishes(self, e):
        """the term is identically zero in the degenerate configuration: True / False / None (not decided)"""
        if e in self.memo:
            return self.memo[e]
        z = _at(e, self.sub)
        if z == 0:
            out = True
        elif _nonvanishing(z):
            out = False
        else:
            try:
                z = sp.expand(z)
            except Exception:
                pass
            if z == 0:
                out = True
            elif _nonvanishing(z):
                out = False
            else:
                eq, d = symx.equal(z, sp.Integer(0))
                out = True if eq else (False if _nonvanishing(d) else None)
        self.memo[e] = out
        return out

    def order(self, e):
        """lower bounds (v, q): value ~ s^v, absolute rounding error ~ eps*s^q near the degenerate configuration; (0, 0) is always
        a valid answer"""
        if not e.has(*self.syms):
            return (0, 0)
        if isinstance(e, sp.Add):
            if all(self.vanishes(a) is True for a in e.args):
                os_ = [self.order(a) for a in e.args]
                return (min(o[0] for o in os_), min(o[1] for o in os_))
            if self.vanishes(e) is True:
                # a cancelling difference; the difference of two input angles themselves is exact
                if all(a.as_independent(*self.syms, as_Add=False)[1] in self.syms for a in e.args):
                    return (1, 1)
                return (1, 0)
            return (0, 0)
        if isinstance(e, sp.Mul):
            os_ = [self.order(a) for a in e.args]
            v = sum(o[0] for o in os_)
            return (v, min(o[1] + v - o[0] for o in os_))
        if isinstance(e, sp.Pow):
            n = e.exp
            if n.is_Integer and n >= 1:
                v, q = self.order(e.base)
                return (n * v, q + (n - 1) * v)
            return (0, 0)
        if isinstance(e, _ODD_AT_ZERO) and self.vanishes(e.args[0]) is True:
            return self.order(e.args[0])
        return (0, 0)

    def culprit(self, e):
        """a sum that is positively identified as cancelling terms of order one and that reaches the radicand through sums and
        order-one factors only (no square, no second small factor protects it): (the sum, one of its order-one terms) or None"""
        if isinstance(e, sp.Add):
            van = [self.vanishes(a) for a in e.args]
            if all(v is True for v in van):
                for a in e.args:
                    c = self.culprit(a)
                    if c:
                        return c
                return None
            big = [a for a, v in zip(e.args, van) if v is False]
            if big and self.vanishes(e) is True:
                return (e, big[0])
            return None
        if isinstance(e, sp.Mul):
            small = [a for a in e.args if self.vanishes(a) is not False]
            if len(small) == 1:
                return self.culprit(small[0])
            return None
        return None


def conditioning_rule(chk, fi, tag, piece, what, v, syms, sub):
    """the small quantity under the root of one piece of the chord function is built without cancelling terms of order one"""
    key = "%s::%s-without-cancellation" % (tag, piece)
    inv = list(v.atoms(sp.asin)) + list(v.atoms(sp.acos))
    rad = set()
    for a in inv:
        rad |= {p.base for p in a.args[0].atoms(sp.Pow) if p.exp == sp.Rational(1, 2)}
    rad = [x for x in rad if x.has(*syms)]
    if len(inv) != 1 or len(rad) != 1:
        chk.ob("R08.8", key, None, fi.where(), "the %s piece is not an inverse sine of one square root: %s" % (piece, str(v)[:160]))
        return
    R = rad[0]
    cd = _Cond(sub, syms)
    vq = cd.order(R)
    if vq[1] >= 1:
        ok, why = True, "absolute rounding error of the radicand scales with the separation (value order >= %s, error order >= %s)" % vq
    else:
        c = cd.culprit(R)
        if c is None:
            ok, why = None, "the way %s is computed is not recognised: %s" % (what, str(R)[:200])
        else:
            ok = False
            why = ("the radicand is obtained by cancellation in `%s`, whose term `%s` is of order one for %s: the rounding error of "
                   "that term (~1e-16) is an absolute error of the radicand, i.e. ~1e-16/separation in the root, so separations below "
                   "~1e-8 rad are lost (0, ~1e-8 or NaN); sum the squares of the coordinate differences instead"
                   % (str(c[0])[:200], str(c[1])[:80], "nearly coincident points" if piece == "chord" else "nearly antipodal points"))
    chk.ob("R08.8", key, ok, fi.where(),
           "%s is a sum of terms that vanish one by one for %s points (squares of differences), not the difference of terms of order one: %s"
           % (what, "coincident" if piece == "chord" else "antipodal", why))


def _nnf(c):
    """the condition in negation normal form: negations are pushed through and / or / xor / implies / if-then-else down to the
    comparisons, where they are absorbed (not (a != b) is a == b, not (a < b) is a >= b for the real numbers the terms stand for),
    and nested conjunctions are flattened.  `~((ra1 != ra2) | (dec1 != dec2))`, `logical_not(logical_or(..))` and
    `(ra1 == ra2) & (dec1 == dec2)` are one condition in this form.  Logical equivalence only: nothing is assumed about the atoms."""
    if not isinstance(c, sp.Basic) or c in (sp.true, sp.false) or isinstance(c, (sp.Symbol, sp.Rel)):
        return c
    try:
        n = sp.to_nnf(c, simplify=False)
    except Exception:
        return c
    return n


def _canon_cond(c):
    """(c', polarity) with c == c' when the polarity is True and c == not c' when it is False, c' in negation normal form.  A condition
    whose normal form is a disjunction while its negation is not is stated through its negation, so that a result written with the
    arms swapped and the test negated (`where(differ, d, 0)` for `where(same, 0, d)`) gives the same decision list."""
    n = _nnf(c)
    if isinstance(n, sp.Or):
        m = _nnf(sp.Not(n))
        if not isinstance(m, sp.Or):
            return m, False
    return n, True


def leaves(e, syms):
    """the term as a priority-ordered decision list [(value, path)]: nested Piecewise terms are flattened and a factor that does not
    depend on the inputs (a unit conversion) is pushed into the pieces, so `k*PW((0, c), (v, True))` and `PW((0, c), (k*v, True))` are
    the same list.  path = tuple of (condition, polarity) that select the leaf (earlier pieces negated)."""
    if not isinstance(e, sp.Basic):
        return []
    if isinstance(e, sp.Piecewise):
        out, neg = [], ()
        for v, c in e.args:
            if c == sp.true:
                out += [(lv, neg + lp) for lv, lp in leaves(v, syms)]
                break
            c, pol = _canon_cond(c)
            out += [(lv, neg + ((c, pol),) + lp) for lv, lp in leaves(v, syms)]
            neg = neg + ((c, not pol),)
        return out
    if e.has(sp.Piecewise):
        k, rest = e.as_independent(*syms, as_Add=False)
        if isinstance(rest, sp.Piecewise) and not k.has(sp.Piecewise):
            return [(k * lv, lp) for lv, lp in leaves(rest, syms)]
    return [(e, ())]


def _pos(c, pol):
    """the condition a path entry stands for, in positive form"""
    return c if pol else _nnf(sp.Not(c))


def _implies_identity(c, syms):
    """the condition is `ra1 == ra2 and dec1 == dec2 and <something more>`: it holds only for identical inputs, not for all of them"""
    ra1, dec1, ra2, dec2 = syms
    if not isinstance(c, sp.And) or len(c.args) < 3:
        return False
    hit = {0: False, 1: False}
    for a in c.args:
        if isinstance(a, sp.Eq):
            d = sp.simplify(a.lhs - a.rhs)
            for k, (x, y) in enumerate(((ra1, ra2), (dec1, dec2))):
                q = sp.simplify(d / (x - y))
                if q.is_number and q != 0:
                    hit[k] = True
    return hit[0] and hit[1]


def drop_shortcuts(lv, syms):
    """removes the fast paths for identical inputs from the decision list: a piece that is exactly 0 and is selected by a condition
    that holds only for identical inputs (`if same.all(): return zeros`: this pair is identical and so are all the others).  Such a
    piece agrees with the exact-zero override wherever it applies, and it does not apply to every identical pair, so the override is
    still demanded of the remaining list (R08.3); with it, the remaining list gives the same value (0) where the fast path applied."""
    short = [path[-1][0] for v, path in lv if v == 0 and path and path[-1][1] and _implies_identity(path[-1][0], syms)]
    if not short:
        return lv
    out = []
    for v, path in lv:
        if v == 0 and path and path[-1][1] and path[-1][0] in short:
            continue
        out.append((v, tuple((c, pol) for c, pol in path if not (not pol and c in short))))
    return out


# --------------------------------------------------------------------------
# R08.10 a piece of the result that is the constant 0 is selected only for identical inputs
# --------------------------------------------------------------------------
# "exactly zero for identical inputs" is met by forcing the result to 0 under a condition.  The true separation of two distinct points
# is not 0, so the condition of every forced zero must IMPLY that the two points are the same: it must contain an equality that
# pins the longitudes to each other and one that pins the latitudes (an equality g(x1) == g(x2) pins x only when g is one-to-one on
# the domain of x; an inequality, a tolerance, an even or periodic function of a coordinate pins nothing).  Both directions are
# decided on the condition term, for all inputs:
#   * implies identity: the conjunction holds an equality proportional to ra1 - ra2 and one proportional to dec1 - dec2 (or of a
#     function that is one-to-one on the latitude range);
#   * does not: the condition is shown to hold identically on a symbolic family of pairs of distinct points (same meridian mirrored
#     across the equator, one coordinate left free, longitudes mirrored / half a turn apart), or every equality of it holds with one
#     coordinate left free while its inequalities hold with slack for identical inputs and are continuous, i.e. on an open
#     neighbourhood of the identical pairs (a tolerance comparison).
# Anything else is not recognised (no verdict).

_CONTINUOUS = (sp.Add, sp.Mul, sp.Abs, sp.sin, sp.cos, sp.Min, sp.Max, sp.exp)


def _continuous(e, syms):
    """the term is built from the inputs by continuous operations only (whitelist)"""
    if not e.has(*syms) or e in syms:
        return True
    if isinstance(e, sp.Pow):
        return bool(e.exp.is_number and (e.exp.is_positive or not e.base.has(*syms))) and _continuous(e.base, syms)
    if isinstance(e, _CONTINUOUS):
        return all(_continuous(a, syms) for a in e.args)
    return False


def _unwrap_zero(d):
    """u for |u|, u**n (n > 0), k*u: d == 0 exactly when u == 0"""
    while True:
        if isinstance(d, sp.Abs):
            d = d.args[0]
        elif isinstance(d, sp.Pow) and d.exp.is_number and d.exp.is_positive:
            d = d.base
        else:
            return d


def _pins(atom, x, y, quarter):
    """the atom is an equality that holds only when x == y: lhs - rhs proportional to x - y (also inside |.| or a positive power), or
    sin(k*x) == sin(k*y) where k maps the latitude range [-quarter, quarter] into [-pi/2, pi/2] (sin is one-to-one there)"""
    if isinstance(atom, sp.Not) and isinstance(atom.args[0], sp.Ne):
        atom = sp.Eq(*atom.args[0].args)
    if isinstance(atom, (sp.Le, sp.Ge)) and atom.gts.is_zero and atom.lts.is_nonnegative:
        atom = sp.Eq(atom.lts, 0, evaluate=False)           # |u| <= 0, u**2 <= 0
    if not isinstance(atom, sp.Eq):
        return False
    try:
        d = _unwrap_zero(sp.simplify(atom.lhs - atom.rhs))
        q = sp.simplify(d / (x - y))
        if q.is_number and q != 0 and q.is_finite:
            return True
    except Exception:
        return False
    if quarter is not None:
        for a, b in ((atom.lhs, atom.rhs), (atom.rhs, atom.lhs)):
            if isinstance(a, sp.sin) and isinstance(b, sp.sin) and b == a.xreplace({x: y}) and a.args[0].has(x):
                try:
                    k = sp.simplify(a.args[0] / x)
                    if k.is_number and k != 0 and bool(sp.Abs(k) * quarter <= sp.pi / 2):
                        return True
                except Exception:
                    pass
    return False


def _holds(c, sub):
    """the condition with the substitution applied is identically true"""
    try:
        z = c.xreplace(sub)
        if z == sp.true:
            return True
        if z == sp.false:
            return False
        return sp.simplify(z) == sp.true
    except Exception:
        return False


def _slack_at_identity(atom, syms):
    """an inequality that is continuous in the inputs and strictly satisfied by identical inputs (for those with positive coordinates
    at least): it holds on an open set around them, hence for pairs of distinct points"""
    ra1, dec1, ra2, dec2 = syms
    if isinstance(atom, sp.Not) and isinstance(atom.args[0], (sp.Le, sp.Lt, sp.Ge, sp.Gt)):
        atom = atom.args[0].negated
    if not isinstance(atom, (sp.Le, sp.Lt, sp.Ge, sp.Gt)):
        return False
    if not (_continuous(atom.lhs, syms) and _continuous(atom.rhs, syms)):
        return False
    pr, pd = sp.Symbol("ra_positive", positive=True), sp.Symbol("dec_positive", positive=True)
    try:
        g = (atom.gts - atom.lts).xreplace({ra1: pr, ra2: pr, dec1: pd, dec2: pd})
        return g.is_positive is True or sp.simplify(g).is_positive is True
    except Exception:
        return False


def _distinct_pairs_selected(cond, syms, half):
    """a description of a family of pairs of DISTINCT points on which the condition holds identically, or None when none is found"""
    ra1, dec1, ra2, dec2 = syms
    families = (
        ("every pair of points whatever (the condition does not depend on the inputs)", {}),
        ("two points of one meridian with any two latitudes (ra2 = ra1, dec2 free: the latitudes are not compared)", {ra2: ra1}),
        ("two points of one parallel with any two longitudes (dec2 = dec1, ra2 free: the longitudes are not compared)", {dec2: dec1}),
        ("two points on one meridian mirrored across the equator (ra2 = ra1, dec2 = -dec1: true separation 2*|dec1|)", {ra2: ra1, dec2: -dec1}),
        ("two points of one parallel half a turn apart in longitude (dec2 = dec1, ra2 = ra1 + %s)" % half, {dec2: dec1, ra2: ra1 + half}),
        ("two points of one parallel at mirrored longitudes (dec2 = dec1, ra2 = -ra1)", {dec2: dec1, ra2: -ra1}),
        ("two points of one parallel at supplementary longitudes (dec2 = dec1, ra2 = %s - ra1)" % half, {dec2: dec1, ra2: half - ra1}),
        # pairs that are never identical (a condition stated as `this coordinate equal and not both equal` holds on these only)
        ("two points of one meridian whose latitudes differ by 1 (ra2 = ra1, dec2 = dec1 + 1: true separation 1)", {ra2: ra1, dec2: dec1 + 1}),
        ("two points of one parallel whose longitudes differ by 1 (dec2 = dec1, ra2 = ra1 + 1)", {dec2: dec1, ra2: ra1 + 1}),
    )
    for what, sub in families:
        if _holds(cond, sub):
            return what
    # tolerance comparisons: every conjunct holds with one coordinate left free, or holds with slack for identical inputs
    atoms = list(cond.args) if isinstance(cond, sp.And) else [cond]
    for what, sub in (("latitudes", {ra2: ra1}), ("longitudes", {dec2: dec1}), ("coordinates", {})):
        loose = [a for a in atoms if not _holds(a, sub)]
        if loose and all(_slack_at_identity(a, syms) for a in loose):
            return ("every pair of nearby points whose %s differ by less than the tolerance of `%s`: a comparison with a tolerance holds "
                    "with slack for identical inputs, hence on a whole neighbourhood of them" % (what, str(loose[0])[:120]))
    return None


def forced_zero_rule(chk, fi, tag, lv, syms, uin):
    """judges every leaf of the decision list that is the constant 0; returns the set of selecting conditions that were NOT shown to
    imply identical inputs but do hold for them (the other rules treat such a piece as the exact-zero override it was meant to be,
    so that the defect is reported once, here)"""
    ra1, dec1, ra2, dec2 = syms
    half = sp.Integer(180) if uin == "deg" else sp.pi
    loose, n = set(), 0
    for v, path in lv:
        if v != 0 or not path:
            continue
        n += 1
        atoms = []
        for c, pol in path:
            pc = _pos(c, pol)
            atoms += list(pc.args) if isinstance(pc, sp.And) else [pc]
        pin_ra = any(_pins(a, ra1, ra2, None) for a in atoms)
        pin_dec = any(_pins(a, dec1, dec2, half / 2) for a in atoms)
        why = ""
        if pin_ra and pin_dec:
            ok = True
        else:
            # `all the other elements too` unknowns (a whole-array test) hold in a call with this one pair: they exclude no pair
            cond_ = sp.And(*atoms)
            cond_ = cond_.xreplace({a: sp.true for a in cond_.atoms(sp.Symbol) if a.name.startswith("ALL_OTHER_ELEMENTS_")})
            fam = _distinct_pairs_selected(cond_, syms, half)
            ok = False if fam is not None else None
            missing = " and ".join(w for w, p in (("the longitudes", pin_ra), ("the latitudes", pin_dec)) if not p)
            why = ("; no equality of the condition pins %s to each other" % missing) + (
                ", and the condition holds for %s, so distinct points get separation 0 instead of their true separation" % fam if fam is not None
                else ": whether it holds for distinct points is not decided")
            if _holds(path[-1][0], {ra2: ra1, dec2: dec1}) and path[-1][1]:
                loose.add(path[-1][0])
        chk.ob("R08.10", "%s::forced-zero-only-for-identical-inputs%s" % (tag, "" if n == 1 else "#%d" % n), ok, fi.where(),
               "a piece of the result that is the constant 0 is selected only when the two points are identical: the piece selected by `%s`%s"
               % (str(sp.And(*atoms))[:200], why))
    return loose


def per_pair_zero_rule(chk, fi, tag, lv, zero, syms):
    """R08.10 (second half): "exactly zero for identical inputs" and "the same for scalar and array inputs" are owed to every pair
    of the call on its own.  A piece that is the constant 0 and is selected by `this pair is identical AND <a condition on the other
    elements of the arrays>` (np.array_equal, (a == b).all(), np.allclose: a whole-array test) forces the zero only in calls where the
    other pairs cooperate; it is a legitimate fast path only next to an override that is selected by the pair's own coordinates.  When
    the decision list has such a whole-array zero and no per-pair one, an identical pair inside an array with one distinct pair gets the
    rounded formula value (acos of 1 - ulp ~ 1.5e-8 rad) while the same pair passed as scalars gets 0: a violation, positively
    identified (the whole-array unknown is part of the selecting condition of every forced zero)."""
    whole = [path[-1][0] for v, path in lv if v == 0 and path and path[-1][1] and _implies_identity(path[-1][0], syms)
             and any(isinstance(a, sp.Symbol) and a.name.startswith("ALL_OTHER_ELEMENTS_") for a in path[-1][0].args)]
    if not whole:
        return
    chk.ob("R08.10", "%s::exact-zero-decided-per-pair" % tag, bool(zero), fi.where(),
           "the exact zero for identical inputs is decided for each pair on its own coordinates: the result is forced to 0 under the "
           "whole-array condition `%s`%s" % (
               str(whole[0])[:200],
               " next to a per-pair override (a fast path)" if zero else
               " only -- identical pairs are forced to 0 only when every other pair of the call is identical too; in an array that also "
               "holds one distinct pair they keep the rounded formula value (~1e-8 rad for one point in six) and differ from the scalar "
               "call on the same pair; select the zero with the element-wise mask (ra1 == ra2) & (dec1 == dec2)"))


def _as_clip(e):
    """CLIP(x, lo, hi) for the equivalent spellings of a two-sided clip: minimum(maximum(x, lo), hi) and maximum(minimum(x, hi), lo)
    with numbers lo <= hi (this is how numpy defines clip); any other term is returned as it is"""
    for outer, inner in ((sp.Min, sp.Max), (sp.Max, sp.Min)):
        if isinstance(e, outer) and len(e.args) == 2:
            num = [a for a in e.args if a.is_number]
            rest = [a for a in e.args if not a.is_number]
            if len(num) == 1 and len(rest) == 1 and isinstance(rest[0], inner) and len(rest[0].args) == 2:
                num2 = [a for a in rest[0].args if a.is_number]
                x = [a for a in rest[0].args if not a.is_number]
                if len(num2) == 1 and len(x) == 1:
                    lo, hi = (num2[0], num[0]) if outer is sp.Min else (num[0], num2[0])
                    if lo.is_real and hi.is_real and lo <= hi:
                        return sp.Function("CLIP")(x[0], lo, hi)
    return e


def split_identity(lv, syms, also=()):
    """(zero leaves guarded by the identical-inputs condition, is the first of them the top-priority leaf, the remaining leaves with the
    negated identity condition removed from their paths).  also: conditions that hold for identical inputs and were judged by
    forced_zero_rule (R08.10) to hold for other pairs as well; the piece they select still is the exact zero of identical inputs."""
    isid = lambda c: _is_identity_cond(c, syms) or c in also
    zero, rest = [], []
    for i, (v, path) in enumerate(lv):
        if v == 0 and len(path) >= 1 and path[-1][1] and isid(path[-1][0]):
            zero.append((i, v, path))
        else:
            rest.append((v, tuple((c, pol) for c, pol in path if not (not pol and isid(c)))))
    return zero, rest


def _has_priority(zero_leaf, syms):
    """nothing overrides the exact-zero piece for identical inputs: it is the first piece, or every piece listed before it is
    ruled out when the two points are set equal (e.g. the near-antipodal condition |p1-p2|^2 >= t is false for p1 == p2)"""
    ra1, dec1, ra2, dec2 = syms
    i, _, path = zero_leaf
    if len(path) == 1:
        # the path of a leaf lists every condition its selection depends on (the negations of the pieces before it included), so a
        # path made of the identity condition alone means the piece is selected whenever that condition holds, wherever it is listed
        return True
    same = {ra2: ra1, dec2: dec1}
    for c, pol in path[:-1]:
        try:
            cs = sp.simplify(c.xreplace(same))
        except Exception:
            return False
        if cs not in (sp.true, sp.false) or bool(cs) != pol:
            return False
    return True


def _threshold(cond, dsq):
    """cond as `dsq >= t` / `dsq > t` (any spelling: swapped sides, sqrt of both sides): returns t, or None when the condition is not a
    lower bound on the squared chord"""
    if isinstance(cond, (sp.Le, sp.Lt)):
        cond = cond.reversed
    if not isinstance(cond, (sp.Ge, sp.Gt)):
        return None
    d = cond.lhs - cond.rhs
    num = [a for a in sp.Add.make_args(d) if a.is_number]
    t = -sp.Add(*num)
    x = d + t                       # x >= t
    if not x.free_symbols:
        return None
    if not x.could_extract_minus_sign():        # otherwise `t' >= dsq`, an upper bound, unless the last form below applies
        if symx.equal(x, dsq)[0]:
            return t
        if t.is_nonnegative and symx.equal(x, sp.sqrt(dsq))[0]:
            return t ** 2
        if cond.rhs.is_number and num and symx.equal(cond.lhs, dsq)[0]:
            return cond.rhs             # the squared chord written with a constant term of its own
    # the bound stated on an equal form of the squared chord whose constant term was merged with the threshold (2 - 2*p1.p2 >= t is
    # kept by the normaliser as 2*p1.p2 <= 2 - t): lhs - rhs == |p1-p2|^2 - t for a number t
    try:
        _, z = symx.equal(d, dsq)
        if z.is_number and not z.free_symbols:
            return -z
    except Exception:
        pass
    return None


# --------------------------------------------------------------------------
# R08.4 every piece of the result is the great-circle angle (results with more pieces than chord + near-antipodal override)
# --------------------------------------------------------------------------
# However many cases the function distinguishes, each of them has to return the angle.  Two exact forms are known to the check:
# 2*asin(|p1-p2|/2) (the angle for every pair) and pi - asin|p1 x p2| (the angle for separations of at least 90 degrees, |p1-p2|^2 >= 2).
# A piece that is neither is positively NOT the angle when it is an algebraic function of the points' Cartesian coordinates -- built
# from numbers and sin/cos of (linear forms of) the input angles by + * / rational powers |.| min max, with no inverse trigonometric
# function -- and is selected on a range of separations: on the equator with ra2 = 0 the angle is the longitude ra1 itself, and x is
# not algebraic over the functions sin(c*x), cos(c*x), so no such term equals the angle on an interval (the chord |p1-p2|, a truncated
# series in it, a constant, ... all differ from the angle there: the chord is short by d^3/24).  Whether the piece is selected on a
# range is decided on its path: every condition must be a bound on the squared chord (which takes every value of [0, 4]) and the
# bounds must leave an interval with interior.  Anything else (other inverse-trig forms, the input angles outside sin/cos, conditions
# that are not bounds on the chord) is not recognised: no verdict from this rule.

_INVERSE_TRIG = (sp.asin, sp.acos, sp.atan, sp.atan2, sp.acot, sp.asec, sp.acsc)


def _algebraic_in_coordinates(v, syms):
    """the term is an algebraic function of sin/cos of linear forms of the inputs (whitelist; the inputs occur nowhere else)"""
    if v.is_number:
        return bool(v.is_finite)
    if isinstance(v, (sp.sin, sp.cos)):
        try:
            a = sp.expand(v.args[0])
            return all(sp.diff(a, s_).is_number for s_ in a.free_symbols) and a.free_symbols <= set(syms)
        except Exception:
            return False
    if isinstance(v, sp.Pow):
        return bool(v.exp.is_Rational) and _algebraic_in_coordinates(v.base, syms)
    if isinstance(v, (sp.Add, sp.Mul, sp.Abs, sp.Min, sp.Max)):
        return all(_algebraic_in_coordinates(a, syms) for a in v.args)
    return False


def _chord_interval(path, dsq):
    """the range of the squared chord a path selects, (lo, hi, lo strict, hi strict), when every condition of the path is a bound on
    the squared chord; None when one of them is something else.  `all the other elements too` unknowns (a whole-array fast path)
    are satisfiable whatever this pair is -- take an array of one pair -- and bound nothing."""
    lo, hi = sp.Integer(0), sp.Integer(4)
    for c, pol in path:
        pc = _pos(c, pol)
        for a in (pc.args if isinstance(pc, sp.And) else (pc,)):
            b = a.args[0] if isinstance(a, sp.Not) else a
            if isinstance(b, sp.Symbol) and b.name.startswith("ALL_OTHER_ELEMENTS_"):
                continue
            if isinstance(a, sp.Not):
                try:
                    a = a.args[0].negated
                except Exception:
                    return None
            if not isinstance(a, (sp.Ge, sp.Gt, sp.Le, sp.Lt)):
                return None
            t = _threshold(a, dsq)
            if t is not None and t.is_number and t.is_real:
                lo = sp.Max(lo, t)
                continue
            t = _threshold(a.negated, dsq)             # not (dsq >= t): an upper bound
            if t is not None and t.is_number and t.is_real:
                hi = sp.Min(hi, t)
                continue
            return None
    return lo, hi


def pieces_rule(chk, fi, tag, rest, syms, dsq, crosssq, outf):
    """judges each piece of a result that is not of the chord + override shape (see above)"""
    for i, (v, path) in enumerate(rest):
        if not isinstance(v, sp.Basic) or v.has(sp.Piecewise):
            continue
        key = "%s::piece-is-the-angle#%d" % (tag, i + 1)
        rng = _chord_interval(path, dsq)
        if rng is None:
            continue
        lo, hi = rng
        try:
            if not bool(lo < hi):
                continue                    # selects no range of separations (a single value of the chord at most): not judged here
        except Exception:
            continue
        sel = "%s <= |p1-p2|^2 <= %s" % (lo, hi)
        if symx.equal(v, outf * 2 * sp.asin(sp.sqrt(dsq) / 2))[0]:
            chk.ob("R08.4", key, True, fi.where(), "the piece selected for %s is 2*asin(|p1-p2|/2), the angle for every pair" % sel)
            continue
        if symx.equal(v, outf * (sp.pi - sp.asin(sp.sqrt(crosssq))))[0]:
            ok = bool(lo >= 2)
            chk.ob("R08.4", key, ok, fi.where(),
                   "the piece selected for %s is pi - asin|p1 x p2|, which is the angle only for separations of at least 90 degrees "
                   "(|p1-p2|^2 >= 2)%s" % (sel, "" if ok else ": it is used below that, where the angle is asin|p1 x p2| itself"))
            continue
        if v.has(*_INVERSE_TRIG) or not _algebraic_in_coordinates(v, syms):
            continue                        # another form of the angle, or not a term this rule can judge: no verdict from it
        chk.ob("R08.4", key, False, fi.where(),
               "every piece of the result is the great-circle angle, which takes an inverse trigonometric function of the points' "
               "coordinates (2*asin(|p1-p2|/2), pi - asin|p1 x p2|): the piece selected for %s is `%s`, an algebraic function of the "
               "Cartesian coordinates with no inverse trigonometric function in it; such a term cannot equal the angle on a range of "
               "separations (the chord itself is short by d^3/24: 2.4e-6 degree at 0.57 degree, far above 1e-11 degree)"
               % (sel, str(v)[:200]))


def check_chord(chk, fi, tag, r, syms, uin, uout):
    ra1, dec1, ra2, dec2 = syms
    p1 = xyz(ra1, dec1, uin)
    p2 = xyz(ra2, dec2, uin)
    dsq = sum((a - b) ** 2 for a, b in zip(p1, p2))
    cross = (p1[1] * p2[2] - p1[2] * p2[1], p1[2] * p2[0] - p1[0] * p2[2], p1[0] * p2[1] - p1[1] * p2[0])
    crosssq = sum(c ** 2 for c in cross)
    outf = sp.Integer(180) / sp.pi if uout == "deg" else sp.Integer(1)
    lv = leaves(r, syms)
    if not lv:
        chk.ob("R08.4", tag + "::two-branch-structure", None, fi.where(), "the result of the symbolic evaluation is not a term: %r" % (r,))
        return
    # exact-zero override: a leaf that is exactly 0 (in the output unit: 0 times the unit factor is 0) selected by `ra1 == ra2 and
    # dec1 == dec2`, and no other piece takes priority over it.  Whether the zero is stored before or after the unit conversion, with
    # a boolean mask or an index array, does not matter.
    loose = forced_zero_rule(chk, fi, tag, lv, syms, uin)
    zero, rest = split_identity(drop_shortcuts(lv, syms), syms, loose)
    per_pair_zero_rule(chk, fi, tag, lv, zero, syms)
    chk.ob("R08.3", tag + "::exact-zero-for-identical-inputs", len(zero) >= 1, fi.where(),
           "identical inputs give exactly 0 (override piece: %s)" % (zero[0][2][-1][0] if zero else "MISSING"))
    if zero:
        chk.ob("R08.3", tag + "::override-applied-last", _has_priority(zero[0], syms), fi.where(),
               "the override has priority over every other piece of the result and is an exact 0 in the output unit")
    if any(v.has(sp.Piecewise) for v, _ in rest) or len(rest) > 2 or not rest:
        chk.ob("R08.4", tag + "::two-branch-structure", None, fi.where(),
               "expected a chord piece and a near-antipodal piece, found %d pieces: %s" % (len(rest), str([p for _, p in rest])[:200]))
        pieces_rule(chk, fi, tag, rest, syms, dsq, crosssq, outf)
        return
    if len(rest) == 1:
        ok1 = None if rest[0][1] else False
        chk.ob("R08.4", tag + "::two-branch-structure", ok1, fi.where(),
               "chord branch with a near-antipodal override branch: a single formula %s is used everywhere" % str(rest[0][0])[:120])
        return
    (va, pa), (vb, pb) = rest
    two = len(pa) == 1 and len(pb) == 1 and pa[0][0] == pb[0][0] and pa[0][1] != pb[0][1]
    if not two:
        chk.ob("R08.4", tag + "::two-branch-structure", None, fi.where(), "the two pieces are not selected by one condition and its negation: %s / %s" % (pa, pb))
        pieces_rule(chk, fi, tag, rest, syms, dsq, crosssq, outf)
        return
    chk.ob("R08.4", tag + "::two-branch-structure", True, fi.where(), "chord branch with a near-antipodal override branch")
    # which piece is the near-antipodal one: the one selected where the squared chord is large
    ca, cb = _pos(*pa[0]), _pos(*pb[0])
    ta = _threshold(ca, dsq)
    tb = _threshold(cb, dsq) if ta is None else None
    if ta is None and tb is not None:
        (crossv, thr), chordv = (vb, tb), va
    else:
        (crossv, thr), chordv = (va, ta), vb
    crossc = ca if crossv is va else cb
    # the unit factor is whatever multiplies the near-antipodal formula (pi - asin(.) has no numeric factor of its own)
    kf, _ = crossv.as_independent(*syms, as_Add=False)
    kc, _ = chordv.as_independent(*syms, as_Add=False)
    if kf == 0 or kf.has(*syms):
        kf = outf
    okf = sp.simplify(kf - outf) == 0 and sp.simplify(kc - 2 * outf) == 0
    chk.ob("R08.1", tag + "::output-unit-factor", bool(okf), fi.where(),
           "the result is converted by the factor %s for units_out=%s (found factor %s on the near-antipodal piece, %s/2 on the chord piece)" % (outf, uout, kf, kc))
    eq, d = symx.equal(chordv, kf * 2 * sp.asin(sp.sqrt(dsq) / 2))
    chk.ob("R08.4", tag + "::chord-formula", eq, fi.where(), "chord branch is 2*asin(|p1-p2|/2) with inputs in %s%s" % (uin, "" if eq else " (difference %s)" % str(d)[:200]))
    eq, d = symx.equal(crossv, kf * (sp.pi - sp.asin(sp.sqrt(crosssq))))
    chk.ob("R08.4", tag + "::cross-product-formula", eq, fi.where(), "near-antipodal branch is pi - asin|p1 x p2|%s" % ("" if eq else " (difference %s)" % str(d)[:200]))
    # conditioning of the two small quantities (R08.8): |p1-p2|^2 near coincidence, |p1 x p2|^2 near the antipode
    half = sp.Integer(180) if uin == "deg" else sp.pi
    conditioning_rule(chk, fi, tag, "chord", "|p1-p2|^2", chordv, syms, {ra2: ra1, dec2: dec1})
    conditioning_rule(chk, fi, tag, "cross", "|p1 x p2|^2", crossv, syms, {ra2: ra1 + half, dec2: -dec1})
    # threshold: a lower bound t on |p1-p2|^2 was positively identified -> it must lie in the safe interval; a condition that is
    # not recognisably a bound on the squared chord gives no verdict (the formula rules above judge the pieces themselves)
    ok = None if thr is None else bool(sp.Rational(3) <= thr <= sp.Rational(39999, 10000))
    chk.ob("R08.2", tag + "::antipodal-threshold", ok, fi.where(),
           "the cross-product branch takes over for |p1-p2|^2 >= t with t in [3, 3.9999] (keeps asin's argument away from 1 in both branches): t = %s%s"
           % (thr, "" if thr is not None else " (condition %s)" % str(crossc)[:160]))
    # symmetry under exchange of the points
    sw = {ra1: ra2, ra2: ra1, dec1: dec2, dec2: dec1}
    for nm, v in (("chord", chordv), ("cross", crossv)):
        eq, _ = symx.equal(v, v.xreplace(sw))
        chk.ob("R08.7", "%s::symmetric::%s" % (tag, nm), eq, fi.where(), "the %s branch is symmetric under exchange of the two points" % nm)
    # asin arguments: only the two whitelisted forms
    args = set()
    for v in (chordv, crossv):
        args |= {a.args[0] for a in v.atoms(sp.asin)} | {a.args[0] for a in v.atoms(sp.acos)}
    chk.ob("R08.2", tag + "::inverse-trig-arguments", len(args) == 2, fi.where(),
           "inverse trig is applied only to |p1-p2|/2 (bounded by sqrt(t)/2 < 1 outside the override) and |p1 x p2| (small on the override branch): %d distinct arguments" % len(args))


def _is_identity_cond(c, syms):
    ra1, dec1, ra2, dec2 = syms
    if not isinstance(c, sp.And):
        return False
    ok = 0
    for a in c.args:
        for x, y in ((ra1, ra2), (dec1, dec2)):
            if _pins(a, x, y, None):        # an equality proportional to x - y, in any of its spellings (|x - y| == 0, ~(x != y))
                ok += 1
    return ok == 2 and len(c.args) == 2


def check_cosine(chk, fi, r, syms):
    ra1, dec1, ra2, dec2 = syms
    tag = "gcirc"
    lv = leaves(r, syms)
    if not lv:
        chk.ob("R08.4", tag + "::law-of-cosines", None, fi.where(), "the result of the symbolic evaluation is not a term: %r" % (r,))
        return
    loose = forced_zero_rule(chk, fi, tag, lv, syms, "deg")
    zero, rest = split_identity(drop_shortcuts(lv, syms), syms, loose)
    per_pair_zero_rule(chk, fi, tag, lv, zero, syms)
    ok = len(zero) >= 1 and _has_priority(zero[0], syms)
    chk.ob("R08.3", tag + "::exact-zero-for-identical-inputs", ok, fi.where(), "identical inputs give exactly 0 (override piece: %s)" % (zero[0][2][-1][0] if zero else "MISSING"))
    if len(rest) != 1 or rest[0][1]:
        chk.ob("R08.4", tag + "::law-of-cosines", None, fi.where(), "unexpected structure %s" % str(r)[:200])
        return
    body = rest[0][0]
    if isinstance(body, sp.acos):
        body = sp.acos(_as_clip(body.args[0]), evaluate=False)
    d2r = sp.pi / 180
    cosd = sp.sin(dec1 * d2r) * sp.sin(dec2 * d2r) + sp.cos(dec1 * d2r) * sp.cos(dec2 * d2r) * sp.cos((ra2 - ra1) * d2r)
    CL = sp.Function("CLIP")
    ok = isinstance(body, sp.acos) and isinstance(body.args[0], CL)
    chk.ob("R08.2", tag + "::two-sided-clip-before-acos", bool(ok) and body.args[0].args[1:] == (-1, 1), fi.where(),
           "acos is applied to a value clipped to [-1, 1] on both sides (found %s)" % str(body)[:120])
    if ok:
        eq, d = symx.equal(body.args[0].args[0], cosd)
        chk.ob("R08.4", tag + "::law-of-cosines", eq, fi.where(), "cos(d) = sin d1 sin d2 + cos d1 cos d2 cos(ra2-ra1), degrees in, radians out%s" % ("" if eq else " (difference %s)" % str(d)[:200]))
        sw = {ra1: ra2, ra2: ra1, dec1: dec2, dec2: dec1}
        eq, _ = symx.equal(body.args[0].args[0], body.args[0].args[0].xreplace(sw))
        chk.ob("R08.7", tag + "::symmetric", eq, fi.where(), "symmetric under exchange of the two points")
    chk.ob("R08.1", tag + "::radians-out", ok and not body.has(sp.pi) or (ok and body.args[0].has(sp.pi) and body.func == sp.acos), fi.where(),
           "documented units: degrees in, radians out (no conversion factor on the result)")


# --------------------------------------------------------------------------
# R08.11 the separation does not depend on an option that is not about it
# --------------------------------------------------------------------------
# Every clause of the property is about "the separation the function returns", whatever else the caller asks for along with it (the
# position angle of gcirc, any on/off option added later).  A boolean option of a separation function therefore must not change the
# separation: the function is evaluated over the term domain for the other value of the option as well and the separation component
# of that result (the result itself, or the first element of a tuple: `dis, theta`) must be the same decision list -- same pieces,
# same selecting conditions, equal values -- as the one every other rule of this check has judged.  Positively different: the
# judged result has the exact-zero piece for identical inputs with priority over every other piece and the variant has not (identical
# inputs then give acos of a rounded 1, ~1e-8 rad, not 0), or a piece differs by a constant factor (another unit).  Any other difference
# of form is not decided (no verdict).

def _same_decision_list(lv0, lv1):
    if len(lv0) != len(lv1):
        return False
    for (v0, p0), (v1, p1) in zip(lv0, lv1):
        if p0 != p1:
            return False
        if not (isinstance(v0, sp.Basic) and isinstance(v1, sp.Basic)) or not symx.equal(v0, v1)[0]:
            return False
    return True


def option_invariance_rule(chk, se, fi, tag, args, base_flags, r0, syms, uin):
    if not isinstance(r0, sp.Basic):
        return
    lv0 = leaves(r0, syms)
    for p in fi.params:
        dflt = fi.defaults.get(p)
        if p.startswith("*") or p in args or not (isinstance(dflt, ast.Constant) and isinstance(dflt.value, bool)):
            continue
        base = base_flags.get(p, dflt.value)
        val = not base
        key = "%s::same-separation-for-%s=%s" % (tag, p, val)
        what = "the separation returned for %s=%s is the one returned for %s=%s" % (p, val, p, base)
        try:
            fl = dict(base_flags)
            fl[p] = val
            r1 = se.run(fi, dict(args), fl)
        except symx.Unsupported as e:
            chk.ob("R08.11", key, None, fi.where(), "%s: the function is not evaluated for %s=%s (%s)" % (what, p, val, str(e)[:120]))
            continue
        if isinstance(r1, (tuple, list)) and len(r1) >= 1:
            r1 = r1[0]
        if not isinstance(r1, sp.Basic):
            chk.ob("R08.11", key, None, fi.where(), "%s: the result for %s=%s is not a term: %r" % (what, p, val, r1))
            continue
        r1 = reduction_rule(chk, fi, tag, r1, syms, uin, quiet=True)
        lv1 = leaves(r1, syms)
        if _same_decision_list(lv0, lv1):
            chk.ob("R08.11", key, True, fi.where(), what)
            continue
        ok, why = None, "the two results differ in form (%d / %d pieces): not decided" % (len(lv0), len(lv1))
        z0, _ = split_identity(drop_shortcuts(lv0, syms), syms)
        z1, _ = split_identity(drop_shortcuts(lv1, syms), syms)
        has0 = bool(z0) and _has_priority(z0[0], syms)
        has1 = bool(z1) and _has_priority(z1[0], syms)
        if has0 and not has1:
            ok = False
            why = ("for %s=%s identical inputs are forced to exactly 0 (piece selected by `%s`), for %s=%s %s: the value returned there is "
                   "`%s`, the inverse cosine / sine of a rounded quantity (~1e-8 rad for one point in five), not 0, and the separation "
                   "depends on the option" % (p, base, z0[0][2][-1][0], p, val,
                                              "that piece is missing (the function returns before the override, or skips it)" if not z1
                                              else "another piece has priority over it", str(lv1[-1][0])[:120]))
        elif len(lv0) == len(lv1) and all(p0 == p1 for (_, p0), (_, p1) in zip(lv0, lv1)):
            for (v0, _), (v1, _) in zip(lv0, lv1):
                try:
                    q = sp.simplify(v1 / v0) if v0 != 0 else None
                except Exception:
                    q = None
                if q is not None and q.is_number and q.is_finite and q != 1:
                    ok, why = False, "the piece `%s` is returned multiplied by %s for %s=%s" % (str(v0)[:100], q, p, val)
                    break
        chk.ob("R08.11", key, ok, fi.where(), "%s: %s" % (what, why))


# --------------------------------------------------------------------------
# R08.12 double precision whatever the dtype of the caller's arrays: dtype provenance by abstract interpretation
# --------------------------------------------------------------------------
# "The true great-circle angle to 1e-11 degree" is about the points the caller passes: a float32 (float16) coordinate is exactly a
# double, the pair it names has a true separation, and the answer is owed to 1e-11 degree.  numpy computes a ufunc in the dtype of
# its array operands (python numbers do not promote an array), so a conversion factor, sin / cos or a root applied to a value that
# still has the caller's dtype is evaluated in single precision (error ~1e-5 degree): the coordinates must have been forced to
# float64 -- np.array(.., dtype='f8'), .astype(float), np.float64(..), a helper's dtype parameter left at its 'f8' default -- before
# the first rounding operation.  Decided for all inputs by a forward data flow over a five-point dtype domain, from the raw
# arguments through assignments, unpacking, branches (the units option pinned), loops and calls into package helpers:
#   F64  forced to (at least) double precision, whatever the caller passes
#   LOW  forced below double precision (dtype='f4')
#   IN   the caller's dtype: reached from a coordinate argument through dtype-preserving operations only (atleast_1d, asarray / array
#        without dtype, copy, indexing, reshaping, unary minus, arithmetic with python numbers or other such values)
#   PY   a python number (exact double; does not promote an array)
#   None not known (any construct outside the table): no verdict from the operations it reaches
# Judged operations: the rounding ufuncs (trigonometric and inverse, deg2rad / rad2deg / radians / degrees, sqrt, exp, log, hypot,
# power, add .. divide) and the arithmetic operators + - * / **.  An operation is a violation only when its computation dtype is
# IN or LOW on every path that reaches it (a merge of IN with anything else is "not known").  Comparisons, masks, indexing, %,
# copies are exact in any dtype and are not judged; math.* converts to double.

_F64_NAMES = {"f8", "d", "float64", "double", "float_", "float", "<f8", "=f8", ">f8", "|f8", "g", "f16", "float128", "longdouble", "longfloat"}
_LOW_NAMES = {"f4", "f", "float32", "single", "<f4", "=f4", ">f4", "f2", "e", "float16", "half", "<f2", "=f2", ">f2"}
_DT_ROUNDING = {"sin", "cos", "tan", "arcsin", "arccos", "arctan", "arctan2", "deg2rad", "rad2deg", "radians", "degrees", "sqrt", "cbrt",
                "exp", "expm1", "log", "log10", "log2", "log1p", "hypot", "sinh", "cosh", "tanh", "arcsinh", "arccosh", "arctanh", "power",
                "float_power", "square", "add", "subtract", "multiply", "divide", "true_divide", "reciprocal", "asin", "acos", "atan", "atan2"}
_DT_NIN2 = {"arctan2", "hypot", "power", "float_power", "add", "subtract", "multiply", "divide", "true_divide", "atan2"}
_DT_CONVERT = {"array", "asarray", "asanyarray", "ascontiguousarray", "asfortranarray", "require"}
_DT_KEEP = {"atleast_1d", "atleast_2d", "atleast_3d", "copy", "ravel", "squeeze", "reshape", "transpose", "broadcast_to", "negative", "abs",
            "absolute", "fabs", "positive", "flip", "roll", "take", "compress", "extract", "sort", "unique", "expand_dims", "moveaxis",
            "swapaxes", "real", "conj", "sum", "cumsum", "amin", "amax", "min", "max", "nan_to_num"}
_DT_PROMOTE = {"clip", "minimum", "maximum", "fmin", "fmax", "cross", "dot", "inner", "mod", "fmod", "remainder", "copysign"}
_DT_SEQ = {"stack", "vstack", "hstack", "dstack", "concatenate", "column_stack"}
_DT_KEEP_METHODS = {"copy", "ravel", "flatten", "reshape", "squeeze", "transpose", "clip", "conj", "round", "sum", "min", "max", "cumsum",
                    "take", "compress", "repeat", "swapaxes"}
_NOCONST = object()


class _DtName(str):
    """the class of the dtype domain a dtype object (np.dtype(..)) belongs to, as a name dtype_of() reads; not a python string of
    the program: comparisons with it are not decided"""

_REPORTED = "<result of a reported operation>"


class _D:
    """abstract value of the dtype domain: dt (see above), const (a python constant: option strings, flags, None), elts (a python
    sequence of values), src (the coordinate arguments the value was derived from)"""
    __slots__ = ("dt", "const", "elts", "src")

    def __init__(self, dt=None, const=_NOCONST, elts=None, src=frozenset()):
        self.dt, self.const, self.elts, self.src = dt, const, elts, src

    def __repr__(self):
        return "D(%s)" % (self.elts if self.elts is not None else (self.dt if self.const is _NOCONST else repr(self.const)))


_DUNK = _D()


def _dt_promote(vals):
    """dtype of an element-wise combination of the values (numpy >= 2 promotion: python numbers are weak)"""
    dts, src = [], frozenset()
    for v in vals:
        if v.elts is not None:
            w = _dt_promote(v.elts) if v.elts else _DUNK
            w = _D("F64" if w.dt == "PY" else w.dt, src=w.src)      # a sequence of python numbers becomes a float64 / int64 array
            v = w
        dts.append(v.dt)
        src |= v.src
    if "F64" in dts:
        return _D("F64", src=src)
    if None in dts or not dts:
        return _D(None, src=src)
    if "IN" in dts:
        return _D("IN", src=src)
    if "LOW" in dts:
        return _D("LOW", src=src)
    return _D("PY", src=src)


def _dt_join(a, b):
    """control-flow merge: agreement or "not known" """
    if a is None:
        return b
    if b is None:
        return a
    if a.elts is not None or b.elts is not None:
        if a.elts is not None and b.elts is not None and len(a.elts) == len(b.elts):
            return _D(elts=[_dt_join(x, y) for x, y in zip(a.elts, b.elts)])
        return _DUNK
    if a.const is not _NOCONST and b.const is not _NOCONST and type(a.const) is type(b.const) and a.const == b.const:
        return a
    if a.dt == b.dt:
        return _D(a.dt, src=a.src | b.src)
    if {a.dt, b.dt} == {"F64", "PY"}:
        return _D("F64", src=a.src | b.src)
    return _D(None, src=a.src | b.src)


class DtypeEval:
    def __init__(self, repo, max_depth=4):
        self.repo, self.max_depth = repo, max_depth
        self.sites = {}             # id(node) -> dict(fi, node, comp)
        self.stack = []
        self._cstack = []

    # ---- functions -----------------------------------------------------------------------------------------------------------
    def run(self, fi, binds):
        env = {}
        for p in fi.params:
            pn = p.lstrip("*")
            if pn in binds:
                env[pn] = binds[pn]
            elif p.startswith("*"):
                env[pn] = _DUNK
            elif pn in fi.defaults:
                env[pn] = self.ev(fi.defaults[pn], {}, fi)
            else:
                env[pn] = _DUNK
        rets = []
        self.stack.append(fi.qualname)
        try:
            self.block(fi.node.body, env, fi, rets)
        finally:
            self.stack.pop()
        out = None
        for r in rets:
            out = _dt_join(out, r)
        return out if out is not None else _D(const=None)

    # ---- statements ----------------------------------------------------------------------------------------------------------
    def block(self, stmts, env, fi, rets):
        for st in stmts:
            if self.stmt(st, env, fi, rets):
                return True
        return False

    def _merge(self, env, branches):
        live = [e for e, term in branches if not term]
        if not live:
            return True
        keys = set()
        for e in live:
            keys |= set(e)
        new = {}
        for k in keys:
            v = None
            for e in live:
                v = _dt_join(v, e.get(k, _DUNK))
            new[k] = v
        env.clear()
        env.update(new)
        return False

    def truth(self, t, env, fi):
        """True / False when the test is decided by constants (pinned options), else None"""
        if isinstance(t, ast.UnaryOp) and isinstance(t.op, ast.Not):
            r = self.truth(t.operand, env, fi)
            return None if r is None else not r
        if isinstance(t, ast.BoolOp):
            rs = [self.truth(x, env, fi) for x in t.values]
            if isinstance(t.op, ast.And):
                return False if any(r is False for r in rs) else (True if all(r is True for r in rs) else None)
            return True if any(r is True for r in rs) else (False if all(r is False for r in rs) else None)
        if isinstance(t, ast.Compare) and len(t.ops) == 1:
            a, b = self.ev(t.left, env, fi), self.ev(t.comparators[0], env, fi)
            op = t.ops[0]
            if isinstance(op, (ast.In, ast.NotIn)) and a.const is not _NOCONST and b.elts is not None \
                    and all(x.const is not _NOCONST for x in b.elts):
                r = any(type(x.const) is type(a.const) and x.const == a.const for x in b.elts)
                return r if isinstance(op, ast.In) else not r
            if a.const is _NOCONST or b.const is _NOCONST:
                return None
            if isinstance(a.const, (float, _DtName)) or isinstance(b.const, (float, _DtName)):
                return None
            if isinstance(op, (ast.Eq, ast.Is)):
                return type(a.const) is type(b.const) and a.const == b.const
            if isinstance(op, (ast.NotEq, ast.IsNot)):
                return not (type(a.const) is type(b.const) and a.const == b.const)
            return None
        v = self.ev(t, env, fi)
        if v.const is not _NOCONST and isinstance(v.const, (bool, str, type(None))):
            return bool(v.const)
        return None

    def stmt(self, st, env, fi, rets):
        if isinstance(st, ast.Assign):
            v = self.ev(st.value, env, fi)
            for t in st.targets:
                self.bind(t, v, env, fi)
            return False
        if isinstance(st, ast.AnnAssign):
            if st.value is not None:
                self.bind(st.target, self.ev(st.value, env, fi), env, fi)
            return False
        if isinstance(st, ast.AugAssign):
            v = self.ev(st.value, env, fi)
            cur = self.ev(st.target, env, fi) if isinstance(st.target, (ast.Name, ast.Subscript)) else _DUNK
            if isinstance(st.op, (ast.Add, ast.Sub, ast.Mult, ast.Div, ast.Pow)):
                res = _dt_promote([cur, v])
                if cur.elts is None and cur.dt in ("IN", "LOW", "F64"):
                    res = _D(cur.dt, src=cur.src | v.src)      # an array is updated in place: it keeps its dtype
                res = self._site(fi, st, res)
                if isinstance(st.target, ast.Name):
                    env[st.target.id] = res
            elif isinstance(st.target, ast.Name):
                env[st.target.id] = _dt_promote([cur, v]) if isinstance(st.op, (ast.Mod, ast.FloorDiv)) else _DUNK
            return False
        if isinstance(st, ast.Expr):
            self.ev(st.value, env, fi)
            return False
        if isinstance(st, ast.Return):
            rets.append(self.ev(st.value, env, fi) if st.value is not None else _D(const=None))
            return True
        if isinstance(st, ast.Raise):
            return True
        if isinstance(st, ast.If):
            r = self.truth(st.test, env, fi)
            if r is True:
                return self.block(st.body, env, fi, rets)
            if r is False:
                return self.block(st.orelse, env, fi, rets)
            e1, e2 = dict(env), dict(env)
            t1 = self.block(st.body, e1, fi, rets)
            t2 = self.block(st.orelse, e2, fi, rets)
            return self._merge(env, [(e1, t1), (e2, t2)])
        if isinstance(st, ast.For):
            it = self.ev(st.iter, env, fi)
            if it.elts is not None and 0 < len(it.elts) <= 16:
                for x in it.elts:
                    self.bind(st.target, x, env, fi)
                    if self.block(st.body, env, fi, rets):
                        break
            else:
                for _ in range(2):
                    e1 = dict(env)
                    self.bind(st.target, _D(it.dt, src=it.src) if it.elts is None else _DUNK, e1, fi)
                    t1 = self.block(st.body, e1, fi, rets)
                    self._merge(env, [(e1, t1), (dict(env), False)])
            self.block(st.orelse, env, fi, rets)
            return False
        if isinstance(st, ast.While):
            for _ in range(2):
                e1 = dict(env)
                self.ev(st.test, e1, fi)
                t1 = self.block(st.body, e1, fi, rets)
                self._merge(env, [(e1, t1), (dict(env), False)])
            return False
        if isinstance(st, ast.With):
            for it in st.items:
                self.ev(it.context_expr, env, fi)
                if it.optional_vars is not None:
                    self.bind(it.optional_vars, _DUNK, env, fi)
            return self.block(st.body, env, fi, rets)
        if isinstance(st, ast.Try):
            pre = dict(env)
            e0 = dict(env)
            t0 = self.block(st.body, e0, fi, rets)
            if not t0:
                t0 = self.block(st.orelse, e0, fi, rets)
            branches = [(e0, t0)]
            for h in st.handlers:
                eh = dict(pre)
                self._merge(eh, [(dict(pre), False), (dict(e0), False)])
                if h.name:
                    eh[h.name] = _DUNK
                branches.append((eh, self.block(h.body, eh, fi, rets)))
            term = self._merge(env, branches)
            if st.finalbody:
                term = self.block(st.finalbody, env, fi, rets) or term
            return term
        if isinstance(st, (ast.FunctionDef, ast.AsyncFunctionDef, ast.ClassDef)):
            env[st.name] = _DUNK
            return False
        if isinstance(st, (ast.Import, ast.ImportFrom)):
            for al in st.names:
                env[(al.asname or al.name).split(".")[0]] = _DUNK
            return False
        if isinstance(st, ast.Delete):
            return False
        return False

    def _element(self, v):
        if v.elts is not None:
            out = None
            for x in v.elts:
                out = _dt_join(out, x)
            return out if out is not None else _DUNK
        return _D(v.dt, src=v.src)          # an element / a row of an array has the array's dtype

    def bind(self, t, v, env, fi):
        if isinstance(t, ast.Name):
            env[t.id] = v
        elif isinstance(t, (ast.Tuple, ast.List)):
            if v.elts is not None and len(v.elts) == len(t.elts) and not any(isinstance(e, ast.Starred) for e in t.elts):
                for e, x in zip(t.elts, v.elts):
                    self.bind(e, x, env, fi)
            else:
                x = self._element(v) if v.elts is None or v.elts else _DUNK
                for e in t.elts:
                    self.bind(e.value if isinstance(e, ast.Starred) else e, _DUNK if isinstance(e, ast.Starred) else x, env, fi)
        elif isinstance(t, ast.Subscript):
            self.ev(t.value, env, fi)           # x[mask] = v: x keeps its dtype
        elif isinstance(t, ast.Starred):
            self.bind(t.value, _DUNK, env, fi)

    # ---- dtype expressions ---------------------------------------------------------------------------------------------------
    def dtype_of(self, node, env, fi):
        """'F64' / 'LOW' / 'IN' for a dtype expression, 'ABSENT' for None, None when it is not known"""
        if node is None:
            return "ABSENT"
        if isinstance(node, ast.Name) and node.id not in env and node.id == "float":
            return "F64"
        d = dotted_name(node)
        if d and d.split(".")[0] not in env:
            full = self.repo.resolve_name(fi.module, d)
            if full.startswith("numpy."):
                nm = full.split(".")[-1]
                return "F64" if nm in _F64_NAMES else ("LOW" if nm in _LOW_NAMES else None)
        if isinstance(node, ast.Call) and call_name(node) == "dtype" and len(node.args) == 1 and not node.keywords:
            return self.dtype_of(node.args[0], env, fi)
        if isinstance(node, ast.Attribute) and node.attr == "dtype":
            v = self.ev(node.value, env, fi)
            return v.dt if (v.elts is None and v.dt in ("F64", "LOW", "IN")) else None
        v = self.ev(node, env, fi)
        if v.const is None:
            return "ABSENT"
        if isinstance(v.const, str):
            return "F64" if v.const in _F64_NAMES else ("LOW" if v.const in _LOW_NAMES else None)
        return None

    def _as_array(self, v):
        """the value as numpy makes an array of it"""
        w = _dt_promote([v])
        return _D("F64" if w.dt == "PY" else w.dt, src=w.src)

    def _converted(self, v, dtnode, env, fi):
        dt = self.dtype_of(dtnode, env, fi)
        if dt == "ABSENT":
            return self._as_array(v)
        if dt == "IN":
            return _D("IN", src=v.src)
        return _D(dt, src=v.src)

    # ---- expressions -----------------------------------------------------------------------------------------------------------
    def ev(self, e, env, fi):
        if e is None:
            return _D(const=None)
        if isinstance(e, ast.Constant):
            if isinstance(e.value, (int, float)) and not isinstance(e.value, bool):
                return _D("PY", const=e.value)
            return _D(const=e.value)
        if isinstance(e, ast.Name):
            if e.id in env:
                return env[e.id]
            c = fi.module.consts.get(e.id)
            if isinstance(c, (ast.Constant, ast.UnaryOp, ast.BinOp, ast.Attribute, ast.Name)) and (fi.module.name, e.id) not in self._cstack:
                self._cstack.append((fi.module.name, e.id))         # module-level number: PI = np.pi, D2R = PI / 180.0
                try:
                    v = self.ev(c, {}, fi)
                finally:
                    self._cstack.pop()
                return v if v.dt == "PY" or v.const is not _NOCONST else _DUNK
            return _DUNK
        if isinstance(e, (ast.Tuple, ast.List)):
            if any(isinstance(x, ast.Starred) for x in e.elts):
                for x in e.elts:
                    self.ev(x.value if isinstance(x, ast.Starred) else x, env, fi)
                return _DUNK
            return _D(elts=[self.ev(x, env, fi) for x in e.elts])
        if isinstance(e, ast.BinOp):
            a, b = self.ev(e.left, env, fi), self.ev(e.right, env, fi)
            if isinstance(e.op, (ast.Add, ast.Mult)) and (a.elts is not None or b.elts is not None):
                return _DUNK                    # python sequence arithmetic
            if isinstance(e.op, (ast.Add, ast.Sub, ast.Mult, ast.Div, ast.Pow)):
                res = _dt_promote([a, b])
                return self._site(fi, e, res)
            if isinstance(e.op, (ast.Mod, ast.FloorDiv)):
                return _dt_promote([a, b])
            return _DUNK
        if isinstance(e, ast.UnaryOp):
            a = self.ev(e.operand, env, fi)
            if isinstance(e.op, (ast.USub, ast.UAdd)) and a.elts is None:
                if a.const is not _NOCONST and isinstance(a.const, (int, float)) and not isinstance(a.const, bool):
                    return _D("PY", const=-a.const if isinstance(e.op, ast.USub) else a.const)
                return _D(a.dt, src=a.src)
            return _DUNK
        if isinstance(e, ast.Compare):
            self.ev(e.left, env, fi)
            for c in e.comparators:
                self.ev(c, env, fi)
            return _DUNK
        if isinstance(e, ast.BoolOp):
            v = None
            for x in e.values:
                v = _dt_join(v, self.ev(x, env, fi))
            return v
        if isinstance(e, ast.IfExp):
            r = self.truth(e.test, env, fi)
            if r is True:
                return self.ev(e.body, env, fi)
            if r is False:
                return self.ev(e.orelse, env, fi)
            return _dt_join(self.ev(e.body, env, fi), self.ev(e.orelse, env, fi))
        if isinstance(e, ast.Subscript):
            base = self.ev(e.value, env, fi)
            ix = e.slice
            if base.elts is not None:
                if isinstance(ix, ast.Constant) and isinstance(ix.value, int) and not isinstance(ix.value, bool) \
                        and -len(base.elts) <= ix.value < len(base.elts):
                    return base.elts[ix.value]
                if isinstance(ix, ast.Slice):
                    return _DUNK
                self.ev(ix, env, fi)
                return self._element(base) if base.elts else _DUNK
            if not isinstance(ix, (ast.Constant, ast.Slice)):
                for x in (ix.elts if isinstance(ix, ast.Tuple) else [ix]):
                    if not isinstance(x, (ast.Constant, ast.Slice)):
                        self.ev(x, env, fi)
            return _D(base.dt if base.dt != "PY" else None, src=base.src)
        if isinstance(e, ast.Attribute):
            d = dotted_name(e)
            if d and d.split(".")[0] not in env:
                full = self.repo.resolve_name(fi.module, d)
                if full in ("numpy.pi", "math.pi", "numpy.e", "math.e", "numpy.inf", "math.inf", "numpy.nan", "math.nan", "math.tau"):
                    return _D("PY")
                if full != d and full.startswith(fi.module.name + ".") and full[len(fi.module.name) + 1:] in fi.module.consts:
                    return self.ev(ast.Name(id=full[len(fi.module.name) + 1:], ctx=ast.Load()), {}, fi)
                return _DUNK
            base = self.ev(e.value, env, fi)
            if e.attr in ("T", "real", "flat") and base.elts is None:
                return _D(base.dt if base.dt != "PY" else None, src=base.src)
            return _DUNK
        if isinstance(e, (ast.ListComp, ast.GeneratorExp)):
            if len(e.generators) == 1 and not e.generators[0].ifs:
                g = e.generators[0]
                it = self.ev(g.iter, env, fi)
                e1 = dict(env)
                if it.elts is not None and len(it.elts) <= 16:
                    out = []
                    for x in it.elts:
                        self.bind(g.target, x, e1, fi)
                        out.append(self.ev(e.elt, e1, fi))
                    return _D(elts=out)
            return _DUNK
        if isinstance(e, ast.Call):
            return self.call(e, env, fi)
        if isinstance(e, ast.Starred):
            self.ev(e.value, env, fi)
            return _DUNK
        if isinstance(e, ast.NamedExpr):
            v = self.ev(e.value, env, fi)
            self.bind(e.target, v, env, fi)
            return v
        return _DUNK

    def _site(self, fi, node, comp):
        """a rounding operation whose computation dtype is `comp`; the worst context of a node is kept.  Returns the value of the
        result: the result of a reported operation is marked, so that the operations it flows into do not repeat the report"""
        sev = {"IN": 2, "LOW": 2, None: 1}.get(comp.dt, 0)
        if sev == 2 and _REPORTED in comp.src:
            sev = -1                     # downstream of an operation that is reported already
        old = self.sites.get(id(node))
        if old is None or old["sev"] < sev:
            self.sites[id(node)] = {"fi": fi, "node": node, "comp": comp, "sev": sev}
        if sev == 2:
            return _D(comp.dt, src=comp.src | {_REPORTED})
        return comp

    def call(self, c, env, fi):
        f = c.func
        nm = call_name(c)
        d = dotted_name(f)
        shadow = d is not None and d.split(".")[0] in env
        full = self.repo.resolve_name(fi.module, d) if d and not shadow else ""
        starred = any(isinstance(a, ast.Starred) for a in c.args) or any(k.arg is None for k in c.keywords)
        args = [self.ev(a.value if isinstance(a, ast.Starred) else a, env, fi) for a in c.args]
        kws = {k.arg: self.ev(k.value, env, fi) for k in c.keywords if k.arg}
        if starred:
            return _DUNK
        if full.startswith("numpy.") and full.count(".") == 1:
            if nm in _DT_CONVERT and args:
                dtn = kwarg(c, "dtype")
                if dtn is None and len(c.args) >= 2 and nm != "require":
                    dtn = c.args[1]
                if dtn is None and nm == "require" and len(c.args) >= 2:
                    dtn = c.args[1]
                return self._converted(args[0], dtn, env, fi)
            if nm in ("atleast_1d", "atleast_2d", "atleast_3d") and len(args) > 1:
                return _D(elts=[self._as_array(a) for a in args])
            if nm == "dtype" and len(c.args) == 1 and not c.keywords:
                # a dtype object made from a dtype expression names the same dtype wherever a dtype is expected (np.dtype(None) is
                # float64); held in a local it is looked up as the string that names its class of the domain
                dt = self.dtype_of(c.args[0], env, fi)
                return _D(const=_DtName({"F64": "f8", "ABSENT": "f8", "LOW": "f4"}[dt])) if dt in ("F64", "ABSENT", "LOW") else _DUNK
            if nm in _DT_KEEP and args:
                if kwarg(c, "dtype") is not None:
                    return self._converted(args[0], kwarg(c, "dtype"), env, fi)
                return self._as_array(args[0])
            if nm in _F64_NAMES and nm not in ("float", "d", "g"):
                return _D("F64", src=args[0].src if args else frozenset())
            if nm in _LOW_NAMES and nm not in ("f", "e"):
                return _D("LOW", src=args[0].src if args else frozenset())
            if nm in _DT_ROUNDING and args:
                nin = 2 if nm in _DT_NIN2 else 1
                ins = args[:nin]
                if len(ins) < nin:
                    return _DUNK
                out = kwarg(c, "out")
                outv = self.ev(out, env, fi) if out is not None else (args[nin] if len(args) > nin else None)
                if outv is not None and outv.elts is not None:
                    outv = self._element(outv) if outv.elts else None
                comp = self._as_array(_dt_promote(ins)) if all(x.elts is None for x in ins) else _DUNK
                forced = self.dtype_of(kwarg(c, "dtype"), env, fi) if kwarg(c, "dtype") is not None else "ABSENT"
                if forced in ("F64", "LOW"):
                    comp = _D(forced, src=comp.src)
                elif forced != "ABSENT" or kwarg(c, "signature") is not None or kwarg(c, "sig") is not None:
                    comp = _D(None, src=comp.src)
                comp = self._site(fi, c, comp)
                outn = out if out is not None else (c.args[nin] if len(c.args) > nin else None)
                if _REPORTED in comp.src and isinstance(outn, ast.Name) and isinstance(env.get(outn.id), _D) and env[outn.id].elts is None:
                    env[outn.id] = _D(env[outn.id].dt, src=env[outn.id].src | {_REPORTED})     # written in place by a reported operation
                if outv is not None and outv.const is None:
                    outv = None
                if outv is not None:
                    return _D(outv.dt if outv.dt != "PY" else None, src=outv.src | comp.src)
                return comp
            if nm in _DT_PROMOTE and args:
                k = 3 if nm == "clip" else 2
                vals = [a for a in args[:k] if a.const is not None or a.dt is not None]
                return self._as_array(_dt_promote(vals)) if vals else _DUNK
            if nm == "where" and len(args) == 3:
                return self._as_array(_dt_promote(args[1:]))
            if nm in _DT_SEQ and args:
                return self._as_array(args[0])
            if nm in ("zeros", "ones", "empty", "full", "arange", "linspace"):
                dt = self.dtype_of(kwarg(c, "dtype"), env, fi)
                return _D("F64" if dt == "ABSENT" else dt)
            if nm in ("zeros_like", "ones_like", "empty_like", "full_like") and args:
                return self._converted(args[0], kwarg(c, "dtype"), env, fi)
            if nm in ("broadcast_arrays",) and args:
                return _D(elts=[self._as_array(a) for a in args])
            return _DUNK
        if full.startswith("math."):
            src = frozenset().union(*[a.src for a in args]) if args else frozenset()
            return _D("PY", src=src)
        if full and self.repo.has(full):
            tgt = self.repo.func(full)
            if len(self.stack) >= self.max_depth or tgt.qualname in self.stack or tgt.cls:
                return _DUNK
            params = [p for p in tgt.params if not p.startswith("*")]
            if len(args) > len(params) or any(k not in params for k in kws):
                return _DUNK
            binds = dict(zip(params, args))
            binds.update(kws)
            return self.run(tgt, binds)
        if isinstance(f, ast.Name) and not shadow:
            if f.id == "float" and len(args) == 1:
                return _D("PY", src=args[0].src)
            if f.id in ("int", "len", "round"):
                return _D("PY")
            if f.id == "abs" and len(args) == 1 and args[0].elts is None:
                return _D(args[0].dt, src=args[0].src)
            if f.id in ("tuple", "list") and len(args) == 1 and args[0].elts is not None:
                return args[0]
            if f.id == "zip" and args and all(a.elts is not None for a in args) and len({len(a.elts) for a in args}) == 1:
                return _D(elts=[_D(elts=list(t)) for t in zip(*[a.elts for a in args])])
            return _DUNK
        if isinstance(f, ast.Attribute) and not full:
            recv = self.ev(f.value, env, fi)
            if recv.elts is not None:
                return _DUNK
            if nm == "astype" and (c.args or kwarg(c, "dtype") is not None):
                dt = self.dtype_of(kwarg(c, "dtype") or c.args[0], env, fi)
                return _D(None if dt == "ABSENT" else dt, src=recv.src)
            if nm in _DT_KEEP_METHODS and recv.dt in ("F64", "LOW", "IN") and kwarg(c, "dtype") is None and kwarg(c, "out") is None:
                return _D(recv.dt, src=recv.src)
            if nm == "view" and not c.args and not c.keywords and recv.dt in ("F64", "LOW", "IN"):
                return _D(recv.dt, src=recv.src)
            return _DUNK
        return _DUNK


def precision_rule(chk, repo, fi, tag, coords, pins):
    """every rounding operation that the separation is computed with works in double precision whatever the caller's dtype"""
    de = DtypeEval(repo)
    binds = {p: _D("IN", src=frozenset([p])) for p in coords}
    for k, v in pins.items():
        if v is None:
            binds[k] = _DUNK
        elif isinstance(v, tuple):
            binds[k] = _D(elts=[_D(const=x) for x in v])
        else:
            binds[k] = _D(const=v)
    try:
        de.run(fi, binds)
    except RecursionError:
        chk.ob("R08.12", tag + "::double-precision::operations-found", None, fi.where(), "dtype provenance: recursion too deep")
        return
    sites = sorted(de.sites.values(), key=lambda s: (s["fi"].qualname, getattr(s["node"], "lineno", 0), getattr(s["node"], "col_offset", 0)))
    judged = [s for s in sites if s["sev"] in (0, 2) and s["comp"].src]      # operations on values derived from the coordinates
    bad = [s for s in judged if s["sev"] == 2]
    # an operation whose operand is another reported operation's result repeats the report: keep the first operation of each
    # function (in source order) per chain, i.e. those none of whose sub-expressions is itself reported
    badids = {id(s["node"]) for s in bad}
    first = [s for s in bad if not any(id(x) in badids for x in ast.walk(s["node"]) if x is not s["node"])]
    seen = set()
    for s in first:
        text = norm(s["node"])[:80]
        key = "%s::double-precision::%s::%s" % (tag, s["fi"].name, text)
        if key in seen:
            continue
        seen.add(key)
        comp = s["comp"]
        how = ("the caller's dtype: it reaches this operation from %s through dtype-preserving operations only (atleast_1d / asarray "
               "without dtype, copies, indexing, python-number arithmetic), no conversion to float64 on the way"
               % ("the argument(s) " + ", ".join("`%s`" % x for x in sorted(comp.src - {_REPORTED})) if comp.src - {_REPORTED} else "the coordinate arguments")) \
            if comp.dt == "IN" else "a dtype below float64 that the code itself asks for"
        chk.ob("R08.12", key, False, s["fi"].where(s["node"]),
               "every rounding operation of the separation works in double precision whatever the dtype of the caller's arrays: `%s` in %s "
               "is computed in %s; for float32 / float16 coordinates (exact doubles, e.g. catalogue columns) the conversion and sin / cos "
               "are then evaluated in single precision and the separation is off by ~1e-5 degree (1e-11 is owed); force the dtype first "
               "(np.array(x, dtype='f8', ...))" % (text, s["fi"].name, how))
    if not bad:
        chk.ob("R08.12", tag + "::double-precision::operations-found", True if judged else None, fi.where(),
               "%d rounding operation(s) judged (%d more with a dtype that is not known): all in double precision whatever the caller passes"
               % (len(judged), len(sites) - len(judged)))


# --------------------------------------------------------------------------
# R08.5 scalar / array uniformity: rank provenance by abstract interpretation
# --------------------------------------------------------------------------
# The separation functions must work for all-scalar input.  Two kinds of use of a condition are sensitive to that:
#   * np.where(cond) / np.nonzero(cond) / cond.nonzero() raise for a 0-d condition (numpy >= 2);
#   * cond.any() / cond.all() do not exist on a plain python bool (a comparison of two python floats).
# Using the condition as a boolean-mask subscript (`dis[cond] = 0`) or in np.any(cond) works for every rank.
# The rule therefore follows the data flow from the raw arguments: every value carries the number of dimensions it has when the
# caller passes python scalars (-1: a plain python object, 0: a numpy scalar / 0-d array, n >= 1: an n-d array; None: not known),
# through assignments, tuple unpacking, comprehensions, loops, branches and calls into package helpers.

class _V:
    """abstract value: nd (see above), mask (an element-wise comparison result), elts (python sequence of known values)"""
    __slots__ = ("nd", "mask", "elts", "anylen")

    def __init__(self, nd, mask=False, elts=None, anylen=False):
        self.nd, self.mask, self.elts, self.anylen = nd, mask, elts, anylen

    def __repr__(self):
        return "Q%r" % (self.elts,) if self.elts is not None else "V(%s%s)" % (self.nd, ",mask" if self.mask else "")


_RAW = -1
_UNK = _V(None)
_ELEMENTWISE = {"sin", "cos", "tan", "arcsin", "arccos", "arctan", "arctan2", "sqrt", "abs", "absolute", "fabs", "deg2rad", "rad2deg",
                "radians", "degrees", "exp", "log", "log10", "clip", "minimum", "maximum", "fmin", "fmax", "fmod", "mod", "floor", "ceil",
                "sign", "square", "power", "add", "subtract", "multiply", "divide", "isfinite", "isnan", "logical_and", "logical_or",
                "logical_not", "hypot", "cross", "sinh", "cosh", "tanh", "rint", "around", "round"}
_MASKY = {"logical_and", "logical_or", "logical_not", "isfinite", "isnan", "equal", "not_equal", "greater", "less", "greater_equal", "less_equal"}
_CONVERT = {"array", "asarray", "asanyarray", "ascontiguousarray", "asfarray"}
_REDUCTIONS = {"sum", "any", "all", "min", "max", "mean", "prod", "amin", "amax", "std", "var", "median", "dot", "argmin", "argmax", "count_nonzero"}
_KEEP_METHODS = {"clip", "copy", "astype", "view", "round", "conj", "byteswap", "newbyteorder"}


def _join(a, b):
    """least informative of two values (control-flow merge)"""
    if a is None:
        return b
    if b is None:
        return a
    if a.elts is not None or b.elts is not None:
        if a.elts is not None and b.elts is not None and len(a.elts) == len(b.elts) and a.anylen == b.anylen:
            return _V(None, elts=[_join(x, y) for x, y in zip(a.elts, b.elts)], anylen=a.anylen)
        return _UNK
    if a.nd is None or b.nd is None:
        return _V(None, a.mask and b.mask)
    return _V(min(a.nd, b.nd), a.mask and b.mask)


def _as_array_nd(v):
    """dimensions of np.asarray(v)"""
    if v.elts is not None:
        inner = [_as_array_nd(x) for x in v.elts]
        if v.anylen or not inner:
            return 1 if not inner or any(i is None for i in inner) else 1 + min(inner)
        if any(i is None for i in inner):
            return None
        return 1 + min(inner)
    if v.nd is None:
        return None
    return max(0, v.nd)


def _broadcast(vals, numpy_result=False):
    """dimensions of an element-wise combination"""
    nds = []
    unknown = False
    for v in vals:
        if v.elts is not None:
            nds.append(None)        # a python sequence: an array only in the company of an array
            unknown = True
        elif v.nd is None:
            unknown = True
        else:
            nds.append(v.nd)
    known = [n for n in nds if n is not None]
    top = max(known) if known else None
    if unknown:
        # broadcasting never lowers the rank: a known operand with >= 1 dimensions decides
        return top if (top is not None and top >= 1) else None
    if top is None:
        return None
    return max(0, top) if numpy_result else top


class RankEval:
    def __init__(self, repo, max_depth=4):
        self.repo = repo
        self.max_depth = max_depth
        self.sites = {}          # (qualname of the function holding the use, text) -> dict(node, fi, need, nd, kind)
        self.mask_subscripts = 0
        self.stack = []

    # ---- functions -----------------------------------------------------------------------------------------------------------
    def run(self, fi, binds):
        env = {}
        for p in fi.params:
            pn = p.lstrip("*")
            if pn in binds:
                env[pn] = binds[pn]
            elif pn in fi.defaults:
                env[pn] = self.ev(fi.defaults[pn], {}, fi)
            else:
                env[pn] = _V(_RAW)
        rets = []
        self.stack.append(fi.qualname)
        try:
            self.block(fi.node.body, env, fi, rets)
        finally:
            self.stack.pop()
        out = None
        for r in rets:
            out = r if out is None else _join(out, r)
        return out if out is not None else _V(_RAW)

    # ---- statements ----------------------------------------------------------------------------------------------------------
    def block(self, stmts, env, fi, rets):
        """executes in place; returns True when control cannot fall out of the block"""
        for st in stmts:
            if self.stmt(st, env, fi, rets):
                return True
        return False

    def _merge(self, env, branches):
        """env := join of the branch environments that fall through"""
        live = [e for e, term in branches if not term]
        if not live:
            return True
        keys = set()
        for e in live:
            keys |= set(e)
        new = {}
        for k in keys:
            v = None
            for e in live:
                x = e.get(k, _UNK)
                v = x if v is None else _join(v, x)
            new[k] = v
        env.clear()
        env.update(new)
        return False

    def stmt(self, st, env, fi, rets):
        if isinstance(st, ast.Assign):
            v = self.ev(st.value, env, fi)
            for t in st.targets:
                self.bind(t, v, env, fi)
            return False
        if isinstance(st, ast.AnnAssign):
            if st.value is not None:
                self.bind(st.target, self.ev(st.value, env, fi), env, fi)
            return False
        if isinstance(st, ast.AugAssign):
            v = self.ev(st.value, env, fi)
            if isinstance(st.target, ast.Name):
                cur = env.get(st.target.id, _UNK)
                if not (cur.elts is None and cur.nd is not None and cur.nd >= 0):      # an ndarray is updated in place: same rank
                    env[st.target.id] = _V(_broadcast([cur, v]))
            else:
                self.ev(st.target, env, fi)
            return False
        if isinstance(st, ast.Expr):
            self.ev(st.value, env, fi)
            return False
        if isinstance(st, ast.Return):
            rets.append(self.ev(st.value, env, fi) if st.value is not None else _V(_RAW))
            return True
        if isinstance(st, ast.Raise):
            return True
        if isinstance(st, ast.If):
            self.ev(st.test, env, fi)
            e1, e2 = dict(env), dict(env)
            t1 = self.block(st.body, e1, fi, rets)
            t2 = self.block(st.orelse, e2, fi, rets)
            return self._merge(env, [(e1, t1), (e2, t2)])
        if isinstance(st, (ast.For, ast.While)):
            if isinstance(st, ast.For):
                it = self.ev(st.iter, env, fi)
            for _ in range(3):
                e1 = dict(env)
                if isinstance(st, ast.For):
                    self.bind(st.target, self._element(it), e1, fi)
                else:
                    self.ev(st.test, e1, fi)
                t1 = self.block(st.body, e1, fi, rets)
                self._merge(env, [(e1, t1), (dict(env), False)])
            self.block(st.orelse, env, fi, rets)
            return False
        if isinstance(st, ast.With):
            for it in st.items:
                v = self.ev(it.context_expr, env, fi)
                if it.optional_vars is not None:
                    self.bind(it.optional_vars, _UNK, env, fi)
            return self.block(st.body, env, fi, rets)
        if isinstance(st, ast.Try):
            pre = dict(env)
            e0 = dict(env)
            t0 = self.block(st.body, e0, fi, rets)
            if not t0:
                t0 = self.block(st.orelse, e0, fi, rets)
            branches = [(e0, t0)]
            for h in st.handlers:
                eh = dict(pre)
                self._merge(eh, [(dict(pre), False), (dict(e0), False)])
                if h.name:
                    eh[h.name] = _UNK
                branches.append((eh, self.block(h.body, eh, fi, rets)))
            term = self._merge(env, branches)
            if st.finalbody:
                term = self.block(st.finalbody, env, fi, rets) or term
            return term
        if isinstance(st, (ast.FunctionDef, ast.AsyncFunctionDef, ast.ClassDef)):
            env[st.name] = _UNK
            return False
        if isinstance(st, (ast.Continue, ast.Break)):
            return False            # over-approximation: the statements after it are still merged by the loop join
        return False

    def _element(self, it):
        """the value of one element of an iterable"""
        if it.elts is not None:
            v = None
            for x in it.elts:
                v = x if v is None else _join(v, x)
            return v if v is not None else _UNK
        if it.nd is not None and it.nd >= 1:
            return _V(it.nd - 1, it.mask)
        return _UNK

    def bind(self, t, v, env, fi):
        if isinstance(t, ast.Name):
            env[t.id] = v
        elif isinstance(t, (ast.Tuple, ast.List)):
            if v.elts is not None and not v.anylen and len(v.elts) == len(t.elts) and not any(isinstance(e, ast.Starred) for e in t.elts):
                for e, x in zip(t.elts, v.elts):
                    self.bind(e, x, env, fi)
            else:
                x = self._element(v)
                for e in t.elts:
                    self.bind(e.value if isinstance(e, ast.Starred) else e, _UNK if isinstance(e, ast.Starred) else x, env, fi)
        elif isinstance(t, ast.Subscript):
            self.ev(t, env, fi)         # x[mask] = v: the rank of x is unchanged; the subscript is looked at
        elif isinstance(t, ast.Starred):
            self.bind(t.value, _UNK, env, fi)

    # ---- expressions -----------------------------------------------------------------------------------------------------------
    def ev(self, e, env, fi):
        if e is None:
            return _V(_RAW)
        if isinstance(e, ast.Constant):
            return _V(_RAW)
        if isinstance(e, ast.Name):
            if e.id in env:
                return env[e.id]
            if e.id in ("True", "False", "None"):
                return _V(_RAW)
            c = fi.module.consts.get(e.id)
            if isinstance(c, ast.Constant) or (isinstance(c, ast.UnaryOp) and isinstance(c.operand, ast.Constant)):
                return _V(_RAW)
            return _UNK
        if isinstance(e, (ast.Tuple, ast.List)):
            if any(isinstance(x, ast.Starred) for x in e.elts):
                for x in e.elts:
                    self.ev(x.value if isinstance(x, ast.Starred) else x, env, fi)
                return _V(None, elts=[_UNK], anylen=True)
            return _V(None, elts=[self.ev(x, env, fi) for x in e.elts])
        if isinstance(e, ast.BinOp):
            a, b = self.ev(e.left, env, fi), self.ev(e.right, env, fi)
            if a.elts is not None and b.elts is not None:
                return _UNK
            return _V(_broadcast([a, b]), mask=a.mask and b.mask and isinstance(e.op, (ast.BitAnd, ast.BitOr, ast.BitXor)))
        if isinstance(e, ast.UnaryOp):
            a = self.ev(e.operand, env, fi)
            if isinstance(e.op, ast.Not):
                return _V(_RAW)
            return _V(_broadcast([a]), mask=a.mask and isinstance(e.op, ast.Invert))
        if isinstance(e, ast.Compare):
            vals = [self.ev(e.left, env, fi)] + [self.ev(c, env, fi) for c in e.comparators]
            if any(isinstance(o, (ast.Is, ast.IsNot, ast.In, ast.NotIn)) for o in e.ops):
                return _V(_RAW)
            if all(v.elts is not None for v in vals):
                return _V(_RAW)
            return _V(_broadcast(vals), mask=True)
        if isinstance(e, ast.BoolOp):
            v = None
            for x in e.values:
                y = self.ev(x, env, fi)
                v = y if v is None else _join(v, y)
            return v
        if isinstance(e, ast.IfExp):
            self.ev(e.test, env, fi)
            return _join(self.ev(e.body, env, fi), self.ev(e.orelse, env, fi))
        if isinstance(e, ast.Subscript):
            return self.subscript(e, env, fi)
        if isinstance(e, ast.Attribute):
            d = dotted_name(e)
            if d and d.split(".")[0] not in env:
                if self.repo.resolve_name(fi.module, d) in ("numpy.pi", "math.pi", "numpy.e", "math.e", "numpy.inf", "numpy.nan"):
                    return _V(_RAW)
                return _UNK
            base = self.ev(e.value, env, fi)
            if e.attr in ("T", "real", "imag") and base.elts is None and base.nd is not None and base.nd >= 0:
                return _V(base.nd, base.mask)
            return _UNK
        if isinstance(e, (ast.ListComp, ast.GeneratorExp)):
            return self.comprehension(e, env, fi)
        if isinstance(e, ast.Call):
            return self.call(e, env, fi)
        if isinstance(e, ast.Starred):
            self.ev(e.value, env, fi)
            return _UNK
        if isinstance(e, (ast.JoinedStr, ast.Dict, ast.Set, ast.Lambda, ast.DictComp, ast.SetComp)):
            return _UNK
        return _UNK

    def comprehension(self, e, env, fi):
        g = e.generators[0]
        if len(e.generators) != 1:
            return _V(None, elts=[_UNK], anylen=True)
        it = self.ev(g.iter, env, fi)
        e1 = dict(env)
        if it.elts is not None and not it.anylen and not g.ifs:
            out = []
            for x in it.elts:
                self.bind(g.target, x, e1, fi)
                out.append(self.ev(e.elt, e1, fi))
            return _V(None, elts=out)
        self.bind(g.target, self._element(it), e1, fi)
        for c in g.ifs:
            self.ev(c, e1, fi)
        return _V(None, elts=[self.ev(e.elt, e1, fi)], anylen=True)

    def _index_effect(self, ix, env, fi):
        """(change of the number of dimensions, uses a boolean mask) of one index component; change None = not known"""
        if isinstance(ix, ast.Slice):
            for x in (ix.lower, ix.upper, ix.step):
                if x is not None:
                    self.ev(x, env, fi)
            return 0, False
        if isinstance(ix, ast.Constant):
            if ix.value is None:
                return 1, False
            if ix.value is Ellipsis:
                return None, False
            return -1, False
        v = self.ev(ix, env, fi)
        if v.mask:
            # a boolean mask of m >= 1 dimensions replaces m axes by one; a 0-d / python bool adds an axis
            return (None if v.nd is None else (1 - v.nd if v.nd >= 1 else 1)), True
        if v.elts is not None:
            return 0, False              # a list of indices: fancy indexing along this axis
        if v.nd is None:
            return None, False
        if v.nd >= 1:
            return v.nd - 1, False       # index array
        return -1, False                 # an integer

    def subscript(self, e, env, fi):
        base = self.ev(e.value, env, fi)
        comps = e.slice.elts if isinstance(e.slice, ast.Tuple) else [e.slice]
        if base.elts is not None:
            ix = comps[0] if len(comps) == 1 else None
            for c in comps:
                if not isinstance(c, (ast.Constant, ast.Slice)):
                    self.ev(c, env, fi)
            if isinstance(ix, ast.Constant) and isinstance(ix.value, int) and not base.anylen and -len(base.elts) <= ix.value < len(base.elts):
                return base.elts[ix.value]
            if isinstance(ix, ast.Constant) and isinstance(ix.value, int) and base.anylen:
                return self._element(base)
            if isinstance(ix, ast.Slice):
                return _V(None, elts=[self._element(base)], anylen=True)
            return _UNK
        delta, masked = 0, False
        for c in comps:
            d, m = self._index_effect(c, env, fi)
            masked = masked or m
            delta = None if (delta is None or d is None) else delta + d
        if masked:
            self.mask_subscripts += 1
        if base.nd is None or delta is None or base.nd < 0:
            return _UNK
        return _V(max(1 if masked else 0, base.nd + delta))

    def _site(self, fi, node, operand_node, kind, need, v):
        key = (self.stack[0] if self.stack else fi.qualname, kind, norm(operand_node))
        nd = v.nd if v.elts is None else _as_array_nd(v)
        sev = lambda n: 0 if (n is not None and n < need) else (1 if n is None else 2)
        old = self.sites.get(key)
        if old is not None and sev(old["nd"]) <= sev(nd):
            return                      # a helper reached in several contexts: keep the worst one
        self.sites[key] = {"fi": fi, "node": node, "operand": operand_node, "kind": kind, "need": need, "nd": nd}

    def call(self, c, env, fi):
        f = c.func
        nm = call_name(c)
        d = dotted_name(f)
        shadow = d is not None and d.split(".")[0] in env
        full = self.repo.resolve_name(fi.module, d) if d and not shadow else ""
        args = [self.ev(a, env, fi) for a in c.args]
        kws = {k.arg: self.ev(k.value, env, fi) for k in c.keywords if k.arg}
        pos = [a for a, n in zip(args, c.args) if not isinstance(n, ast.Starred)]
        if full.startswith("numpy."):
            if nm in ("atleast_1d", "atleast_2d", "atleast_3d") and len(pos) == 1:
                k = int(nm[8])
                nd = _as_array_nd(pos[0])
                return _V(k if nd is None else max(k, nd), pos[0].mask)
            if nm in ("atleast_1d", "atleast_2d", "atleast_3d") and len(pos) > 1 and len(pos) == len(c.args) and not c.keywords:
                # several arguments: the sequence of the normalised arrays, one per argument
                k = int(nm[8])
                nds = [_as_array_nd(p) for p in pos]
                return _V(None, elts=[_V(k if nd is None else max(k, nd), p.mask and p.elts is None) for nd, p in zip(nds, pos)])
            if nm in _CONVERT and pos:
                nd = _as_array_nd(pos[0])
                ndmin = kwarg(c, "ndmin")
                if ndmin is not None:
                    if isinstance(ndmin, ast.Constant) and isinstance(ndmin.value, int):
                        nd = ndmin.value if nd is None else max(nd, ndmin.value)
                    else:
                        nd = None
                return _V(nd, pos[0].mask and pos[0].elts is None)
            if nm in ("where", "nonzero", "argwhere") and len(c.args) == 1 and pos:
                self._site(fi, c, c.args[0], "np." + nm, 1, pos[0])
                return _V(None, elts=[_V(1)], anylen=True)
            if nm == "where" and len(pos) == 3:
                return _V(_broadcast(pos, numpy_result=True))
            if nm in _ELEMENTWISE and pos:
                ins = pos[:2] if nm in ("arctan2", "minimum", "maximum", "fmin", "fmax", "fmod", "mod", "power", "add", "subtract", "multiply", "divide",
                                        "logical_and", "logical_or", "hypot", "cross") else (pos[:3] if nm == "clip" else pos[:1])
                return _V(_broadcast(ins, numpy_result=True), mask=nm in _MASKY)
            if nm in ("zeros_like", "ones_like", "empty_like", "full_like") and pos:
                return _V(_as_array_nd(pos[0]))
            if nm in ("zeros", "ones", "empty", "full") and pos:
                sh = pos[0]
                if sh.elts is not None and not sh.anylen:
                    return _V(len(sh.elts))
                return _V(1) if (sh.elts is None and sh.nd == _RAW) else _UNK
            if nm in ("arange", "linspace", "logspace", "flatnonzero", "ravel"):
                return _V(1)
            if nm in _REDUCTIONS and pos:
                if kwarg(c, "axis") is None and len(c.args) < 2:
                    return _V(0, mask=nm in ("any", "all"))
                return _UNK
            if nm in ("float64", "float32", "int64", "int32", "bool_"):
                return _V(0)
            return _UNK
        if full.startswith("math."):
            return _V(_RAW)
        if full and self.repo.has(full):
            tgt = self.repo.func(full)
            if len(self.stack) >= self.max_depth or tgt.qualname in self.stack or any(isinstance(a, ast.Starred) for a in c.args) \
                    or any(k.arg is None for k in c.keywords):
                return _UNK
            params = [p for p in tgt.params if not p.startswith("*")]
            binds = dict(zip(params, args))
            binds.update({k: v for k, v in kws.items() if k in params})
            return self.run(tgt, binds)
        if isinstance(f, ast.Name) and not shadow:
            if f.id in ("float", "int", "bool", "len", "str", "repr", "round"):
                return _V(_RAW)
            if f.id == "abs" and pos:
                return _V(_broadcast(pos[:1]))
            if f.id in ("tuple", "list") and len(pos) == 1:
                if pos[0].elts is not None:
                    return pos[0]
                if pos[0].nd is not None and pos[0].nd >= 1:
                    return _V(None, elts=[_V(pos[0].nd - 1)], anylen=True)
                return _UNK
            if f.id == "zip" and pos and all(p.elts is not None and not p.anylen for p in pos) and len({len(p.elts) for p in pos}) == 1:
                return _V(None, elts=[_V(None, elts=list(t)) for t in zip(*[p.elts for p in pos])])
            return _UNK
        if isinstance(f, ast.Attribute):
            recv = self.ev(f.value, env, fi)
            if recv.elts is not None:
                return _UNK
            if nm in ("any", "all") and not c.args:
                if recv.mask or recv.nd is not None:
                    self._site(fi, c, f.value, "." + nm + "()", 0, recv)
                return _V(0, mask=True)
            if nm == "nonzero" and not c.args:
                if recv.mask or recv.nd is not None:
                    self._site(fi, c, f.value, ".nonzero()", 1, recv)
                return _V(None, elts=[_V(1)], anylen=True)
            if recv.nd is None or recv.nd < 0:
                return _UNK
            if nm in _KEEP_METHODS:
                return _V(recv.nd, recv.mask and nm in ("copy", "view"))
            if nm in ("ravel", "flatten"):
                return _V(1, recv.mask)
            if nm in _REDUCTIONS and not c.args and kwarg(c, "axis") is None:
                return _V(0)
            if nm == "squeeze":
                return _V(0)
            return _UNK
        return _UNK


def rank_rule(chk, repo, fi):
    """uses of a condition that need an array (see the head of this section) must be reached by values normalised with ndmin=1 /
    atleast_1d when the caller passes scalars"""
    rk = RankEval(repo)
    try:
        rk.run(fi, {})
    except RecursionError:
        chk.ob("R08.5", fi.qualname + "::where-calls-found", None, fi.where(), "rank provenance: recursion too deep")
        return
    raw = set(p.lstrip("*") for p in fi.params)
    for (q, kind, text), s in sorted(rk.sites.items(), key=lambda kv: kv[0]):
        nd, need = s["nd"], s["need"]
        ok = None if nd is None else nd >= need
        names = {y.id for y in ast.walk(s["operand"]) if isinstance(y, ast.Name)}
        what = {-1: "a plain python value", 0: "a numpy scalar / 0-d array"}.get(nd, "not known" if nd is None else "an array with >= %d dimension(s)" % nd)
        if need >= 1:
            key = "%s::where-on-normalised-operands::%s" % (fi.qualname, text)
            msg = ("`%s`: the condition must be built from values normalised with ndmin=1 / atleast_1d%s"
                   % (norm(s["node"]), "" if ok else "; for all-scalar input it is %s%s, so numpy raises (0-d nonzero)"
                      % (what, (" (built from the raw arguments %s)" % sorted(names & raw)) if names & raw else "")))
        else:
            key = "%s::mask-method-on-numpy-value::%s" % (fi.qualname, text)
            msg = ("`%s`: the receiver must be a numpy value for every input rank%s"
                   % (norm(s["node"]), "" if ok else "; for all-scalar input it is %s, which has no .%s" % (what, kind.strip(".()"))))
        chk.ob("R08.5", key, ok, s["fi"].where(s["node"]), msg)
    n = len(rk.sites)
    # presence: the function selects elements through a condition, either by a rank-sensitive use judged above or by boolean-mask
    # subscripts (which work for every rank); neither found = the idiom is not recognised (no verdict)
    chk.ob("R08.5", fi.qualname + "::where-calls-found", True if (n or rk.mask_subscripts) else None, fi.where(),
           "%d rank-sensitive use(s) of a condition examined (where/nonzero/.any()/.all()), %d boolean-mask subscript(s) (rank-insensitive)" % (n, rk.mask_subscripts))
