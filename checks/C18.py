"""C18 -- weighted moments, clipping, interpolation and cov/cor follow their definitions."""
import ast

import sympy as sp

from vcheck import effects, rules, symx
from vcheck.core import PyRepo, AnalysisError, call_name, dotted_name, kwarg, norm, walk_no_nested
from vcheck.rules import cfg_of

MANIFEST = dict(
    text="Formula conformance by symbolic normal forms plus bounded symbolic path execution of the loop routines (not numerical testing): the "
         "weighted-moment routine is abstractly interpreted for every (inputmean, calcerr, sdev) setting with sums as uninterpreted "
         "functionals and compared with the documented definitions (sum(w x)/sum(w), 1/sqrt(sum w), sqrt(sum w^2 (x-m)^2)/sum w, "
         "sqrt(sum w (x-m)^2/sum w)); its layout rules (sums over axis 0, 1-d weights given a column axis only for N-by-d data, shape "
         "mismatch rejected, replication of element 0 guarded by a length test) read the routine together with the private helpers it "
         "calls and classify names by the public parameter they derive from (through array re-presentations and helpers that return one) and tests by what they say; linear interpolation is compared "
         "with (u-x_k)(v_{k+1}-v_k)/(x_{k+1}-x_k)+v_k where the segment index is decided to be clamp(searchsorted(x,u)-1, 0, n-2) by "
         "complete enumeration of the integer cases however the clamp is spelled (a search over a contiguous part x[a:b] of the ascending table is the search over the whole table less a, held to the length of the part; a look-up in a per-segment table built by element-wise arithmetic on parts of the tables, (x[1:] - x[:-1])[k], is the arithmetic on the look-ups x[k+1] - x[k] once k is shown to lie inside the part for every value it can take), and no input may be narrowed (cast to an integer type or to "
         "another input's dtype) between the public parameter and the search / formula (data flow through array re-presentations); cov->cor and cor->cov are evaluated element by element "
         "(loop nests over full index ranges, loops over the rows / entries of the inputs themselves -- directly, zipped, enumerated from 0 -- and broadcast stores alike; a list filled by one append per pass of a full-range loop is the vector of the appended terms) and compared with the element formulas, with their symbolic "
         "inverse for a positive diagonal, the float64 result buffer and the rejection of a non-positive diagonal; sigma_clip, wmedian, "
         "get_stats and boxcar_average are executed on every path (loops unrolled up to a bound -- counted loops and loops over the entries of an index array alike --, private helpers entered, an instance of a plain record class of the module being what its __init__ stores in it, other package "
         "functions as constructors) over a term domain in which the surviving index set is a chain all -> all[keep_0] -> ... (data re-indexed from the full array by the accumulated index list and data narrowed in step with it denote the same set: subsets of subsets compose; a helper that branches on an undecided test forks the path at the calling statement; calls through a module-level dispatch table that is never changed are calls of the entry): on every "
         "path the reported statistics are those of the reported set, every keep test is the strict |x-mean| < nsig*deviation on the "
         "current set and its own statistics, the loop is left only for all-clipped / nothing-changed (count compared with the size of the "
         "current set) or after exactly niter passes; the weighted median returns the value at sorted position k exactly when the "
         "remaining weight exceeds half the total for all earlier positions and not for k, or, when the position is computed in closed form "
         "(cumsum, or the running difference total - cumsum spelled subtract.accumulate, + searchsorted / argmax / where / count over the weights in sorted order), is the first position whose running weight is >= "
         "half the total by the abstract meaning of these primitives, and on no path that equal positive weights of some size take (the path "
         "tests evaluated abstractly over that family: relations linear in the size n) is the value returned a blend of the data (the plain "
         "median / middle quantile for even n, an average, arithmetic on several sorted entries) instead of one entry; the summary helper wires "
         "min/max/mean/deviation/error from these routines in the right roles with the right keywords (a key popped from the caller's keywords is gone from what is handed on: an option the delegated routine names must then be passed explicitly), and on every path on which nsig/niter "
         "can be among the caller's keywords each reported statistic is taken from a sigma_clip call on the data that is given the caller's weights "
         "(reductions / wmom components over the whole array there are a violation).",
    note="Not decided: numerical values, behaviour for zero total weight, more than 3 (clipping) / 4 (median) passes of a loop (the paths are "
         "structurally uniform). Trusted: numpy reductions (sum/mean/std/min/max), searchsorted, argsort, where, sympy normaliser.",
    technique="static analysis: abstract interpretation over a symbolic term domain (reductions as uninterpreted functionals), bounded symbolic "
              "path execution with path constraints, index-aware element evaluation of matrix code, CFG control-dependence facts",
)

ST = "esutil.stat.util."
SUM = sp.Function("SUM")


# rules that keep their verdict however the code is laid out (decided by term equality over all paths, element evaluation, or
# control-dependence facts read through helpers); every other rule of this check is a template rule (vcheck.core.Check.obt)
SEMANTIC = ('R18.clip', 'R18.cov', 'R18.wmom',
            # decided by complete enumeration of the integer index cases plus term equality over a closed vocabulary (anything
            # outside the vocabulary is "not recognised"), and by data flow from the public parameters to conversion calls
            'R18.interp::interplin::formula', 'R18.interp::interplin::two-sided-index-clamp', 'R18.interp::interplin::inputs-keep-their-values',
            # decided on every path of the term-domain execution / on the abstract meaning of the library search primitives
            'R18.wmed', 'R18.stats::get_stats::plain-definitions',
            # decided on every path of the term-domain execution: the reported terms are positively read as reductions over the whole
            # array (closed vocabulary, no selection) / the delegated clipping call is positively read as not given the weights
            'R18.stats::get_stats::clipping-honoured',
            # decided by the flow-sensitive buffer-ownership analysis (vcheck.effects) restricted to positively read views: a write
            # (store, in-place operator, out=, mutating method) into a buffer that may be the caller's array
            'R18.interp::interplin::inputs-not-written', 'R18.stats::get_stats::inputs-not-written',
            'R18.boxcar::boxcar_average::inputs-not-written')


def run(chk):
    repo = PyRepo()
    chk.set_templates(repo, semantic=SEMANTIC)
    chk.explanation = MANIFEST["text"]
    chk.trusted = ["numpy reductions and searchsorted", "sympy normaliser", "CPython ast"]
    chk.floor = 40
    wmom(chk, repo)
    interplin(chk, repo)
    covcor(chk, repo)
    clipping(chk, repo)
    wmedian(chk, repo)
    summary(chk, repo)
    boxcar(chk, repo)
    inputs_kept(chk, repo)


class _Env(symx.Env):
    """symx.Env that reads every numpy spelling of "the positions where an element-wise condition holds" as the engine reads the
    one-argument np.where(cond): np.nonzero(cond) and np.flatnonzero(cond) (numpy documents where(cond) as asarray(cond).nonzero();
    flatnonzero is nonzero(ravel(cond))[0]) and the method cond.nonzero().  In the element-wise view of the engine the index set, the
    tuple that holds it and its single member are all the condition itself (symx.Mask), exactly as for np.where.  Private helpers
    entered from here are evaluated by the same class (the engine builds them with type(self))."""

    _POSITIONS = ("numpy.nonzero", "numpy.flatnonzero")

    def call(self, c, stmt_level=False):
        nm = call_name(c)
        if nm in ("nonzero", "flatnonzero") and not c.keywords:
            d = dotted_name(c.func)
            full = self.se.repo.resolve_name(self.mod, d) if d else ""
            if full in self._POSITIONS and len(c.args) == 1 and not isinstance(c.args[0], ast.Starred):
                m = self.ev(c.args[0])
                if isinstance(m, symx.Mask):
                    return m
                if m is True or m is False:
                    return symx.Mask(sp.true if m else sp.false)
                return symx.Opaque(full)            # (what the engine makes of a numpy routine it does not interpret)
            if nm == "nonzero" and not c.args and isinstance(c.func, ast.Attribute) and not full.startswith("numpy") \
                    and not any(isinstance(x, ast.Call) for x in ast.walk(c.func.value)):
                try:
                    m = self.ev(c.func.value)
                except symx.Unsupported:
                    m = None
                if isinstance(m, symx.Mask):
                    return m
        return super().call(c, stmt_level)


class _SymEval(symx.SymEval):
    """SymEval running on _Env (same entry protocol as symx.SymEval.run)"""

    def run(self, fi, args, flags=None, depth=0, pins=None):
        flags = dict(flags or {})
        env = _Env(self, fi, fi.module, dict(args), flags, depth=depth)
        env.pins = dict(pins or {})
        names = [p.lstrip("*") for p in fi.params]
        for p in fi.params:
            pn = p.lstrip("*")
            if pn not in env.vars:
                if pn in fi.defaults:
                    env.vars[pn] = env.ev(fi.defaults[pn])
                elif p.startswith("**"):
                    env.vars[pn] = {}
                elif p.startswith("*"):
                    env.vars[pn] = ()
        for k, v in flags.items():
            if k in names:
                env.vars[k] = v
        rets = env.exec_body(fi.node.body, sp.true)
        env.finish_returns(rets)
        self.last_env = env
        return env.result


def wmom(chk, repo):
    fi = repo.func(ST + "wmom")
    chk.analysed_unit(fi.qualname)
    x, w, m0 = symx.symbols("x", "w", "m0")
    pos = [p for p in fi.params if not p.startswith("*")]
    for im in (False, True):
        for calcerr in (False, True):
            for sdev in (False, True):
                se = _SymEval(repo, opaque_tests=False)
                se.assume = {"call:isscalar": True, "text:not np.isscalar(werr) and len(werr) < ndim": False}
                args = {pos[0]: x, pos[1]: w}
                if im:
                    args["inputmean"] = m0
                r = se.run(fi, args, {"calcerr": calcerr, "sdev": sdev})
                tag = "wmom[inputmean=%s,calcerr=%s,sdev=%s]" % ("given" if im else "None", calcerr, sdev)
                n = 3 if sdev else 2
                if not (isinstance(r, tuple) and len(r) == n):
                    chk.ob("R18.wmom", tag + "::arity", False, fi.where(), "expected %d results, got %r" % (n, r))
                    continue
                mean = m0 if im else SUM(w * x) / SUM(w)
                eq, d = symx.equal(r[0], mean)
                chk.ob("R18.wmom", tag + "::mean", eq, fi.where(), "mean is %s (found %s)" % ("the supplied mean" if im else "sum(w x)/sum(w)", r[0]))
                err = sp.sqrt(SUM(w ** 2 * (x - mean) ** 2)) / SUM(w) if calcerr else 1 / sp.sqrt(SUM(w))
                eq, d = symx.equal(r[1], err)
                if not eq and isinstance(r[1], sp.Basic):
                    eq, d = symx.equal(_drop_replication(r[1]), err)
                chk.ob("R18.wmom", tag + "::error", eq, fi.where(), "error estimate is %s (found %s)" % ("sqrt(sum w^2 (x-m)^2)/sum w" if calcerr else "1/sqrt(sum w)", r[1]))
                if sdev:
                    sd = sp.sqrt(SUM(w * (x - mean) ** 2) / SUM(w))
                    eq, d = symx.equal(r[2], sd)
                    chk.ob("R18.wmom", tag + "::deviation", eq, fi.where(), "weighted deviation is sqrt(sum w (x-m)^2 / sum w) (found %s)" % r[2])
    _wmom_layout_rules(chk, repo, fi)


def _drop_replication(t):
    """in the element-wise view a per-column statistic and `its element 0 repeated for every column` are the same term: AT(e, 0) is e,
    and a Piecewise whose branches then agree is that branch (whether the replication happens is the business of the guard rule)"""
    t = t.replace(lambda e: getattr(getattr(e, "func", None), "__name__", "") == "AT" and len(e.args) == 2 and e.args[1] == 0, lambda e: e.args[0])

    def fold(e):
        vals = [v for v, _ in e.args]
        return vals[0] if all(symx.equal(vals[0], v)[0] for v in vals[1:]) else e
    return t.replace(lambda e: isinstance(e, sp.Piecewise), fold)


# ---------------------------------------------------------------------------
# layout-independent AST rules: a rule looks at a public function together with the private helpers of the same module it calls
# (transitively); names are classified by the public parameter they derive from (their role), tests by what they say
# ---------------------------------------------------------------------------

class _Unit:
    """one function of a unit set: the function, the role of its names, and the facts that control the call site it was reached by"""

    def __init__(self, fi, roles, site_facts):
        self.fi = fi
        self.roles = roles
        self.site_facts = site_facts
        self.cfg = cfg_of(fi)
        self.view = self.cfg.view()


_SAME_ARRAY = {"atleast_1d", "asarray", "asanyarray", "array", "ascontiguousarray", "astype", "copy", "float64", "double", "ravel", "view"}


_THROUGH = "<through>"      # key of a roles table under which the resolver of pass-through helper calls is kept (not a name)


def _same_array(e, through=None):
    """the name an expression is a re-presentation of (same elements: converted, copied, given an extra axis), or None.
    through(call) gives, for a call of a private helper that returns a re-presentation of one of its arguments on every path,
    that argument expression (None otherwise)"""
    if isinstance(e, ast.Name):
        return e.id
    if isinstance(e, ast.Call) and call_name(e) in _SAME_ARRAY:
        if isinstance(e.func, ast.Attribute) and dotted_name(e.func.value) not in ("np", "numpy"):
            return _same_array(e.func.value, through)
        return _same_array(e.args[0], through) if e.args else None
    if isinstance(e, ast.Call) and through is not None:
        a = through(e)
        if a is not None:
            return _same_array(a, through)
    s = _column_axis_source(e)
    return s


def _role_of_expr(e, roles):
    s = _same_array(e, roles.get(_THROUGH))
    return roles.get(s) if s is not None else None


def _through_helpers(repo, fi):
    """resolver for _same_array: a call of a private same-module helper every return of which is a re-presentation of the same one
    parameter (np.atleast_1d(p).astype(...), possibly through locals and further such helpers) stands for the argument bound to it"""
    memo = {}

    def passed(h, depth):
        if h.qualname in memo:
            return memo[h.qualname]
        memo[h.qualname] = None         # (recursion guard)
        hp = [p for p in h.params if not p.startswith("*")]
        seed = {p: p for p in hp}
        if depth < 3:
            seed[_THROUGH] = lambda c, _h=h, _d=depth: resolve(_h, c, _d + 1)
        roles = _name_roles(h.node, seed)
        rets = [r for r in walk_no_nested(h.node) if isinstance(r, ast.Return)]
        got = {(_role_of_expr(r.value, roles) if r.value is not None else None) for r in rets}
        # the parameter must not be rebound on the way (its role is the seed: only locals get derived roles)
        rebound = {t.id for a in walk_no_nested(h.node) if isinstance(a, (ast.Assign, ast.AugAssign))
                   for t in ast.walk(a.targets[0] if isinstance(a, ast.Assign) else a.target) if isinstance(t, ast.Name)} & set(hp)
        p = got.pop() if len(got) == 1 else None
        memo[h.qualname] = p if (p in hp and p not in rebound and rets) else None
        return memo[h.qualname]

    def resolve(f, c, depth=0):
        h = _private_callee(repo, f, c)
        if h is None or any(isinstance(a, ast.Starred) for a in c.args) or any(k.arg is None for k in c.keywords):
            return None
        p = passed(h, depth)
        if p is None:
            return None
        hp = [q for q in h.params if not q.startswith("*")]
        k = hp.index(p)
        if k < len(c.args):
            return c.args[k]
        return kwarg(c, p)
    return lambda c: resolve(fi, c)


def _name_roles(fn, seed):
    """role of every local: a name bound to a re-presentation of an array (np.atleast_1d(x).astype(..), x[:, newaxis]) has the role of that array"""
    roles = dict(seed)
    for a in sorted([x for x in walk_no_nested(fn) if isinstance(x, ast.Assign)], key=lambda x: (x.lineno, x.col_offset)):
        r = _role_of_expr(a.value, roles)
        if r is None:
            continue
        for t in a.targets:
            if isinstance(t, ast.Name) and t.id not in seed:
                roles.setdefault(t.id, r)
    return roles


def _private_callee(repo, fi, c):
    if not isinstance(c.func, ast.Name):
        return None
    q = repo.resolve_name(fi.module, c.func.id)
    if repo.has(q) and repo.func(q).module is fi.module and repo.func(q).name.startswith("_"):
        return repo.func(q)
    return None


def _units(repo, fi, seed, depth=3):
    """fi and the private same-module helpers it calls, each with name roles and the facts controlling its call site"""
    seed = dict(seed)
    seed[_THROUGH] = _through_helpers(repo, fi)
    out = [_Unit(fi, _name_roles(fi.node, seed), [])]
    seen = {fi.qualname}
    todo = [(out[0], 0)]
    while todo:
        u, d = todo.pop(0)
        if d >= depth:
            continue
        for n in u.cfg.nodes:
            for c in rules.stmts_calls(n):
                h = _private_callee(repo, u.fi, c)
                if h is None or h.qualname in seen:
                    continue
                seen.add(h.qualname)
                hp = [p for p in h.params if not p.startswith("*")]
                hseed = {_THROUGH: seed[_THROUGH]}
                for p, a in list(zip(hp, c.args)) + [(k.arg, k.value) for k in c.keywords if k.arg]:
                    r = _role_of_expr(a, u.roles)
                    if r is not None:
                        hseed[p] = r
                # results unpacked at the call site keep the role the helper gives them
                hu = _Unit(h, _name_roles(h.node, hseed), _node_facts(u, n))
                if isinstance(n.ast, ast.Assign) and n.ast.value is c and isinstance(n.ast.targets[0], ast.Tuple):
                    for rn in rules.return_nodes(hu.cfg):
                        rv = rn.ast.value
                        if isinstance(rv, ast.Tuple) and len(rv.elts) == len(n.ast.targets[0].elts):
                            for t, e in zip(n.ast.targets[0].elts, rv.elts):
                                r = _role_of_expr(e, hu.roles)
                                if isinstance(t, ast.Name) and r is not None:
                                    u.roles.setdefault(t.id, r)
                out.append(hu)
                todo.append((hu, d + 1))
    return out


def _split(test, truth):
    """atomic (test, truth) facts implied by `test` having the given truth value"""
    if isinstance(test, ast.UnaryOp) and isinstance(test.op, ast.Not):
        return _split(test.operand, not truth)
    if isinstance(test, ast.BoolOp) and ((isinstance(test.op, ast.And) and truth) or (isinstance(test.op, ast.Or) and not truth)):
        return [f for v in test.values for f in _split(v, truth)]
    return [(test, truth)]


_CMP = {ast.Lt: lambda a, b: a < b, ast.LtE: lambda a, b: a <= b, ast.Gt: lambda a, b: a > b, ast.GtE: lambda a, b: a >= b,
        ast.Eq: lambda a, b: a == b, ast.NotEq: lambda a, b: a != b}
_FLIP = {ast.Lt: ast.Gt, ast.LtE: ast.GtE, ast.Gt: ast.Lt, ast.GtE: ast.LtE, ast.Eq: ast.Eq, ast.NotEq: ast.NotEq}


def _ndim_of(e):
    """name whose number of dimensions the expression is: len(A.shape), A.ndim, np.ndim(A)"""
    if isinstance(e, ast.Call) and call_name(e) == "len" and len(e.args) == 1 and isinstance(e.args[0], ast.Attribute) and e.args[0].attr == "shape" \
            and isinstance(e.args[0].value, ast.Name):
        return e.args[0].value.id
    if isinstance(e, ast.Attribute) and e.attr == "ndim" and isinstance(e.value, ast.Name):
        return e.value.id
    if isinstance(e, ast.Call) and call_name(e) == "ndim" and len(e.args) == 1 and isinstance(e.args[0], ast.Name):
        return e.args[0].id
    return None


def _len_of(e):
    """name whose number of entries (first axis) the expression is: len(T), T.size, T.shape[0]"""
    if isinstance(e, ast.Call) and call_name(e) == "len" and len(e.args) == 1 and isinstance(e.args[0], ast.Name):
        return e.args[0].id
    if isinstance(e, ast.Attribute) and e.attr == "size" and isinstance(e.value, ast.Name):
        return e.value.id
    if isinstance(e, ast.Subscript) and norm(e.slice) == "0" and isinstance(e.value, ast.Attribute) and e.value.attr == "shape" and isinstance(e.value.value, ast.Name):
        return e.value.value.id
    return None


def _fact(test, truth, roles):
    """classify one atomic fact: ('dim', role-or-name, '1d'|'nd'), ('shapes-differ', {roles}), ('shorter', name), or ('other', text)"""
    if isinstance(test, ast.Compare) and len(test.ops) == 1 and type(test.ops[0]) in _CMP:
        l, r, op = test.left, test.comparators[0], type(test.ops[0])
        if _ndim_of(l) is None and _ndim_of(r) is not None:
            l, r, op = r, l, _FLIP[op]
        a = _ndim_of(l)
        if a is not None and isinstance(r, ast.Constant) and isinstance(r.value, int):
            # arrays here have passed atleast_1d: 1, 2, 3 stand for "1-d", "N-by-d" and "more"
            allowed = {d for d in (1, 2, 3) if _CMP[op](d, r.value) == truth}
            who = roles.get(a, a)
            if allowed == {1}:
                return ("dim", who, "1d")
            if allowed in ({2, 3}, {2}):
                return ("dim", who, "nd")
        if op in (ast.Eq, ast.NotEq) and all(isinstance(x, ast.Attribute) and x.attr == "shape" and isinstance(x.value, ast.Name) for x in (l, r)):
            differ = (op is ast.NotEq) == truth
            return ("shapes-differ" if differ else "shapes-equal", frozenset(roles.get(x.value.id, x.value.id) for x in (l, r)))
        if _len_of(l) is None and _len_of(r) is not None:
            l, r, op = r, l, _FLIP[op]
        t = _len_of(l)
        if t is not None and _len_of(r) is None:
            # len(T) < X, len(T) != X (true) / len(T) >= X, len(T) == X (false): T has fewer entries than X
            if (op in (ast.Lt, ast.NotEq) and truth) or (op in (ast.GtE, ast.Eq) and not truth):
                return ("shorter", t)
    return ("other", ("" if truth else "not ") + norm(test))


def _node_facts(u, n):
    """classified facts that hold whenever CFG node n of unit u executes (tests of the controlling branches, with their outcome,
    plus the facts of the call site through which the unit was reached)"""
    out = list(u.site_facts)
    for b, lab in u.view.controlling_branches(n):
        if b.kind == "branch" or (b.kind == "loop" and isinstance(b.ast, ast.While)):
            if lab in ("T", "F"):
                for t, tr in _split(b.ast.test, lab == "T"):
                    out.append(_fact(t, tr, u.roles))
    return out


def _column_axis_source(v):
    """S when the expression gives the 1-d array S a trailing axis of length one: S[:, newaxis], S[:, None], S.reshape(-1, 1),
    np.expand_dims(S, 1), np.reshape(S, (-1, 1))"""
    if isinstance(v, ast.Subscript) and isinstance(v.value, ast.Name) and isinstance(v.slice, ast.Tuple) and len(v.slice.elts) == 2:
        a, b = v.slice.elts
        full = (isinstance(a, ast.Slice) and a.lower is None and a.upper is None and a.step is None) or (isinstance(a, ast.Constant) and a.value is Ellipsis)
        newax = (isinstance(b, ast.Constant) and b.value is None) or (dotted_name(b) or "").split(".")[-1] == "newaxis"
        if full and newax:
            return v.value.id
    if isinstance(v, ast.Call) and call_name(v) == "reshape":
        if isinstance(v.func, ast.Attribute) and isinstance(v.func.value, ast.Name) and dotted_name(v.func.value) not in ("np", "numpy"):
            src, shp = v.func.value.id, v.args
        else:
            src, shp = (v.args[0].id if v.args and isinstance(v.args[0], ast.Name) else None), v.args[1:]
        if len(shp) == 1 and isinstance(shp[0], (ast.Tuple, ast.List)):
            shp = shp[0].elts
        if src and [norm(x) for x in shp] == ["-1", "1"]:
            return src
    if isinstance(v, ast.Call) and call_name(v) == "expand_dims" and v.args and isinstance(v.args[0], ast.Name):
        ax = v.args[1] if len(v.args) > 1 else kwarg(v, "axis")
        if ax is not None and norm(ax) in ("1", "-1"):
            return v.args[0].id
    return None


def _sum_axis(c):
    """axis argument of X.sum(...) / np.sum(X, ...)"""
    ax = kwarg(c, "axis")
    if ax is None:
        method = isinstance(c.func, ast.Attribute) and dotted_name(c.func.value) not in ("np", "numpy")
        pos = c.args if method else c.args[1:]
        ax = pos[0] if pos else None
    return ax


def _wmom_layout_rules(chk, repo, fi):
    pos = [p for p in fi.params if not p.startswith("*")]
    units = _units(repo, fi, {pos[0]: "data", pos[1]: "weights"})
    for u in units:
        if u.fi is not fi:
            chk.analysed_unit(u.fi.qualname)
    # replication of element 0 of a statistic (used when 1-d weights give one error for d columns) must be guarded by a length test:
    # unguarded, per-column values are overwritten by column 0's
    for u in units:
        for n in u.cfg.nodes:
            a = n.ast
            if not (n.kind == "stmt" and isinstance(a, ast.Assign) and len(a.targets) == 1 and isinstance(a.targets[0], ast.Name)):
                continue
            srcs = {x.value.id for x in ast.walk(a.value) if isinstance(x, ast.Subscript) and isinstance(x.value, ast.Name) and norm(x.slice) == "0"
                    and u.roles.get(x.value.id) not in ("data", "weights") and isinstance(x.ctx, ast.Load)}
            for t in sorted(srcs):
                if _column_axis_source(a.value) is not None:
                    continue
                facts = _node_facts(u, n)
                okg = ("shorter", t) in facts
                if not okg and any(f[0] == "other" and any(x in f[1] for x in ("len(%s)" % t, "%s.size" % t, "%s.shape" % t)) for f in facts):
                    okg = None          # guarded by a test on the length of t that this rule does not read
                chk.ob("R18.wmom", "wmom::replication-of-%s[0]-guarded-by-length" % t, okg, u.fi.where(a),
                       "`%s` is rebuilt from its own element 0 only when it has fewer entries than there are columns (guards: %s)"
                       % (t, [f[1] if f[0] == "other" else f for f in facts]))
    # reductions run over axis 0 (N-by-d inputs) and 1-d weights are broadcast over columns
    sums = [(u, c) for u in units for c in walk_no_nested(u.fi.node) if isinstance(c, ast.Call) and call_name(c) == "sum"]
    bad = [(u, c) for u, c in sums if _sum_axis(c) is None or norm(_sum_axis(c)) != "0"]
    chk.ob("R18.wmom", "wmom::sums-over-axis-0", (not bad) if sums else None, bad[0][0].fi.where(bad[0][1]) if bad else fi.where(),
           "every sum runs over axis 0 (rows), so N-by-d inputs give one value per column (%d sums%s)"
           % (len(sums), "; not over axis 0: `%s`" % norm(bad[0][1]) if bad else ""))
    # the statement that gives weights a column axis, and what controls it
    bc = []
    for u in units:
        for n in u.cfg.nodes:
            if n.kind == "stmt" and isinstance(n.ast, ast.Assign):
                s = _column_axis_source(n.ast.value)
                if s is not None and u.roles.get(s) == "weights":
                    bc.append((u, n))
    ok, why = None, "no statement that gives the weights a column axis was found"
    if bc:
        verdicts = []
        for u, n in bc:
            facts = _node_facts(u, n)
            dims = {f[1:] for f in facts if f[0] == "dim"}
            other = [f for f in facts if f[0] != "dim"]
            if ("data", "1d") in dims or ("weights", "nd") in dims:
                verdicts.append(False)
            elif {("data", "nd"), ("weights", "1d")} <= dims:
                verdicts.append(True)
            elif other:
                verdicts.append(None)       # controlled by a test this rule cannot read
            else:
                verdicts.append(False)      # every controlling test was read and one of the two conditions is missing
            why = "controlled by %s" % sorted(map(str, facts))
        ok = False if False in verdicts else (None if None in verdicts else True)
    chk.ob("R18.wmom", "wmom::1d-weights-broadcast-for-Nd", ok, bc[0][0].fi.where(bc[0][1].ast) if bc else fi.where(),
           "1-d weights are given a column axis only for N-by-d data (%s)" % why)
    raises = [(u, n, _node_facts(u, n)) for u in units for n in rules.raise_nodes(u.cfg)]
    want = ("shapes-differ", frozenset(("data", "weights")))
    hit = [x for x in raises if want in x[2] and ("dim", "data", "nd") not in x[2]]
    unread = [x for x in raises if any(f[0] == "other" for f in x[2])]
    okr = True if hit else (None if unread else False)
    chk.ob("R18.wmom", "wmom::shape-mismatch-rejected", okr, (hit[0][0].fi.where(hit[0][1].ast) if hit else fi.where()),
           "1-d data with weights of another shape are rejected")


def _clamp_classes(r, x, u):
    """classify every index expression e of a term AT(x, e) / AT(v, e) in r as a function of the two integers it can depend on
    (s = searchsorted(x, u) in 0..n, n = size(x) >= 2) by complete enumeration over n = 2..8: returns {e: 'k' | 'k+1' | 'other' | None}
    where k = clamp(s - 1, 0, n - 2) and None means e is not such an integer function.  This decides equality of the integer clamp
    however it is spelled (masked stores, np.minimum/np.maximum, np.clip, np.where); the remaining formula is compared algebraically."""
    SS, SIZE, AT = sp.Function("SEARCHSORTED"), sp.Function("SIZE"), sp.Function("AT")
    s_, n_ = sp.Symbol("s_", integer=True), sp.Symbol("n_", integer=True)
    out = {}
    for a in r.atoms(AT):
        if len(a.args) != 2:
            continue
        e = a.args[1]
        if e in out:
            continue
        f = e.xreplace({SS(x, u): s_, SIZE(x): n_})
        CL = sp.Function("CLIP")
        f = f.replace(CL, lambda v_, lo, hi: sp.Min(sp.Max(v_, lo), hi))
        if f.free_symbols - {s_, n_} or f.atoms(sp.core.function.AppliedUndef) or s_ not in f.free_symbols:
            out[e] = None           # not a function of the search result (a fixed position of some other formulation): not classified
            continue
        cls = {"k": True, "k+1": True}
        miss = {"k": set(), "k+1": set()}       # where (below the table / inside / above) the expression differs from k, from k+1
        bad = False
        for n in range(2, 9):
            for sv in range(0, n + 1):
                try:
                    val = f.subs({s_: sv, n_: n})
                    val = int(val) if val.is_Integer else None
                except Exception:
                    val = None
                if val is None:
                    bad = True
                    break
                k = min(max(sv - 1, 0), n - 2)
                zone = "below" if sv == 0 else ("above" if sv == n else "inside")
                if val != k:
                    cls["k"] = False
                    miss["k"].add(zone)
                if val != k + 1:
                    cls["k+1"] = False
                    miss["k+1"].add(zone)
            if bad:
                break
        if bad:
            out[e] = None
        else:
            # described against the nearer of the two roles (segment start k / segment end k+1)
            ref = "k" if len(miss["k"]) <= len(miss["k+1"]) else "k+1"
            txt = {"below": "query points below the first table point", "inside": "query points inside the table", "above": "query points above the last table point"}
            desc = "differs from the segment %s index %s = clamp(searchsorted-1, 0, n-2)%s for %s" % (
                "start" if ref == "k" else "end", ref, "" if ref == "k" else "+1", ", ".join(txt[z] for z in ("below", "inside", "above") if z in miss[ref]))
            out[e] = "k" if cls["k"] else ("k+1" if cls["k+1"] else ("other", "below" not in miss["k"], "above" not in miss["k"], desc))
    return out


def _search_in_part(r, x):
    """searchsorted over a contiguous part x[a:b] of the table (a >= 0 written, b written from the end or absent, a - b <= 2 so that
    the part is not longer than a table of two points allows) is the number of elements of the part that lie below the query point.
    searchsorted's own precondition is an ascending table, so the elements below the query point are a leading run of the table and
    the number for the part is the number for the whole table less a, held to [0, len(x[a:b])]:
        SEARCHSORTED(x[a:b], u) = CLIP(SEARCHSORTED(x, u) - a, 0, n + b - a)
    (searching the interior nodes x[1:-1] gives clamp(searchsorted(x, u) - 1, 0, n - 2) directly).  The rewritten term is then judged
    by the complete enumeration of _clamp_classes like any other spelling of the clamp."""
    SS, SIZE_, CLIP_ = sp.Function("SEARCHSORTED"), sp.Function("SIZE"), sp.Function("CLIP")
    none = sp.Symbol("None")

    def fold(e):
        tab, q = e.args
        if not (_head(tab) == "SLICE" and len(tab.args) == 4 and tab.args[0] == x and tab.args[3] == none):
            return None
        a, b = tab.args[1], tab.args[2]
        a = sp.Integer(0) if a == none else a
        b = sp.Integer(0) if b == none else (b if (b.is_Integer and b < 0) else None)      # (a written stop of 0 is an empty part)
        if b is None or not (a.is_Integer and a >= 0 and a - b <= 2):
            return None
        return CLIP_(SS(x, q) - a, 0, SIZE_(x) + b - a)
    return r.replace(lambda e: _head(e) == "SEARCHSORTED" and len(e.args) == 2 and fold(e) is not None, fold)


def _index_values(e, x, u):
    """the integer values an index expression takes as a function of s = searchsorted(x, u) in 0..n and n = size(x), for every
    n = 2..8: {(n, s): value}; None when e is not such an integer function (same enumeration as _clamp_classes)"""
    SS, SIZE_, CL = sp.Function("SEARCHSORTED"), sp.Function("SIZE"), sp.Function("CLIP")
    s_, n_ = sp.Symbol("s_", integer=True), sp.Symbol("n_", integer=True)
    f = e.xreplace({SS(x, u): s_, SIZE_(x): n_})
    f = f.replace(CL, lambda v_, lo, hi: sp.Min(sp.Max(v_, lo), hi))
    if f.free_symbols - {s_, n_} or f.atoms(sp.core.function.AppliedUndef):
        return None
    out = {}
    for n in range(2, 9):
        for sv in range(0, n + 1):
            try:
                val = f.subs({s_: sv, n_: n})
            except Exception:
                return None
            if not getattr(val, "is_Integer", False):
                return None
            out[(n, sv)] = int(val)
    return out


def _elementwise_lookups(r, x, u, tables):
    """look-ups in per-segment tables computed once for the whole table are look-ups in the table itself:
        (A op B)[e]   is  A[e] op B[e]      for element-wise arithmetic of arrays of one common length (scalars broadcast)
        T[a:b][e]     is  T[e + a]          when 0 <= e < len(T[a:b]) = n + b - a  (a >= 0 written or absent, b < 0 written or absent,
                                            no step; T one of the tables, all of which have the n entries of the abscissae)
    so dx = x[1:] - x[:-1]; dx[k] is x[k+1] - x[k].  That e lies inside the part is decided for every value the index can take (the
    complete enumeration of _index_values: a negative e would count from the end of the part, which is a different element of T).
    A look-up this does not read is left as it is (and the formula rule then gives no verdict: SLICE is not in its vocabulary)."""
    AT = sp.Function("AT")
    none = sp.Symbol("None")

    def part(t):
        """(table, a, b) for T[a:b] / T itself, else None"""
        if t in tables:
            return t, 0, 0
        if _head(t) == "SLICE" and len(t.args) == 4 and t.args[0] in tables and t.args[3] == none:
            a, b = t.args[1], t.args[2]
            a = sp.Integer(0) if a == none else a
            b = sp.Integer(0) if b == none else b
            if a.is_Integer and a >= 0 and b.is_Integer and b <= 0 and (b < 0 or t.args[2] == none):
                return t.args[0], int(a), int(b)
        return None

    def leaves(t, out):
        """the array operands of an element-wise arithmetic expression (False when something else occurs in it)"""
        if t.is_number:
            return True
        if part(t) is not None:
            out.append(t)
            return True
        if isinstance(t, (sp.Add, sp.Mul)) or (isinstance(t, sp.Pow) and t.args[1].is_number):
            return all(leaves(a, out) for a in (t.args if not isinstance(t, sp.Pow) else t.args[:1]))
        return False

    def fold(e):
        arr, idx = e.args
        ops = []
        if arr in tables or not leaves(arr, ops) or not ops:
            return None
        lens = {b - a for _, a, b in map(part, ops)}
        if len(lens) != 1:
            return None             # operands of different lengths: numpy raises or broadcasts, not read
        vals = _index_values(idx, x, u)
        if vals is None:
            return None
        off = lens.pop()
        if not all(0 <= v < n + off for (n, _), v in vals.items()):
            return None
        return arr.xreplace({t: AT(part(t)[0], idx + part(t)[1]) for t in ops})
    for _ in range(3):
        r2 = r.replace(lambda e: _head(e) == "AT" and len(e.args) == 2 and fold(e) is not None, fold)
        if r2 == r:
            break
        r = r2
    return r


def interplin(chk, repo):
    fi = repo.func(ST + "interplin")
    chk.analysed_unit(fi.qualname)
    v, x, u = symx.symbols("v", "x", "u")
    se = _SymEval(repo, opaque_tests=False)
    pos = [p for p in fi.params if not p.startswith("*")]
    r = se.run(fi, dict(zip(pos, (v, x, u))), {})
    AT = sp.Function("AT")
    K = sp.Symbol("K", integer=True)
    ref = (u - AT(x, K)) * (AT(v, K + 1) - AT(v, K)) / (AT(x, K + 1) - AT(x, K)) + AT(v, K)
    what = "result is (u-x_k)(v_{k+1}-v_k)/(x_{k+1}-x_k)+v_k with k = clamp(searchsorted(x,u)-1, 0, n-2)"
    if not isinstance(r, sp.Basic):
        chk.ob("R18.interp", "interplin::formula", None, fi.where(), what + " (the returned value was not reduced to a term: %r)" % (r,))
        return
    r = _search_in_part(r, x)
    r = _elementwise_lookups(r, x, u, (x, v))
    cls = _clamp_classes(r, x, u)
    rk = r.xreplace({e: (K if c == "k" else K + 1) for e, c in cls.items() if c in ("k", "k+1")})
    eq, d = symx.equal(rk, ref)
    unknown = [e for e, c in cls.items() if c is None]
    # a contradiction is only read off a term made of the table look-ups, the search, the size and the clamp primitives: a result that
    # goes through anything else (another library routine, an uninterpreted helper) is not recognised
    foreign = sorted({_head(a) for a in r.atoms(sp.core.function.AppliedUndef)} - {"AT", "SEARCHSORTED", "SIZE", "CLIP"})
    foreign += sorted(str(s_) for s_ in r.free_symbols - {v, x, u})
    chk.ob("R18.interp", "interplin::formula", (None if (not eq and (unknown or foreign)) else eq), fi.where(),
           what + ("" if eq else " (found %s)" % str(r)[:300]) + ("" if eq or not foreign else " [not interpreted: %s]" % ", ".join(foreign)[:120]))
    # both clamps present (two-sided): upper to n-2, lower to 0
    others = [(e, c) for e, c in cls.items() if isinstance(c, tuple)]
    if any(c == "k" for c in cls.values()) and not others:
        ok2 = True
    elif others:
        ok2 = False
    else:
        ok2 = None
    side = "; ".join("`%s` %s" % (str(e)[:80], c[3]) for e, c in others)
    chk.ob("R18.interp", "interplin::two-sided-index-clamp", ok2, fi.where(),
           "the segment index is clamped to [0, n-2] on both sides (straight-line extension beyond either end)%s" % (": " + side if side else ""))
    # every input passes atleast_1d (or an equivalent array conversion) before it is used
    conv = {}
    for a in walk_no_nested(fi.node):
        if isinstance(a, ast.Assign) and isinstance(a.value, ast.Call) and call_name(a.value) in ("atleast_1d", "asarray", "array", "asanyarray") and a.value.args:
            src = _same_array(a.value.args[0])
            if src in pos:
                conv[src] = call_name(a.value)
    chk.ob("R18.interp", "interplin::inputs-normalised", all(conv.get(p) == "atleast_1d" for p in pos), fi.where(),
           "all three inputs pass atleast_1d (scalars accepted) (%s)" % conv)
    _interp_value_rules(chk, repo, fi, pos)


_FLOAT64_NAMES = {"f8", "float64", "float", "np.float64", "numpy.float64", "d", "np.double", "numpy.double", "np.float_", "<f8", "=f8", "double",
                  "np.longdouble", "longdouble", "np.float128", "float128", "g"}
_NARROW_NAMES = {"int", "i8", "i4", "i2", "i1", "u8", "u4", "u2", "u1", "int64", "int32", "int16", "int8", "uint64", "uint32", "uint16", "uint8", "intp", "int_",
                 "uint", "l", "q", "i", "bool", "bool_", "?", "b1", "<i8", "<i4", "=i8", "=i4", "long", "longlong", "intc", "integer"}
_CONVERT = {"astype": 0, "view": 0, "asarray": 1, "asanyarray": 1, "array": 1, "ascontiguousarray": 1, "asfortranarray": 1, "require": 1, "fromiter": 1}
_ROUNDING = {"floor", "ceil", "rint", "trunc", "round", "round_", "around", "fix", "int", "int64", "int32", "int16", "int8", "intp", "int_", "uint64", "uint32"}


def _dtype_verdict(dt, role, roles):
    """does a conversion of the input `role` to the dtype expression dt keep every value: True / False (with a reason) / None (not read)"""
    txt = norm(dt).strip("'\"")
    short = txt.split(".")[-1] if txt.startswith(("np.", "numpy.")) else txt
    if txt in _FLOAT64_NAMES or short in _FLOAT64_NAMES:
        return True, "float64"
    if short == "ndarray":
        return True, "a plain ndarray view"
    if short in _NARROW_NAMES:
        return False, "the integer type `%s` truncates real values" % txt
    if isinstance(dt, ast.Attribute) and dt.attr == "dtype":
        other = _role_of_expr(dt.value, roles)
        if other is not None:
            if other == role:
                return True, "its own dtype"
            return False, "the dtype of the %s (an integer-typed %s truncates the %s)" % (other, other, role)
        return None, txt
    if isinstance(dt, ast.Call) and call_name(dt) in ("result_type", "promote_types", "common_type", "find_common_type"):
        members = [_role_of_expr(a.value if isinstance(a, ast.Attribute) and a.attr == "dtype" else a, roles) for a in dt.args]
        if role in members or call_name(dt) == "common_type":
            return True, "a common type that includes its own"
        return None, txt
    return None, txt


def _interp_value_rules(chk, repo, fi, pos):
    """the values that are located in the table, and the table itself, are the caller's values: between a public parameter and its uses
    no conversion narrows them (to an integer type, or to the dtype of ANOTHER input, which for an integer-typed table truncates the
    query points so that the wrong segment is chosen and the value is taken off the neighbouring line).  Found by data flow from the
    parameters through array re-presentations (atleast_1d, asarray, astype, copy ...), in the routine and the private helpers it calls."""
    names = dict(zip(pos, ("tabulated values", "table abscissae", "query points")))
    units = _units(repo, fi, names)
    seen = []
    for un in units:
        for c in walk_no_nested(un.fi.node):
            if not isinstance(c, ast.Call):
                continue
            nm = call_name(c)
            method = isinstance(c.func, ast.Attribute) and dotted_name(c.func.value) not in ("np", "numpy")
            src = c.func.value if method else (c.args[0] if c.args else None)
            if src is None or (nm not in _CONVERT and nm not in _ROUNDING):
                continue
            role = _role_of_expr(src, un.roles)
            if role is None:
                continue
            if nm in _ROUNDING:
                if method and nm not in ("round",):
                    continue
                seen.append((False, un.fi.where(c), "`%s` rounds the %s" % (norm(c)[:80], role)))
                continue
            dt = kwarg(c, "dtype")
            if dt is None:
                if (_CONVERT[nm] == 0) != method:
                    continue                # np.astype(x, t) / x.asarray(t): not the numpy spellings this table lists
                k = _CONVERT[nm]            # position of the target type among the written arguments
                dt = c.args[k] if len(c.args) > k else None
            if dt is None:
                continue
            ok, why = _dtype_verdict(dt, role, un.roles)
            seen.append((ok, un.fi.where(c), "`%s` converts the %s to %s" % (norm(c)[:80], role, why)))
    bad = [x for x in seen if x[0] is False]
    unread = [x for x in seen if x[0] is None]
    first = (bad or unread or [(True, fi.where(), "")])[0]
    chk.ob("R18.interp", "interplin::inputs-keep-their-values", False if bad else (None if unread else True), first[1],
           "no input is narrowed on its way to the search and the formula (never cast to an integer type or to another input's dtype): %d conversions with a "
           "target type%s" % (len(seen), "".join("; " + x[2] for x in (bad + unread)[:3])))


class _NoRec(Exception):
    """the construct is written in a way this checker does not read: no verdict"""


class _ForkNeeded(_NoRec):
    """a private helper entered from an expression branches on a test the state does not decide: the statement that called it is
    run again under each outcome of the test (see _PX.simple / _PX.decide)"""

    def __init__(self, t):
        _NoRec.__init__(self, "the helper branches on a test the state does not decide: %s" % str(t)[:120])
        self.t = t


class _Arr:
    """an array known element by element: rank and a function from index terms to the element term.  origin: 'param' (the caller's
    array or a view of it), 'alloc' (np.zeros and friends; `call` is the allocating call), 'copy' (a copy of / conversion from another
    array, `call`), 'expr' (the value of an arithmetic expression)"""

    def __init__(self, rank, fn, origin="expr", call=None):
        self.rank = rank
        self.fn = fn
        self.origin = origin
        self.call = call
        self.stores = []


class _ListAcc:
    """a list that starts empty and is filled by one unconditional `append` per pass of one loop over the full extent: after that loop it
    is the vector whose element k is the value appended in pass k.  Anything else done with it is not read."""

    def __init__(self):
        self.pending = None         # (loop index, appended term) while the filling loop runs


class _MatEval:
    """index-aware evaluation of the small matrix routines: a loop `for k in range(<full extent>)` binds k to a universally
    quantified index; `out[k1, k2] = v` inside such loops and the broadcast store `out[:, :] = V` both define element (i, j) of out.
    Square N-by-N matrices and length-N vectors: every extent (M.shape[0], M.shape[1], len(M), E.size, np.diagonal(M).size) is N."""

    ELEMWISE = {"sqrt": sp.sqrt, "abs": sp.Abs, "absolute": sp.Abs, "fabs": sp.Abs, "sign": sp.sign}
    SAME = {"asarray", "asanyarray", "ascontiguousarray", "atleast_1d", "atleast_2d"}
    COPY = {"array", "copy", "astype", "float64", "double"}
    ALLOC = {"zeros", "empty", "ones", "full", "zeros_like", "empty_like", "ones_like", "full_like"}

    def __init__(self, repo, fi, params):
        self.repo, self.fi = repo, fi
        self.N = sp.Symbol("N", integer=True, positive=True)
        self.AT = sp.Function("AT")
        self.env = {}
        self.psym = {}
        for name, (rank, sym) in params.items():
            self.psym[name] = sym
            self.env[name] = _Arr(rank, (lambda S: (lambda *ix: self.AT(S, *ix)))(sym), "param")
        self.loopinfo = {}      # index symbol -> (full?, text of the iterable)
        self.rejects = []       # (kind, op, lhs term, rhs term, loops) for `if <test>: raise`; kind 'read' / 'unread'
        self.unfollowed = []
        self.ret = []
        self.nidx = 0
        self.closed = set()     # loop indices whose loop has finished
        self.run(fi.node.body, [], False)

    # -- statements
    def fresh(self, full, text):
        self.nidx += 1
        k = sp.Symbol("k%d" % self.nidx, integer=True)
        self.loopinfo[k] = (full, text)
        return k

    def run(self, stmts, loops, conditional):
        for st in stmts:
            if isinstance(st, ast.Expr) or isinstance(st, (ast.Pass, ast.Import, ast.ImportFrom, ast.Assert, ast.Raise)):
                if isinstance(st, ast.Expr) and isinstance(st.value, ast.Call) and _private_callee(self.repo, self.fi, st.value) is not None:
                    self.unfollowed.append(norm(st.value.func))     # a helper called for its effect (it may validate and raise)
                c = st.value if isinstance(st, ast.Expr) else None
                if isinstance(c, ast.Call) and isinstance(c.func, ast.Attribute) and isinstance(c.func.value, ast.Name) \
                        and c.func.attr in ("append", "extend", "insert", "pop", "remove", "clear", "sort", "reverse") \
                        and isinstance(self.env.get(c.func.value.id), (_ListAcc, _Arr, tuple)):
                    acc = self.env[c.func.value.id]
                    v = self.ev(c.args[0]) if (c.func.attr == "append" and len(c.args) == 1 and not c.keywords) else None
                    if not (isinstance(acc, _ListAcc) and acc.pending is None and isinstance(v, sp.Basic) and not conditional
                            and len(loops) == 1 and self.loopinfo[loops[0]][0]):
                        raise _NoRec("list operation `%s`" % norm(c)[:60])
                    acc.pending = (loops[0], v)
                elif isinstance(c, ast.Call):
                    self.effect_call(c, loops, conditional)
                continue
            if isinstance(st, ast.Assign) and len(st.targets) == 1:
                t = st.targets[0]
                if isinstance(t, ast.Name) and ((isinstance(st.value, ast.List) and not st.value.elts) or
                                                (isinstance(st.value, ast.Call) and isinstance(st.value.func, ast.Name) and st.value.func.id == "list"
                                                 and not st.value.args and not st.value.keywords and "list" not in self.env)):
                    if loops or conditional:
                        raise _NoRec("list started inside a loop or branch `%s`" % norm(st)[:60])
                    self.env[t.id] = _ListAcc()
                elif isinstance(t, ast.Name):
                    self.env[t.id] = self.ev(st.value)
                elif isinstance(t, ast.Subscript) and isinstance(t.value, ast.Name) and isinstance(self.env.get(t.value.id), _Arr):
                    base = self.env[t.value.id]
                    base.stores.append((self.ev_index(t.slice), self.ev(st.value), list(loops), conditional, st))
                elif isinstance(t, ast.Tuple) and all(isinstance(x, ast.Name) for x in t.elts):
                    v = self.ev(st.value)
                    if not isinstance(v, tuple) or len(v) != len(t.elts):
                        raise _NoRec("unpacking `%s`" % norm(st))
                    for x, y in zip(t.elts, v):
                        self.env[x.id] = y
                else:
                    raise _NoRec("assignment `%s`" % norm(st)[:60])
            elif isinstance(st, ast.AugAssign) and isinstance(st.target, ast.Name) and isinstance(self.env.get(st.target.id), _Arr):
                # `M op= v` on an array is done in M's own buffer: the buffer stays (origin, allocating call and with it the dtype;
                # the caller's matrix when M is the parameter or a re-presentation of it) and every name of that buffer sees the result
                cur = self.env[st.target.id]
                if loops or conditional:
                    raise _NoRec("in-place operator on an array inside a loop or branch `%s`" % norm(st)[:60])
                was = self.settled(cur)
                val = self.binop(st.op, _Arr(was.rank, was.fn, was.origin, was.call), self.ev(st.value))
                if not isinstance(val, _Arr) or val.rank != was.rank:
                    raise _NoRec("in-place operator `%s` (shape of the operand)" % norm(st)[:60])
                res = _Arr(was.rank, val.fn, cur.origin, cur.call)
                for k_, v_ in list(self.env.items()):
                    if v_ is cur:
                        self.env[k_] = res
            elif isinstance(st, ast.AugAssign) and isinstance(st.target, ast.Name):
                self.env[st.target.id] = self.binop(st.op, self.ev(ast.Name(id=st.target.id, ctx=ast.Load())), self.ev(st.value))
            elif isinstance(st, ast.AugAssign) and isinstance(st.target, ast.Subscript) and isinstance(st.target.value, ast.Name) \
                    and isinstance(self.env.get(st.target.value.id), _Arr):
                # `M[i, j] op= v` stores M[i, j] op v into M's buffer (the element read is the one the buffer held before the store)
                base = self.env[st.target.value.id]
                idx = self.ev_index(st.target.slice)
                val = self.binop(st.op, self.index(base, idx), self.ev(st.value))
                base.stores.append((idx, val, list(loops), conditional, st))
            elif isinstance(st, ast.For):
                it = st.iter
                if not (isinstance(it, ast.Call) and call_name(it) == "range" and isinstance(it.func, ast.Name)) and not st.orelse:
                    # a loop over the rows / entries of arrays (directly, zipped, enumerated): every extent is N, so pass k of the loop
                    # sees entry k of each of them and k runs over the full extent
                    k = self.fresh(True, norm(it))
                    self.bind(st.target, self.items(it, k), st)
                    self.run(st.body, loops + [k], conditional)
                    self.close_lists(k)
                    self.closed.add(k)
                    continue
                if not (isinstance(it, ast.Call) and call_name(it) == "range" and isinstance(st.target, ast.Name) and 1 <= len(it.args) <= 2 and not st.orelse):
                    raise _NoRec("loop over `%s`" % norm(it))
                lo = self.ev(it.args[0]) if len(it.args) == 2 else sp.Integer(0)
                hi = self.ev(it.args[-1])
                if not (isinstance(lo, sp.Basic) and isinstance(hi, sp.Basic)):
                    raise _NoRec("loop over `%s`" % norm(it))
                off = sp.expand(hi - self.N)
                if not (lo.is_Integer and off.is_Integer):
                    raise _NoRec("loop over `%s`" % norm(it))
                k = self.fresh(bool(lo == 0 and off == 0), norm(it))
                self.env[st.target.id] = k
                self.run(st.body, loops + [k], conditional)
                self.close_lists(k)
                self.closed.add(k)
            elif isinstance(st, ast.If):
                only_raise = all(isinstance(x, (ast.Raise, ast.Expr)) for x in st.body) and any(isinstance(x, ast.Raise) for x in st.body) and not st.orelse
                if only_raise:
                    self.reject(st.test, True, loops)
                else:
                    self.run(st.body, loops, True)
                    self.run(st.orelse, loops, True)
            elif isinstance(st, ast.Return):
                self.ret.append((self.ev(st.value) if st.value is not None else None, conditional, st))
            else:
                raise _NoRec("statement %s at line %s" % (type(st).__name__, st.lineno))

    QUIET = {"print", "debug", "info", "warning", "warn", "error", "log", "isinstance", "len", "repr", "str", "format", "write"}

    def effect_call(self, c, loops, conditional):
        """a call made for its effect: when one of the arrays this evaluation follows is handed to it (receiver, argument, out=) the
        call may rewrite that array.  The bounding calls with out=<array> are read as the assignment they are; any other such call is
        not read (no verdict) unless it is plainly a reporting call."""
        names = [a for a in list(c.args) + [k.value for k in c.keywords] if isinstance(a, ast.Name)]
        if isinstance(c.func, ast.Attribute) and isinstance(c.func.value, ast.Name):
            names.append(c.func.value)
        touched = [a.id for a in names if isinstance(self.env.get(a.id), _Arr)]
        outk = kwarg(c, "out")
        if not touched and outk is None:
            return
        if outk is None and call_name(c) in self.QUIET:
            return
        if isinstance(outk, ast.Name) and isinstance(self.env.get(outk.id), _Arr) and not loops and not conditional:
            tgt = self.settled(self.env[outk.id])
            c2 = ast.Call(func=c.func, args=list(c.args), keywords=[k for k in c.keywords if k.arg != "out"])
            ast.copy_location(c2, c)
            v = self.call(c2)
            if isinstance(v, _Arr) and v.rank == tgt.rank:
                self.env[outk.id] = _Arr(tgt.rank, v.fn, tgt.origin, tgt.call)
                return
        raise _NoRec("call `%s` (it may rewrite an array)" % norm(c)[:60])

    def element(self, out, tg):
        """element tg (one target symbol per axis) of an array defined by one unconditional store inside loops:
        (term, every index runs over the full extent, texts of the loop ranges)"""
        if len(out.stores) != 1:
            raise _NoRec("%d stores into the result" % len(out.stores))
        idx, val, loops, conditional, st = out.stores[0]
        if conditional:
            raise _NoRec("conditional store `%s`" % norm(st)[:60])
        if "rest" in idx or "new" in idx:
            raise _NoRec("store index `%s`" % norm(st)[:60])
        idx = idx + ["all"] * (out.rank - len(idx))
        if len(idx) != out.rank:
            raise _NoRec("store index `%s`" % norm(st)[:60])
        sub, free, full, texts = {}, [], True, []
        for x, tgt in zip(idx, tg):
            if x == "all":
                free.append(tgt)
            elif x in self.loopinfo and x in loops and x not in sub:
                sub[x] = tgt
                if not self.loopinfo[x][0]:
                    full = False
                texts.append(self.loopinfo[x][1])
            else:
                raise _NoRec("store index `%s`" % norm(st)[:60])
        if isinstance(val, _Arr):
            if val.rank > len(free):
                raise _NoRec("shape of the stored value in `%s`" % norm(st)[:60])
            term = val.fn(*free[len(free) - val.rank:])
        else:
            term = val
        if not isinstance(term, sp.Basic):
            raise _NoRec("stored value in `%s`" % norm(st)[:60])
        term = term.xreplace(sub)
        if any(k in term.free_symbols for k in self.loopinfo):
            raise _NoRec("the stored value depends on a loop index that does not address the element")
        return term, full, texts

    def settled(self, v):
        """an array that was filled by a store is read as a value: once the filling loops have finished, over the full extent, it is the
        array whose element is the stored term (it keeps its buffer: origin and allocating call).  Read earlier, or partly filled: not read."""
        if not isinstance(v, _Arr) or not v.stores:
            return v
        if any(k not in self.closed for st_ in v.stores for k in st_[2]):
            raise _NoRec("an array is read while the loop that fills it is still running")
        ps = [sp.Symbol("p%d_" % n, integer=True) for n in range(v.rank)]
        term, full, _ = self.element(v, ps)
        if not full:
            raise _NoRec("an array filled over part of its extent is read as a whole")
        return _Arr(v.rank, (lambda *ix, _t=term, _ps=ps: _t.xreplace(dict(zip(_ps, ix)))), v.origin, v.call)

    def close_lists(self, k):
        for name, acc in list(self.env.items()):
            if isinstance(acc, _ListAcc) and acc.pending is not None and acc.pending[0] == k:
                # the loop ran over the full extent and appended once per pass: element i is the term appended in pass i
                self.env[name] = _Arr(1, (lambda i, _v=acc.pending[1], _k=k: _v.xreplace({_k: i})), "expr")

    def items(self, it, k):
        """what pass k of a loop over `it` sees: entry k along the first axis of an array, a tuple of those for zip(...), (k, entry)
        for enumerate(...) counting from 0"""
        if isinstance(it, ast.Call) and isinstance(it.func, ast.Name) and it.func.id not in self.env:
            if it.func.id == "zip" and it.args and not it.keywords and not any(isinstance(a, ast.Starred) for a in it.args):
                return tuple(self.items(a, k) for a in it.args)
            if it.func.id == "enumerate" and len(it.args) == 1 and not isinstance(it.args[0], ast.Starred):
                start = kwarg(it, "start")
                if (start is None and not it.keywords) or (start is not None and len(it.keywords) == 1 and norm(start) == "0"):
                    return (k, self.items(it.args[0], k))
            raise _NoRec("loop over `%s`" % norm(it)[:60])
        v = self.ev(it)
        if isinstance(v, _Arr):
            return self.index(v, [k])
        raise _NoRec("loop over `%s`" % norm(it)[:60])

    def bind(self, t, v, st):
        if isinstance(t, ast.Name):
            self.env[t.id] = v
        elif isinstance(t, (ast.Tuple, ast.List)) and isinstance(v, tuple) and len(v) == len(t.elts) and not any(isinstance(x, ast.Starred) for x in t.elts):
            for x, y in zip(t.elts, v):
                self.bind(x, y, st)
        else:
            raise _NoRec("loop target `%s`" % norm(t)[:60])

    def reject(self, test, truth, loops):
        for t, tr in _split(test, truth):
            loops2 = list(loops)
            try:
                if isinstance(t, ast.Call) and call_name(t) in ("any", "all") and (t.args or isinstance(t.func, ast.Attribute)):
                    # any(c) holds / all(c) fails: some element satisfies c / not c
                    if (call_name(t) == "any") != tr:
                        raise _NoRec("test")
                    tr = call_name(t) == "any"
                    t = t.args[0] if t.args else t.func.value
                if not (isinstance(t, ast.Compare) and len(t.ops) == 1 and type(t.ops[0]) in _CMP):
                    raise _NoRec("test")
                l, r, op = self.ev(t.left), self.ev(t.comparators[0]), type(t.ops[0])
                out = []
                for v in (l, r):
                    if isinstance(v, _Arr):
                        ks = [self.fresh(True, "any()") for _ in range(v.rank)]
                        loops2 += ks
                        v = v.fn(*ks)
                    if not isinstance(v, sp.Basic):
                        raise _NoRec("operand")
                    out.append(v)
                if not tr:
                    op = {ast.Lt: ast.GtE, ast.LtE: ast.Gt, ast.Gt: ast.LtE, ast.GtE: ast.Lt, ast.Eq: ast.NotEq, ast.NotEq: ast.Eq}[op]
                self.rejects.append(("read", op, out[0], out[1], loops2, norm(t)))
            except _NoRec:
                self.rejects.append(("unread", None, None, None, loops2, norm(t)))

    # -- expressions
    def ev_index(self, s):
        elts = s.elts if isinstance(s, ast.Tuple) else [s]
        out = []
        for x in elts:
            if isinstance(x, ast.Slice):
                if x.lower is None and x.upper is None and x.step is None:
                    out.append("all")
                else:
                    raise _NoRec("partial slice `%s`" % norm(x))
            else:
                v = self.ev(x)
                if v is Ellipsis:
                    out.append("rest")
                elif v is None:
                    out.append("new")
                elif isinstance(v, sp.Basic):
                    out.append(v)
                else:
                    raise _NoRec("index `%s`" % norm(x))
        return out

    def index(self, base, idx):
        base = self.settled(base)
        if "rest" in idx:
            p = idx.index("rest")
            used = sum(1 for x in idx if x != "new" and x != "rest")
            idx = idx[:p] + ["all"] * (base.rank - used) + idx[p + 1:]
        used = sum(1 for x in idx if x != "new")
        if used > base.rank:
            raise _NoRec("too many indices")
        idx = idx + ["all"] * (base.rank - used)
        kept = [x for x in idx if isinstance(x, str)]      # axes of the result: 'all' (an axis of base) or 'new'
        rank = len(kept)

        def fn(*ix, _idx=idx, _base=base):
            ix = list(ix)
            args = []
            for x in _idx:
                if x == "all":
                    args.append(ix.pop(0))
                elif x == "new":
                    ix.pop(0)
                else:
                    args.append(x)
            return _base.fn(*args)
        if rank == 0:
            return fn()
        return _Arr(rank, fn, "param" if base.origin == "param" else "expr")

    def binop(self, op, a, b):
        f = {ast.Add: lambda x, y: x + y, ast.Sub: lambda x, y: x - y, ast.Mult: lambda x, y: x * y, ast.Div: lambda x, y: x / y,
             ast.Pow: lambda x, y: x ** y}.get(type(op))
        if f is None:
            raise _NoRec("operator %s" % type(op).__name__)
        return self.lift(f, a, b)

    def lift(self, f, *vals):
        vals = [self.settled(v) for v in vals]
        for v in vals:
            if not isinstance(v, (_Arr, sp.Basic)):
                raise _NoRec("operand %r" % (v,))
        rank = max([v.rank for v in vals if isinstance(v, _Arr)] or [0])
        if rank == 0:
            return f(*vals)

        def fn(*ix):
            return f(*[(v.fn(*ix[len(ix) - v.rank:]) if isinstance(v, _Arr) else v) for v in vals])
        return _Arr(rank, fn, "expr")

    def ev(self, e):
        if isinstance(e, ast.Constant):
            v = e.value
            if isinstance(v, bool) or v is None or v is Ellipsis or isinstance(v, str):
                return v
            if isinstance(v, int):
                return sp.Integer(v)
            if isinstance(v, float):
                return sp.Rational(repr(v))
            raise _NoRec("constant")
        if isinstance(e, ast.Name):
            if e.id in self.env:
                return self.env[e.id]
            if self.repo.resolve_name(self.fi.module, e.id) == "numpy.newaxis":
                return None
            raise _NoRec("name `%s`" % e.id)
        if isinstance(e, ast.Attribute):
            d = dotted_name(e)
            if d and self.repo.resolve_name(self.fi.module, d) == "numpy.newaxis":
                return None
            b = self.ev(e.value)
            if isinstance(b, _Arr):
                if e.attr == "shape":
                    return tuple([self.N] * b.rank)
                if e.attr == "size":
                    return self.N ** b.rank
                if e.attr == "ndim":
                    return sp.Integer(b.rank)
                if e.attr == "T" and b.rank == 2:
                    b = self.settled(b)
                    return _Arr(2, lambda i, j, _b=b: _b.fn(j, i), b.origin)
            raise _NoRec("attribute `%s`" % norm(e))
        if isinstance(e, ast.Tuple):
            return tuple(self.ev(x) for x in e.elts)
        if isinstance(e, ast.Subscript):
            b = self.ev(e.value)
            if isinstance(b, tuple):
                i = self.ev(e.slice)
                if isinstance(i, sp.Integer) and -len(b) <= int(i) < len(b):
                    return b[int(i)]
                raise _NoRec("subscript `%s`" % norm(e))
            if isinstance(b, _Arr):
                return self.index(b, self.ev_index(e.slice))
            raise _NoRec("subscript `%s`" % norm(e))
        if isinstance(e, ast.BinOp):
            return self.binop(e.op, self.ev(e.left), self.ev(e.right))
        if isinstance(e, ast.UnaryOp) and isinstance(e.op, ast.USub):
            return self.lift(lambda x: -x, self.ev(e.operand))
        if isinstance(e, ast.Call):
            return self.call(e)
        raise _NoRec("expression `%s`" % norm(e)[:60])

    def call(self, c):
        nm = call_name(c)
        method = isinstance(c.func, ast.Attribute) and dotted_name(c.func.value) not in ("np", "numpy", "math")
        args = ([c.func.value] if method else []) + list(c.args)
        if nm in self.ELEMWISE and len(args) == 1:
            return self.lift(self.ELEMWISE[nm], self.ev(args[0]))
        if nm in ("clip", "minimum", "maximum", "fmin", "fmax") or (nm in ("min", "max") and isinstance(c.func, ast.Name) and nm not in self.env):
            v = self.bounded(c, nm, args)
            if v is not None:
                return v
        if nm in ("float", "int") and len(args) == 1 and nm == "float":
            return self.ev(args[0])
        if nm == "len" and len(args) == 1:
            v = self.ev(args[0])
            if isinstance(v, _Arr):
                return self.N
            if isinstance(v, tuple):
                return sp.Integer(len(v))
        if nm in self.SAME and args:
            return self.ev(args[0])
        if nm in self.COPY and args:
            v = self.ev(args[0])
            cp = kwarg(c, "copy")
            if cp is not None and not (isinstance(cp, ast.Constant) and cp.value is True):
                # copy=False / copy=None / a computed flag: the call may hand back the array it was given
                return v
            if isinstance(v, _Arr):
                return _Arr(v.rank, v.fn, "copy", c)
            return v
        if nm in self.ALLOC and args:
            if nm.endswith("_like"):
                v = self.ev(args[0])
                rank = v.rank if isinstance(v, _Arr) else None
            else:
                shp = self.ev(args[0])
                shp = shp if isinstance(shp, tuple) else (shp,)
                rank = len(shp) if all(isinstance(x, sp.Basic) and sp.expand(x - self.N) == 0 for x in shp) else None
            if rank is None:
                raise _NoRec("allocation `%s` (not of the input's shape)" % norm(c))
            fill = sp.Integer(1) if nm.startswith("ones") else sp.Integer(0)
            if nm.startswith("full"):
                fv = self.ev(args[1]) if len(args) > 1 else self.ev(kwarg(c, "fill_value"))
                fill = fv if isinstance(fv, sp.Basic) else sp.Symbol("FILL")
            return _Arr(rank, lambda *ix, _f=fill: _f, "alloc", c)
        if nm in ("diagonal", "diag") and len(args) == 1:
            v = self.ev(args[0])
            if isinstance(v, _Arr) and v.rank == 2:
                return _Arr(1, lambda k, _v=v: _v.fn(k, k), v.origin if nm == "diagonal" else "expr")
            if isinstance(v, _Arr) and v.rank == 1 and nm == "diag":
                return _Arr(2, lambda i, j, _v=v: sp.KroneckerDelta(i, j) * _v.fn(i), "expr")
        if nm == "outer" and len(args) == 2:
            a, b = self.ev(args[0]), self.ev(args[1])
            if isinstance(a, _Arr) and isinstance(b, _Arr) and a.rank == b.rank == 1:
                return _Arr(2, lambda i, j, _a=a, _b=b: _a.fn(i) * _b.fn(j), "expr")
        if nm in ("multiply", "divide", "true_divide", "add", "subtract", "power") and len(args) == 2 and kwarg(c, "out") is None:
            op = {"multiply": ast.Mult(), "divide": ast.Div(), "true_divide": ast.Div(), "add": ast.Add(), "subtract": ast.Sub(), "power": ast.Pow()}[nm]
            return self.binop(op, self.ev(args[0]), self.ev(args[1]))
        raise _NoRec("call `%s`" % norm(c)[:60])

    def bounded(self, c, nm, args):
        """element-wise bounding: np.clip(a, lo, hi) / a.clip(lo, hi) is min(max(a, lo), hi) (None: no bound on that side); np.minimum /
        np.maximum / fmin / fmax and the built-in min / max of scalars are the lesser / greater operand.  The value keeps the buffer of
        the one array operand (its dtype decides what the stores kept)."""
        if nm == "clip":
            kws = {k.arg: k.value for k in c.keywords}
            if None in kws or not set(kws) <= {"a", "a_min", "a_max", "min", "max"}:
                raise _NoRec("call `%s`" % norm(c)[:60])
            rest = list(args)
            a = kws["a"] if "a" in kws else (rest.pop(0) if rest else None)
            lo = kws.get("a_min", kws.get("min")) if ("a_min" in kws or "min" in kws) else (rest.pop(0) if rest else None)
            hi = kws.get("a_max", kws.get("max")) if ("a_max" in kws or "max" in kws) else (rest.pop(0) if rest else None)
            if a is None or rest:
                raise _NoRec("call `%s`" % norm(c)[:60])
            av = self.settled(self.ev(a))
            lov = None if lo is None else self.ev(lo)
            hiv = None if hi is None else self.ev(hi)
            ops = [av]
            f = lambda x: x
            if lov is not None and hiv is not None:
                ops, f = [av, lov, hiv], (lambda x, l, h: sp.Min(sp.Max(x, l), h))
            elif lov is not None:
                ops, f = [av, lov], (lambda x, l: sp.Max(x, l))
            elif hiv is not None:
                ops, f = [av, hiv], (lambda x, h: sp.Min(x, h))
        else:
            if c.keywords or len(args) < 2 or (nm not in ("min", "max") and len(args) != 2):
                raise _NoRec("call `%s`" % norm(c)[:60])
            ops = [self.settled(self.ev(a)) for a in args]
            if nm in ("min", "max") and not all(isinstance(v, sp.Basic) for v in ops):
                raise _NoRec("call `%s`" % norm(c)[:60])
            g = sp.Min if nm in ("min", "minimum", "fmin") else sp.Max
            f = lambda *xs: g(*xs)
        try:
            out = self.lift(f, *ops)
        except (TypeError, ValueError) as ex:
            raise _NoRec("call `%s` (%s)" % (norm(c)[:60], ex))
        arrs = [v for v in ops if isinstance(v, _Arr)]
        if isinstance(out, _Arr) and len(arrs) == 1 and arrs[0].rank == out.rank and arrs[0].origin in ("alloc", "copy"):
            out = _Arr(out.rank, out.fn, arrs[0].origin, arrs[0].call)
        return out

    # -- result
    def result(self):
        """(the returned array, element (i, j) as a term, every index runs over the full extent: True / False / None, text)"""
        i, j = sp.Symbol("ix", integer=True), sp.Symbol("iy", integer=True)
        if len(self.ret) != 1 or self.ret[0][1]:
            raise _NoRec("%d return statements%s" % (len(self.ret), " (conditional)" if self.ret and self.ret[0][1] else ""))
        out = self.ret[0][0]
        if not isinstance(out, _Arr) or out.rank != 2:
            raise _NoRec("the returned value is not a matrix known element by element")
        if not out.stores:
            return out, out.fn(i, j), True, "expression"
        term, full, texts = self.element(out, [i, j])
        return out, term, full, (", ".join(texts) or "broadcast store")


def _float_alloc(c):
    """does the allocating / copying call produce float64 whatever the input's dtype: True / False / None (not read)"""
    nm = call_name(c)
    dt = kwarg(c, "dtype")
    if dt is None:
        if nm in ("zeros", "ones", "empty") and len(c.args) > 1:
            dt = c.args[1]
        elif nm == "full" and len(c.args) > 2:
            dt = c.args[2]
        elif nm in ("astype",) and c.args:
            dt = c.args[0]
        elif nm == "array" and len(c.args) > 1:
            dt = c.args[1]
    if nm in ("float64", "double"):
        return True
    if dt is None:
        # numpy's default dtype for zeros/ones/empty is float64; the *_like family, np.array, x.copy() keep the input's dtype;
        # np.full takes the dtype of the fill value
        return True if nm in ("zeros", "ones", "empty") else (None if nm == "full" else False)
    dts = norm(dt).strip("'\"")
    if dts in ("f8", "float64", "float", "np.float64", "numpy.float64", "d", "np.double", "np.float_", "<f8", "double"):
        return True
    if dts.endswith(".dtype"):
        return False
    return None


def covcor(chk, repo):
    AT = sp.Function("AT")
    i, j = sp.Symbol("ix", integer=True), sp.Symbol("iy", integer=True)
    M, E = sp.Symbol("M"), sp.Symbol("E")
    evals = {}
    for q in (ST + "cov2cor", ST + "cor2cov"):
        fi = repo.func(q)
        chk.analysed_unit(q)
        pos = [p for p in fi.params if not p.startswith("*")]
        params = {pos[0]: (2, M)}
        if len(pos) > 1:
            params[pos[1]] = (1, E)
        if fi.name == "cov2cor":
            ref = AT(M, i, j) / sp.sqrt(AT(M, i, i) * AT(M, j, j))
        else:
            ref = AT(M, i, j) * AT(E, i) * AT(E, j)
        try:
            me = _MatEval(repo, fi, params)
            evals[fi.name] = me
            out, got, full, how = me.result()
            why = ""
        except (_NoRec, RecursionError, TypeError, ValueError, AttributeError, KeyError, IndexError) as ex:
            me = evals.get(fi.name)
            out, got, full, how, why = None, None, None, "", " [not read: %s%s]" % ("" if isinstance(ex, _NoRec) else type(ex).__name__ + ": ", ex)
        rec = None if out is None else True
        chk.ob("R18.cov", fi.name + "::double-loop", rec, fi.where(),
               "the result is defined element by element over both indices (loop nest or broadcast store)%s" % why)
        chk.ob("R18.cov", fi.name + "::full-index-ranges", full, fi.where(), "both indices run over the full matrix (%s)%s" % (how, why))
        okal = None
        txt = "not read"
        if out is not None:
            if out.origin == "alloc" or out.origin == "copy":
                okal = _float_alloc(out.call)
                txt = norm(out.call)
            elif out.origin == "expr":
                okal, txt = True, "no preallocated buffer: the result has the dtype of the arithmetic"
            elif out.origin == "param":
                okal, txt = False, "the input matrix itself is overwritten"
        chk.ob("R18.cov", fi.name + "::result-is-float64-of-input-shape", okal, fi.where(out.call) if out is not None and out.call is not None else fi.where(),
               "the result matrix is allocated as float64 with the input's shape, never with the input's dtype (an integer covariance would truncate every "
               "correlation to 0): `%s`%s" % (txt, why))
        if got is not None and fi.name == "cov2cor":
            # the diagonal is positive where this formula is reached (a non-positive element is rejected, rule below)
            pos_ = {AT(M, i, i): sp.Symbol("cii", positive=True), AT(M, j, j): sp.Symbol("cjj", positive=True)}
            eq = bool(symx.equal(got.xreplace(pos_), ref.xreplace(pos_))[0])
        else:
            eq = None if got is None else bool(symx.equal(got, ref)[0])
        chk.ob("R18.cov", fi.name + "::element-formula", eq, fi.where(), "element (i,j) is %s (found %s)%s" % (ref, got, why))
        chk.ob("R18.cov", fi.name + "::returns-new-matrix", None if out is None else out.origin != "param", fi.where(),
               "a newly allocated matrix is returned%s%s" % (" (the returned matrix is the parameter `%s` itself, a re-presentation of it that need not copy, "
                                                             "or the result of storing / operating in place on one)" % pos[0]
                                                             if out is not None and out.origin == "param" else "", why))
    # symbolic inverse for a positive diagonal: cor2cov(cov2cor(C), sqrt(diag C)) = C
    cii, cjj, cij = sp.symbols("cii cjj", positive=True) + (sp.Symbol("cij", real=True),)
    back = (cij / sp.sqrt(cii * cjj)) * sp.sqrt(cii) * sp.sqrt(cjj)
    chk.ob("R18.cov", "cov->cor->cov::identity", sp.simplify(back - cij) == 0, "esutil/stat/util.py", "with a positive diagonal the two element formulas compose to the identity")
    # a non-positive diagonal element is rejected: some `if d <= 0: raise` where d is the diagonal element at an index that runs over the
    # full extent (one such test covers the whole diagonal; the reviewed code has two, one per loop)
    fi = repo.func(ST + "cov2cor")
    me = evals.get("cov2cor")
    ok, seen = None, []
    if me is not None:
        verdicts = []
        for kind, op, l, r, loops, text in me.rejects:
            seen.append(text)
            if kind != "read":
                verdicts.append(None)
                continue
            if r != 0 and l == 0:
                l, r, op = r, l, _FLIP[op]
            ks = [k for k in loops if me.loopinfo[k][0]]
            if r == 0 and any(l == AT(M, k, k) for k in loops):
                if not any(l == AT(M, k, k) for k in ks):
                    verdicts.append(False)          # the diagonal is only partly visited
                elif op is ast.LtE:
                    verdicts.append(True)
                elif op is ast.Lt:
                    verdicts.append(False)          # zero passes and is divided by
                else:
                    verdicts.append(None)
        ok = True if True in verdicts else (False if (False in verdicts or not (me.rejects or me.unfollowed)) else None)
    chk.ob("R18.cov", "cov2cor::non-positive-diagonal-rejected", ok, fi.where(), "a non-positive diagonal element is rejected (%s)" % sorted(seen))


# ---------------------------------------------------------------------------
# the caller's arrays are read, never written
# ---------------------------------------------------------------------------

class _AnalyseKept(effects._Analyse):
    """effects._Analyse in which a subscript is a view of its base only when it is positively read as basic indexing that yields an
    array (a slice / Ellipsis / newaxis among integer positions, or fewer integer positions than the known rank of a parameter);
    anything else (an index array, a mask, a name of unknown kind, a full set of positions: an element) is taken as a fresh value,
    so that a write is only ever attributed to the caller's buffer when every step from the parameter to the written name is read."""

    def __init__(self, eng, fi, flags):
        effects._Analyse.__init__(self, eng, fi, flags)
        stores = {}
        for n in ast.walk(fi.node):
            if isinstance(n, ast.Name) and isinstance(n.ctx, (ast.Store, ast.Del)):
                stores[n.id] = stores.get(n.id, 0) + 1
        self.counters = set()
        for n in ast.walk(fi.node):
            if isinstance(n, ast.For) and isinstance(n.target, ast.Name) and isinstance(n.iter, ast.Call) and isinstance(n.iter.func, ast.Name) \
                    and n.iter.func.id == "range" and stores.get(n.target.id) == 1 and n.target.id not in self.params:
                self.counters.add(n.target.id)

    def _position(self, x):
        """'int' (one integer position), 'axis' (keeps / adds an axis), None (not read)"""
        if isinstance(x, ast.Slice):
            return "axis"
        if isinstance(x, ast.Constant):
            if x.value is None or x.value is Ellipsis:
                return "axis"
            return "int" if (isinstance(x.value, int) and not isinstance(x.value, bool)) else None
        if isinstance(x, ast.UnaryOp) and isinstance(x.op, ast.USub):
            return "int" if self._position(x.operand) == "int" else None
        if isinstance(x, ast.BinOp) and isinstance(x.op, (ast.Add, ast.Sub)):
            return "int" if self._position(x.left) == "int" and self._position(x.right) == "int" else None
        if isinstance(x, ast.Name) and x.id in self.counters:
            return "int"
        d = dotted_name(x) if isinstance(x, (ast.Name, ast.Attribute)) else None
        if d and self.eng.repo.resolve_name(self.fi.module, d) == "numpy.newaxis":
            return "axis"
        return None

    def val(self, e, env):
        if isinstance(e, ast.Subscript):
            base = effects._Analyse.val(self, e.value, env)
            elts = e.slice.elts if isinstance(e.slice, ast.Tuple) else [e.slice]
            kinds = [self._position(x) for x in elts]
            view = None not in kinds and "axis" in kinds
            if not view and None not in kinds and isinstance(e.value, ast.Name):
                ranks = [self.eng.ranks.get((self.fi.qualname, t[1])) for t in base if t[0] == "P" and t[2] == "same"]
                pt = [t for t in base if t[0] == "P"]
                view = bool(pt) and len(ranks) == len(pt) and all(r is not None and len(kinds) < r for r in ranks)
            if not view:
                return {effects.FRESH}
            return {("P", t[1], "view", t[3]) if t[0] == "P" else t for t in base} or {effects.FRESH}
        return effects._Analyse.val(self, e, env)


class _EffectsKept(effects.Effects):
    """effects.Effects whose summaries are computed by _AnalyseKept; `ranks`: (function, parameter) -> known rank of the array"""

    def __init__(self, repo, ranks=None):
        effects.Effects.__init__(self, repo)
        self.ranks = dict(ranks or {})

    def summary(self, fi, flags=None):
        flags = dict(flags or {})
        key = (fi.qualname, tuple(sorted((k, repr(v)) for k, v in flags.items())))
        if key in self.memo:
            return self.memo[key]
        if key in self.stack:
            return effects.Summary()
        self.stack.append(key)
        try:
            s = _AnalyseKept(self, fi, flags).run()
        finally:
            self.stack.pop()
        self.memo[key] = s
        return s


# routine -> (rule id, the array inputs: positions among the positional parameters / public names, known ranks by position)
_ARRAY_INPUTS = (
    ("cov2cor", "R18.cov", (0,), {0: 2}),
    ("cor2cov", "R18.cov", (0, 1), {0: 2, 1: 1}),
    ("wmom", "R18.wmom", (0, 1), {}),
    ("sigma_clip", "R18.clip", (0, "weights"), {}),
    ("wmedian", "R18.wmed", (0, 1), {}),
    ("interplin", "R18.interp", (0, 1, 2), {}),
    ("get_stats", "R18.stats", (0, "weights"), {}),
    ("boxcar_average", "R18.boxcar", (0,), {}),
)


def inputs_kept(chk, repo):
    """Every routine of this property is a function of its array inputs: the covariance put through cov2cor and back, the data whose
    surviving subset sigma_clip reports by position, the tables interplin is asked about again are the caller's arrays and must hold
    after the call what they held before it.  Necessary: on no path is there a store, an in-place operator, an out= / mutating library
    call or a mutating method whose target may be the buffer of an array parameter (the parameter itself, a re-presentation of it
    that need not copy -- asarray / atleast_1d / astype(copy=False) ... -- or a basic-indexing view of one), here or in a package
    function the array is handed to."""
    ranks = {}
    units = []
    for name, rule, roles, rk in _ARRAY_INPUTS:
        fi = repo.func(ST + name)
        pos = [p for p in fi.params if not p.startswith("*")]
        ps = []
        for r in roles:
            p = pos[r] if isinstance(r, int) and r < len(pos) else (r if r in pos else None)
            if p is not None:
                ps.append(p)
                if r in rk:
                    ranks[(fi.qualname, p)] = rk[r]
        units.append((fi, rule, ps, len(ps) == len(roles)))
    eng = _EffectsKept(repo, ranks)
    for fi, rule, ps, complete in units:
        try:
            s = eng.summary(fi)
            sites = [(p, st) for p in ps for st in s.mut.get(p, []) if st.kind == "data"]
            ok = False if sites else (True if complete else None)
            why = "; ".join("what may be the buffer of the caller's `%s` is written by %s" % (p, st.describe()) for p, st in sites[:3]) \
                or ("none of %s is written" % ", ".join(ps) if complete else "the array parameters were not all found")
            where = sites[0][1].where() if sites else fi.where()
        except (AnalysisError, RecursionError, KeyError, AttributeError, TypeError, ValueError, IndexError) as ex:
            ok, where, why = None, fi.where(), "not read: %s: %s" % (type(ex).__name__, str(ex)[:160])
        chk.ob(rule, fi.name + "::inputs-not-written", ok, where,
               "the caller's arrays hold after the call what they held before it (no store, in-place operator, out= or mutating call "
               "reaches the buffer of an array parameter): %s" % why)


# ---------------------------------------------------------------------------
# bounded symbolic path execution (term domain) for the loop routines: sigma_clip, wmedian, get_stats, boxcar_average
# ---------------------------------------------------------------------------

def _F(name):
    return sp.Function(name)


IDX, SIZE, DIM, ARANGE, WHERE, COUNT, ABSF, ARGSORT, ITEM, SLICE, NOTF, ANDF, ORF, INF, TUP = [
    _F(n) for n in ("IDX", "SIZE", "DIM", "ARANGE", "WHERE", "COUNT", "ABS", "ARGSORT", "ITEM", "SLICE", "NOT", "AND", "OR", "IN", "TUPLE")]
REL = {ast.Lt: _F("LT"), ast.LtE: _F("LE"), ast.Gt: _F("GT"), ast.GtE: _F("GE"), ast.Eq: _F("EQ"), ast.NotEq: _F("NE")}
RELNAMES = {"LT", "LE", "GT", "GE", "EQ", "NE"}
NEG = {"LT": "GE", "LE": "GT", "GT": "LE", "GE": "LT", "EQ": "NE", "NE": "EQ"}
TRUE_, FALSE_, NONE_ = sp.Symbol("True"), sp.Symbol("False"), sp.Symbol("None")
CUMSUM, FIRSTPOS = _F("CUMSUM"), _F("FIRSTPOS")
REDUCE = {"mean": "MEAN", "std": "STD", "sum": "SUM", "min": "MIN", "max": "MAX", "var": "VAR", "median": "MEDIAN"}


def _head(t):
    return getattr(getattr(t, "func", None), "__name__", "") if isinstance(t, sp.Basic) else ""


def _is_mask(t):
    return _head(t) in RELNAMES or _head(t) in ("NOT", "AND", "OR")


def _is_index_array(t):
    h = _head(t)
    if h in ("ARANGE", "WHERE", "ARGSORT"):
        return True
    return h == "IDX" and _is_index_array(t.args[0]) and (_is_mask(t.args[1]) or _is_index_array(t.args[1]))


def _csize(t):
    """canonical number of elements of an array term"""
    h = _head(t)
    if h == "ARANGE":
        return t.args[0]
    if h == "WHERE":
        return COUNT(t.args[0])
    if h == "ARGSORT":
        return _csize(t.args[0])
    if h == "IDX":
        j = t.args[1]
        if _is_mask(j):
            return COUNT(j)
        if _is_index_array(j):
            return _csize(j)
    return SIZE(t)


def _idx(base, i):
    # X[arange(X.size)] is X
    if _head(i) == "ARANGE" and sp.expand(i.args[0] - _csize(base)) == 0:
        return base
    # (X[J])[k] is X[J[k]] when J is an index array and k a position
    if _head(base) == "IDX" and _is_index_array(base.args[1]) and isinstance(i, sp.Basic) and not _is_mask(i) and not _is_index_array(i) and _head(i) != "SLICE":
        return IDX(base.args[0], _idx(base.args[1], i))
    return IDX(base, i)


class _Opq:
    def __init__(self, text):
        self.text = text

    def __repr__(self):
        return "Opq(%s)" % self.text


class _Shape:
    def __init__(self, arr):
        self.arr = arr


class _Kw:
    """a keyword dictionary: explicit entries over the caller's unknown **kw (base) over defaults"""

    def __init__(self, explicit=None, base=None, defaults=None):
        self.explicit = dict(explicit or {})
        self.base = base
        self.defaults = dict(defaults or {})
        self.known_in = {}          # key -> bool: decided membership in base on this path
        self.removed = set()        # keys taken out of this dictionary (pop / del): whatever the caller passed under them is gone

    def copy(self):
        k = _Kw(self.explicit, self.base, self.defaults)
        k.known_in = dict(self.known_in)
        k.removed = set(self.removed)
        return k


class _Obj:
    """an instance of a plain record class of the module under analysis (see _PX.record_class): its attributes are what the class's
    __init__ stored in them; once __init__ has returned nothing is stored in it any more (a later store is not read)"""

    def __init__(self, cls, qual):
        self.cls = cls
        self.qual = qual
        self.attrs = {}
        self.frozen = False

    def __repr__(self):
        return "Obj(%s)" % self.cls.name


def _t(v):
    """python value -> term (to embed in an application)"""
    if isinstance(v, sp.Basic):
        return v
    if v is True:
        return TRUE_
    if v is False:
        return FALSE_
    if v is None:
        return NONE_
    if isinstance(v, int):
        return sp.Integer(v)
    if isinstance(v, str):
        return sp.Symbol(repr(v))
    if isinstance(v, (tuple, list)):
        return TUP(*[_t(x) for x in v])
    if isinstance(v, _Opq):
        return sp.Symbol("OPAQUE<%s>" % v.text)
    if isinstance(v, _Shape):
        return _F("SHAPE")(_t(v.arr))
    if isinstance(v, _Kw):
        return _F("KWDICT")(*_kwargs_terms(v))
    if isinstance(v, dict):
        return _F("DICT")(*[TUP(_t(k), _t(x)) for k, x in v.items()])
    raise _NoRec("value %r" % (v,))


def _kwargs_terms(kw):
    out = [_F("KW_" + k)(_t(v)) for k, v in sorted(kw.explicit.items())]
    if kw.base is not None:
        out.append(_F("KWREST")(kw.base, *([sp.Symbol("without:" + k) for k, v in sorted(kw.known_in.items()) if v is False]
                                           + [sp.Symbol("removed:" + k) for k in sorted(kw.removed)])))
    out += [_F("KWDEFAULT_" + k)(_t(v)) for k, v in sorted(kw.defaults.items()) if k not in kw.explicit]
    return out


class _PState:
    def __init__(self):
        self.vars = {}
        self.cons = []          # (condition term, truth) in path order
        self.bodies = {}        # loop statement id -> number of body executions on this path

    def copy(self):
        s = _PState()
        memo = {}       # two names bound to the same mutable object stay bound to one object in the copy
        for k, v in self.vars.items():
            if isinstance(v, (list, dict, _Kw)):
                if id(v) not in memo:
                    memo[id(v)] = list(v) if isinstance(v, list) else (dict(v) if isinstance(v, dict) else v.copy())
                v = memo[id(v)]
            s.vars[k] = v
        s.cons = list(self.cons)
        s.bodies = dict(self.bodies)
        return s


class _PX:
    """explores every path of a function (loops: at most `max_body` executions of a body per path; paths that would need more are
    not followed) over a term domain.  Private helpers of the same module are entered; other package functions are constructors
    C_<qualname>(KW_<parameter>(value)...).  A test whose value is not determined by the state forks the path and is recorded as
    a path constraint.  Yields (returned value, final state) for every path that returns normally."""

    IDENT_F = {"atleast_1d", "asarray", "asanyarray", "array", "ascontiguousarray", "float64", "double"}
    IDENT_M = {"astype", "copy", "ravel", "flatten", "view"}

    def __init__(self, repo, fi, one_d=True, max_body=4, max_paths=20000):
        self.repo, self.fi = repo, fi
        self.one_d = one_d
        self.max_body = max_body
        self.max_paths = max_paths
        self.npaths = 0
        self.entered = set()
        self.seen_helpers = set()

    def returns(self, init):
        st = _PState()
        st.vars = dict(init)
        out = []
        for status, s in self.block(self.fi.node.body, st, self.fi):
            if status[0] == "return":
                out.append((status[1], s))
            elif status[0] == "next":
                out.append((None, s))
            self.npaths += 1
            if self.npaths > self.max_paths:
                raise _NoRec("more than %d paths" % self.max_paths)
        return out

    # -- statements ----------------------------------------------------------
    def block(self, stmts, st, fi):
        if not stmts:
            yield ("next",), st
            return
        for status, s2 in self.stmt(stmts[0], st, fi):
            if status[0] == "next":
                for x in self.block(stmts[1:], s2, fi):
                    yield x
            else:
                yield status, s2

    def stmt(self, a, st, fi):
        if not self.entered and isinstance(a, (ast.Expr, ast.Assign, ast.AugAssign, ast.Return)) and any(isinstance(x, ast.Call) for x in ast.walk(a)):
            # a helper entered from this statement may branch on a test the state does not decide (_ForkNeeded): the statement is tried on
            # a copy of the state; if that happens the path forks on the test HERE and the statement is run again under each outcome,
            # where the test is decided by the path constraints
            trial = st.copy()
            try:
                res = list(self.stmt0(a, trial, fi))
            except _ForkNeeded as fk:
                if len(st.cons) > 200:
                    raise _NoRec("too many undecided tests in helpers")
                for b, s2 in self.fork(fk.t, st):
                    for x in self.stmt(a, s2, fi):
                        yield x
                return
            for x in res:
                yield x
            return
        for x in self.stmt0(a, st, fi):
            yield x

    def decide(self, test, st, fi):
        """(outcome, state) for every way the test can go; a helper that branches while the test is evaluated forks the path first"""
        # (inside a helper nothing is copied: its parameters may be the caller's own mutable objects, and an undecided test there is
        # passed up to the statement of the routine that entered it)
        trial = st.copy() if (not self.entered and any(isinstance(x, ast.Call) for x in ast.walk(test))) else st
        try:
            t = self.truth(test, trial, fi)
        except _ForkNeeded as fk:
            if len(st.cons) > 200:
                raise _NoRec("too many undecided tests in helpers")
            for b, s2 in self.fork(fk.t, st):
                for x in self.decide(test, s2, fi):
                    yield x
            return
        for x in self.fork(t, trial):
            yield x

    def stmt0(self, a, st, fi):
        if isinstance(a, ast.Delete):
            for t in a.targets:
                if isinstance(t, ast.Subscript) and isinstance(t.value, ast.Name) and isinstance(st.vars.get(t.value.id), (dict, _Kw)):
                    self.kw_pop(st.vars[t.value.id], self.ev(t.slice, st, fi), [None])
                elif isinstance(t, ast.Name):
                    st.vars.pop(t.id, None)
            yield ("next",), st
        elif isinstance(a, (ast.Pass, ast.Global, ast.Nonlocal, ast.Assert)):
            yield ("next",), st
        elif isinstance(a, (ast.Import, ast.ImportFrom)):
            for al in a.names:
                mod = (a.module or "") if isinstance(a, ast.ImportFrom) else al.name
                st.vars[(al.asname or al.name).split(".")[0]] = _Opq("mod:" + (mod + "." + al.name if isinstance(a, ast.ImportFrom) else mod))
            yield ("next",), st
        elif isinstance(a, ast.Expr):
            self.expr_stmt(a.value, st, fi)
            yield ("next",), st
        elif isinstance(a, ast.Assign):
            v = self.ev(a.value, st, fi)
            for t in a.targets:
                self.assign(t, v, st, fi)
            yield ("next",), st
        elif isinstance(a, ast.AugAssign):
            cur = self.ev(_as_load(a.target), st, fi)
            self.assign(a.target, self.binop(a.op, cur, self.ev(a.value, st, fi)), st, fi)
            yield ("next",), st
        elif isinstance(a, ast.Return):
            yield ("return", self.ev(a.value, st, fi) if a.value is not None else None), st
        elif isinstance(a, ast.Raise):
            yield ("raise",), st
        elif isinstance(a, ast.Break):
            yield ("break",), st
        elif isinstance(a, ast.Continue):
            yield ("continue",), st
        elif isinstance(a, ast.If):
            for b, s2 in self.decide(a.test, st, fi):
                for x in self.block(a.body if b else a.orelse, s2, fi):
                    yield x
        elif isinstance(a, ast.While):
            for x in self.loop(a, st, fi, None, 0):
                yield x
        elif isinstance(a, ast.For):
            it = a.iter
            if not (isinstance(it, ast.Call) and call_name(it) == "range" and isinstance(it.func, ast.Name) and "range" not in st.vars):
                # a loop over the entries of a 1-d array / a python sequence (directly, zipped, enumerated from 0): pass j sees entry j
                n, item = self.items(it, st, fi)
                for x in self.loop(a, st, fi, (None, n, item), 0):
                    yield x
                return
            if not (isinstance(a.target, ast.Name) and 1 <= len(it.args) <= 2):
                raise _NoRec("loop over `%s`" % norm(it))
            lo = self.ev(it.args[0], st, fi) if len(it.args) == 2 else sp.Integer(0)
            hi = self.ev(it.args[-1], st, fi)
            if not (isinstance(lo, sp.Basic) and isinstance(hi, sp.Basic)):
                raise _NoRec("loop over `%s`" % norm(it))
            for x in self.loop(a, st, fi, (lo, sp.expand(hi - lo)), 0):
                yield x
        else:
            raise _NoRec("statement %s at line %s" % (type(a).__name__, a.lineno))

    def items(self, it, st, fi):
        """(number of passes, pass number -> what the loop variable is bound to) for a loop over `it`: the entries of a 1-d array term
        (entry j is T[j], there are size(T) of them), of a python list / tuple known here, zip(...) of those (as many passes as every one
        of them allows: only read when they all have the same number of entries) and enumerate(...) counting from 0.  The iterable is
        evaluated once, before the first pass, as python does."""
        if isinstance(it, ast.Call) and isinstance(it.func, ast.Name) and it.func.id in ("zip", "enumerate") and it.func.id not in st.vars \
                and not any(isinstance(x, ast.Starred) for x in it.args):
            if it.func.id == "zip" and it.args and not it.keywords:
                parts = [self.items(x, st, fi) for x in it.args]
                if any(sp.expand(_t(n) - _t(parts[0][0])) != 0 for n, _ in parts[1:]):
                    raise _NoRec("loop over `%s` (lengths not known to agree)" % norm(it)[:60])
                return parts[0][0], (lambda j, _p=parts: tuple(f(j) for _, f in _p))
            if it.func.id == "enumerate" and len(it.args) == 1:
                start = kwarg(it, "start")
                if (start is None and not it.keywords) or (start is not None and len(it.keywords) == 1 and norm(start) == "0"):
                    n, f = self.items(it.args[0], st, fi)
                    return n, (lambda j, _f=f: (sp.Integer(j), _f(j)))
            raise _NoRec("loop over `%s`" % norm(it)[:60])
        if not self.one_d:
            raise _NoRec("loop over `%s` (rows of an N-by-d array)" % norm(it)[:60])
        v = self.ev(it, st, fi)
        if isinstance(v, (list, tuple)):
            v = list(v)
            return sp.Integer(len(v)), (lambda j, _v=v: _v[j])
        if isinstance(v, sp.Basic) and not v.is_number and not _is_mask(v) and not _head(v).startswith("C_") and _head(v) not in ("TUPLE", "ITE", "GET"):
            return _csize(v), (lambda j, _v=v: _idx(_v, sp.Integer(j)))
        raise _NoRec("loop over `%s`" % norm(it)[:60])

    def loop(self, a, st, fi, rng, j):
        """one visit of the loop head; rng = (start, trip count) for a counted `for`, (None, number of entries, pass -> entry) for a
        loop over entries, None for `while`"""
        if rng is not None:
            outcomes = self.fork(self.rel(ast.Lt, sp.Integer(j), rng[1]), st)
        else:
            outcomes = self.decide(a.test, st, fi)
        for b, s2 in outcomes:
            if not b:
                for x in self.block(a.orelse, s2, fi):
                    yield x
                continue
            n = s2.bodies.get(id(a), 0)
            if n >= self.max_body:
                continue                    # bounded exploration: this path is not followed further
            s2.bodies[id(a)] = n + 1
            if rng is not None and rng[0] is None:
                self.assign(a.target, rng[2](j), s2, fi)
            elif rng is not None:
                s2.vars[a.target.id] = sp.expand(rng[0] + j)
            for status, s3 in self.block(a.body, s2, fi):
                if status[0] in ("next", "continue"):
                    for x in self.loop(a, s3, fi, rng, j + 1):
                        yield x
                elif status[0] == "break":
                    yield ("next",), s3
                else:
                    yield status, s3

    def fork(self, t, st):
        if isinstance(t, bool):
            yield t, st
            return
        known = _implied(t, st.cons)
        if known is not None:
            yield known, st
            return
        if self.entered:
            raise _ForkNeeded(t)        # inside a helper entered from an expression: the calling statement forks (see stmt)
        for b in (True, False):
            s2 = st.copy()
            s2.cons.append((t, b))
            self.learn(t, b, s2)
            yield b, s2

    def learn(self, t, b, st):
        """a decided membership test on the caller's **kw is remembered in the dictionaries that are layered over it"""
        if _head(t) == "IN":
            for v in st.vars.values():
                if isinstance(v, _Kw) and v.base is not None and v.base == t.args[1]:
                    v.known_in[str(t.args[0])] = b
        if _head(t) == "OR" and not b:
            for x in t.args:
                self.learn(x, False, st)
        if _head(t) == "AND" and b:
            for x in t.args:
                self.learn(x, True, st)
        if _head(t) == "NOT":
            self.learn(t.args[0], not b, st)

    def expr_stmt(self, e, st, fi):
        if isinstance(e, ast.Call) and isinstance(e.func, ast.Attribute) and isinstance(e.func.value, ast.Name):
            recv = st.vars.get(e.func.value.id)
            nm = e.func.attr
            if isinstance(recv, list) and nm == "append" and len(e.args) == 1:
                recv.append(self.ev(e.args[0], st, fi))
            elif isinstance(recv, list) and nm == "extend" and len(e.args) == 1:
                v = self.ev(e.args[0], st, fi)
                if not isinstance(v, (list, tuple)):
                    raise _NoRec("`%s`" % norm(e))
                recv.extend(v)
            elif isinstance(recv, (_Kw, dict)) and nm == "update":
                uargs = [self.ev(x, st, fi) for x in e.args]
                if isinstance(recv, dict) and any(isinstance(x, _Kw) for x in uargs):
                    recv = st.vars[e.func.value.id] = _Kw(explicit=recv)
                self.kw_update(recv, uargs, {k.arg: self.ev(k.value, st, fi) for k in e.keywords if k.arg})
            elif isinstance(recv, (_Kw, dict)) and nm == "setdefault" and len(e.args) == 2:
                k, v = self.ev(e.args[0], st, fi), self.ev(e.args[1], st, fi)
                if isinstance(recv, dict):
                    recv.setdefault(k, v)
                elif k not in recv.explicit:
                    if recv.base is None or recv.known_in.get(repr(k)) is False or str(_t(k)) in recv.removed:
                        recv.explicit.setdefault(k, recv.defaults.pop(k, v))
                    else:
                        recv.defaults.setdefault(k, v)
            elif isinstance(recv, (_Kw, dict)) and nm == "pop" and 1 <= len(e.args) <= 2 and not e.keywords:
                self.kw_pop(recv, self.ev(e.args[0], st, fi), [self.ev(x, st, fi) for x in e.args[1:]])
            elif isinstance(recv, (_Kw, dict)) and nm in ("clear", "popitem", "__setitem__", "__delitem__", "__ior__"):
                raise _NoRec("dictionary method `%s`" % nm)
        # every other expression statement (printing, logging) has no effect on the values followed here

    def kw_pop(self, d, k, default):
        """d.pop(k[, default]): the value the key had (as d.get would give it) and the key is gone from d"""
        if isinstance(k, (_Opq, list, dict, _Kw)) or (isinstance(k, sp.Basic) and not k.is_number):
            raise _NoRec("dictionary key %r" % (k,))
        v = self.kw_get(d, k, default[0] if default else None, must=not default)
        if isinstance(d, dict):
            d.pop(k, None)
        else:
            d.explicit.pop(k, None)
            d.defaults.pop(k, None)
            if d.base is not None:
                d.removed.add(str(_t(k)))
        return v

    def kw_update(self, recv, args, kws):
        srcs = list(args) + ([kws] if kws else [])
        for o in srcs:
            if isinstance(recv, dict):
                if not isinstance(o, dict):
                    raise _NoRec("dict.update with %r" % (o,))
                recv.update(o)
            elif isinstance(o, dict):
                recv.explicit.update(o)
            elif isinstance(o, _Kw):
                if o.base is not None and recv.base is not None and o.base != recv.base:
                    raise _NoRec("two unknown dictionaries merged")
                if o.base is not None:
                    # entries of recv stay visible only where the unknown dictionary has no such key
                    low = dict(recv.defaults)
                    low.update(recv.explicit)
                    low.update(o.defaults)
                    recv.explicit, recv.defaults, recv.base = dict(o.explicit), low, o.base
                    recv.known_in = dict(o.known_in)
                    recv.removed = set(o.removed)
                else:
                    recv.explicit.update(o.defaults)
                    recv.explicit.update(o.explicit)
            else:
                raise _NoRec("dict.update with %r" % (o,))

    def assign(self, t, v, st, fi):
        if isinstance(t, ast.Name):
            st.vars[t.id] = v
        elif isinstance(t, (ast.Tuple, ast.List)):
            if isinstance(v, sp.Basic) and _head(v).startswith("C_"):
                v = tuple(ITEM(v, sp.Integer(k)) for k in range(len(t.elts)))
            if not isinstance(v, (tuple, list)) or len(v) != len(t.elts):
                raise _NoRec("unpacking into `%s`" % norm(t))
            for x, y in zip(t.elts, v):
                self.assign(x, y, st, fi)
        elif isinstance(t, ast.Subscript) and isinstance(t.value, ast.Name) and isinstance(st.vars.get(t.value.id), (dict, _Kw)):
            k = self.ev(t.slice, st, fi)
            d = st.vars[t.value.id]
            if isinstance(d, dict):
                d[k] = v
            else:
                d.explicit[k] = v
        elif isinstance(t, ast.Attribute) and isinstance(t.value, ast.Name) and isinstance(st.vars.get(t.value.id), _Obj) and not st.vars[t.value.id].frozen:
            st.vars[t.value.id].attrs[t.attr] = v
        else:
            raise _NoRec("assignment to `%s`" % norm(t))

    # -- tests -----------------------------------------------------------------
    def rel(self, op, a, b):
        if isinstance(a, sp.Basic) and isinstance(b, sp.Basic):
            d = sp.expand(a - b)
            if d.is_number and d.is_real:
                return bool(_CMP[op](d, 0))
            return REL[op](a, b)
        raise _NoRec("comparison of %r and %r" % (a, b))

    def truth(self, e, st, fi):
        """python bool when the state decides the test, else a condition term"""
        if isinstance(e, ast.UnaryOp) and isinstance(e.op, ast.Not):
            t = self.truth(e.operand, st, fi)
            return (not t) if isinstance(t, bool) else (t.args[0] if _head(t) == "NOT" else NOTF(t))
        if isinstance(e, ast.BoolOp):
            vals = []
            for x in e.values:
                t = self.truth(x, st, fi)
                if isinstance(t, bool):
                    if t != isinstance(e.op, ast.And):
                        return t                     # short circuit
                    continue
                vals.append(t)
            if not vals:
                return isinstance(e.op, ast.And)
            return vals[0] if len(vals) == 1 else (ANDF if isinstance(e.op, ast.And) else ORF)(*vals)
        v = self.ev(e, st, fi)
        if isinstance(v, bool):
            return v
        if v is None:
            return False
        if isinstance(v, (list, tuple, dict, str)):
            return bool(v)
        if isinstance(v, sp.Basic):
            if v.is_number:
                return bool(v != 0)
            if _head(v) in ("COUNT", "SIZE"):
                return REL[ast.NotEq](v, sp.Integer(0))     # a number of elements used as a test (`if w.size:` / `not w.size`) is `!= 0`
            return v
        if isinstance(v, _Opq):
            return sp.Symbol("TEST<%s>" % norm(e))
        raise _NoRec("test `%s`" % norm(e))

    # -- expressions -------------------------------------------------------
    def ev(self, e, st, fi):
        if isinstance(e, ast.Constant):
            v = e.value
            if isinstance(v, bool) or v is None or isinstance(v, str) or v is Ellipsis:
                return v
            if isinstance(v, int):
                return sp.Integer(v)
            if isinstance(v, float):
                return sp.Rational(repr(v))
            return _Opq("const")
        if isinstance(e, ast.Name):
            if e.id in st.vars:
                return st.vars[e.id]
            full = self.repo.resolve_name(fi.module, e.id)
            if full == "numpy.newaxis":
                return None
            if not self.repo.has(full):
                tab = self.module_table(fi, e.id)
                if tab is not None:
                    return tab
            return _Opq("mod:" + full)
        if isinstance(e, ast.Attribute):
            d = dotted_name(e)
            if d and d.split(".")[0] not in st.vars:
                full = self.repo.resolve_name(fi.module, d)
                if full == "numpy.newaxis":
                    return None
                return _Opq("mod:" + full)
            b = self.ev(e.value, st, fi)
            if isinstance(b, sp.Basic):
                if e.attr == "size":
                    return _csize(b)
                if e.attr == "shape":
                    return _Shape(b)
                if e.attr == "ndim":
                    return _F("NDIM")(b)
                if e.attr in ("T", "real"):
                    return b if e.attr == "real" else _F("TRANSPOSE")(b)
                return _F("ATTR_" + e.attr)(b)
            if isinstance(b, _Opq):
                return _Opq(b.text + "." + e.attr)
            if isinstance(b, _Obj) and e.attr in b.attrs:
                return b.attrs[e.attr]
            raise _NoRec("attribute `%s`" % norm(e))
        if isinstance(e, (ast.Tuple, ast.List)):
            vals = [self.ev(x, st, fi) for x in e.elts]
            return tuple(vals) if isinstance(e, ast.Tuple) else vals
        if isinstance(e, ast.Dict):
            if any(k is None for k in e.keys):
                raise _NoRec("dict display with **")
            return {self.ev(k, st, fi): self.ev(v, st, fi) for k, v in zip(e.keys, e.values)}
        if isinstance(e, ast.Subscript):
            return self.subscript(self.ev(e.value, st, fi), e.slice, st, fi, e)
        if isinstance(e, ast.BinOp):
            return self.binop(e.op, self.ev(e.left, st, fi), self.ev(e.right, st, fi))
        if isinstance(e, ast.UnaryOp):
            if isinstance(e.op, ast.Not):
                t = self.truth(e, st, fi)
                return t
            v = self.ev(e.operand, st, fi)
            if isinstance(e.op, ast.USub) and isinstance(v, sp.Basic):
                return -v
            if isinstance(e.op, ast.UAdd):
                return v
            if isinstance(e.op, ast.Invert) and isinstance(v, sp.Basic):
                return NOTF(v)
            raise _NoRec("unary operator in `%s`" % norm(e))
        if isinstance(e, ast.BoolOp):
            return self.truth(e, st, fi)
        if isinstance(e, ast.Compare):
            if len(e.ops) != 1:
                raise _NoRec("chained comparison")
            op = e.ops[0]
            a, b = self.ev(e.left, st, fi), self.ev(e.comparators[0], st, fi)
            if isinstance(op, (ast.Is, ast.IsNot)):
                if a is None or b is None:
                    other = b if a is None else a
                    if isinstance(other, _Opq):
                        raise _NoRec("identity test on an uninterpreted value")
                    r = other is None
                    if other == NONE_:
                        r = True
                    elif isinstance(other, sp.Basic) and any(_head(g) == "GET" and (len(g.args) < 3 or g.args[2] == NONE_)
                                                             for g in other.atoms(sp.core.function.AppliedUndef)) and _head(other) in ("GET", "ITE"):
                        # a value looked up in the caller's keywords may be None (absent with default None, or passed as None):
                        # the test is a condition of the path, not a decided fact
                        r = _F("ISNONE")(other)
                        return r if isinstance(op, ast.Is) else NOTF(r)
                else:
                    r = a is b
                return r if isinstance(op, ast.Is) else not r
            if isinstance(op, (ast.In, ast.NotIn)):
                if isinstance(b, (dict, list, tuple)):
                    r = a in b
                elif isinstance(b, _Kw):
                    if a in b.explicit or a in b.defaults:
                        r = True
                    elif b.base is None or (isinstance(a, (str, sp.Basic)) and str(_t(a)) in b.removed):
                        r = False
                    elif repr(a) in b.known_in or str(_t(a)) in b.known_in:
                        r = b.known_in.get(str(_t(a)), b.known_in.get(repr(a)))
                    else:
                        r = INF(_t(a), b.base)
                else:
                    raise _NoRec("membership test `%s`" % norm(e))
                if isinstance(op, ast.In):
                    return r
                return (not r) if isinstance(r, bool) else NOTF(r)
            if type(op) in _CMP:
                if isinstance(a, (str, bool)) or isinstance(b, (str, bool)) or a is None or b is None:
                    if isinstance(op, (ast.Eq, ast.NotEq)):
                        return (a == b) == isinstance(op, ast.Eq)
                if isinstance(a, _Shape) and isinstance(b, _Shape):
                    return REL[type(op)](_t(a), _t(b))
                if isinstance(a, (int,)):
                    a = sp.Integer(a)
                return self.rel(type(op), a, b)
            raise _NoRec("comparison `%s`" % norm(e))
        if isinstance(e, ast.IfExp):
            t = self.truth(e.test, st, fi)
            if isinstance(t, bool):
                return self.ev(e.body if t else e.orelse, st, fi)
            known = _implied(t, st.cons)
            if known is not None:
                return self.ev(e.body if known else e.orelse, st, fi)
            return _F("ITE")(t, _t(self.ev(e.body, st, fi)), _t(self.ev(e.orelse, st, fi)))
        if isinstance(e, ast.Call):
            return self.call(e, st, fi)
        if isinstance(e, ast.JoinedStr):
            return _Opq("str")
        raise _NoRec("expression `%s`" % norm(e)[:60])

    def module_table(self, fi, name):
        """a module-level dispatch table: `NAME = {constant: function, ...}` bound exactly once at module level, never rebound (no
        other assignment, no `global NAME`) and never changed in place anywhere in the module (no NAME[...] = / del NAME[...] /
        NAME.update(...) ...), read as a fresh dict from constant keys to the functions named (a call through it is a call of the entry)"""
        tree = fi.module.tree
        binds = [a for a in tree.body if isinstance(a, ast.Assign) and any(isinstance(t, ast.Name) and t.id == name for t in a.targets)]
        if len(binds) != 1 or len(binds[0].targets) != 1 or not isinstance(binds[0].value, ast.Dict):
            return None
        d = binds[0].value
        if any(k is None or not isinstance(k, ast.Constant) or isinstance(k.value, (bool, float)) for k in d.keys) or not all(isinstance(v, ast.Name) for v in d.values):
            return None
        for x in ast.walk(tree):
            if isinstance(x, (ast.Global, ast.Nonlocal)) and name in x.names:
                return None
            if isinstance(x, ast.Name) and x.id == name and not isinstance(x.ctx, ast.Load) and x is not binds[0].targets[0]:
                return None
            if isinstance(x, (ast.Subscript, ast.Attribute)) and isinstance(x.value, ast.Name) and x.value.id == name:
                if not isinstance(x.ctx, ast.Load):
                    return None
                if isinstance(x, ast.Attribute) and x.attr not in ("get", "keys", "values", "items", "copy"):
                    return None
            if isinstance(x, (ast.AugAssign, ast.AnnAssign, ast.NamedExpr)) and isinstance(x.target, ast.Name) and x.target.id == name:
                return None
            if isinstance(x, (ast.arg,)) and x.arg == name:
                return None             # (a parameter of that name hides the table somewhere: not followed)
        out = {}
        for k, v in zip(d.keys, d.values):
            full = self.repo.resolve_name(fi.module, v.id)
            if not self.repo.has(full):
                return None
            key = sp.Integer(k.value) if isinstance(k.value, int) else k.value
            if key in out:
                return None
            out[key] = _Opq("mod:" + full)
        return out

    def subscript(self, b, sl, st, fi, e):
        if isinstance(sl, ast.Slice):
            lo, hi, stp = [(self.ev(x, st, fi) if x is not None else None) for x in (sl.lower, sl.upper, sl.step)]
            if isinstance(b, (list, tuple)) and all(x is None or isinstance(x, sp.Integer) for x in (lo, hi, stp)):
                return b[slice(*[None if x is None else int(x) for x in (lo, hi, stp)])]
            if isinstance(b, sp.Basic):
                if lo is None and hi is None and stp is None:
                    return b
                if _head(b) == "RUNDIFF" and lo == 1 and hi is None and stp is None:
                    return b.args[0] - CUMSUM(b.args[1])
                return SLICE(b, _t(lo), _t(hi), _t(stp))
            raise _NoRec("slice `%s`" % norm(e))
        if isinstance(sl, ast.Tuple):
            parts = []
            for x in sl.elts:
                if isinstance(x, ast.Slice):
                    if x.lower is None and x.upper is None and x.step is None:
                        parts.append(sp.Symbol(":"))
                    else:
                        parts.append(SLICE(sp.Symbol(":"), *[_t(self.ev(y, st, fi) if y is not None else None) for y in (x.lower, x.upper, x.step)]))
                else:
                    v = self.ev(x, st, fi)
                    parts.append(sp.Symbol("newaxis") if v is None else (sp.Symbol("...") if v is Ellipsis else _t(v)))
            if isinstance(b, sp.Basic):
                return _F("IDXN")(b, *parts)
            raise _NoRec("subscript `%s`" % norm(e))
        i = self.ev(sl, st, fi)
        if isinstance(b, (list, tuple)):
            if isinstance(i, sp.Integer) and -len(b) <= int(i) < len(b):
                return b[int(i)]
            raise _NoRec("subscript `%s`" % norm(e))
        if isinstance(b, dict):
            if i in b:
                return b[i]
            raise _NoRec("key of `%s`" % norm(e))
        if isinstance(b, _Kw):
            return self.kw_get(b, i, None, must=True)
        if isinstance(b, _Shape):
            if isinstance(i, sp.Integer):
                if self.one_d and int(i) == 0:
                    return _csize(b.arr)
                return DIM(b.arr, i)
            raise _NoRec("subscript `%s`" % norm(e))
        if isinstance(b, sp.Basic):
            if _head(b).startswith("C_") and isinstance(i, sp.Integer):
                return ITEM(b, i)
            if isinstance(i, sp.Basic):
                return _idx(b, i)
            if i is None:
                return _F("IDXN")(b, sp.Symbol("newaxis"))
            if i is Ellipsis:
                return b
        if isinstance(b, _Opq):
            return _Opq(b.text + "[]")
        raise _NoRec("subscript `%s`" % norm(e))

    def kw_get(self, d, k, default, must=False):
        if isinstance(d, dict):
            if k in d:
                return d[k]
            if must:
                raise _NoRec("missing key %r" % (k,))
            return default
        if k in d.explicit:
            return d.explicit[k]
        inb = d.known_in.get(str(_t(k)))
        if str(_t(k)) in d.removed:
            inb = False
        if d.base is None or inb is False:
            if k in d.defaults:
                return d.defaults[k]
            if must:
                raise _NoRec("missing key %r" % (k,))
            return default
        low = d.defaults.get(k, default)
        if inb is True:
            return _F("GET")(d.base, _t(k))
        return _F("GET")(d.base, _t(k), _t(low))

    def binop(self, op, a, b):
        if isinstance(op, ast.Add) and isinstance(a, (list, tuple)) and isinstance(b, type(a)):
            return a + b
        if isinstance(op, ast.Mod) and isinstance(a, (str, _Opq)):
            return _Opq("str")
        if isinstance(a, bool) or isinstance(b, bool):
            raise _NoRec("arithmetic on a flag")
        if isinstance(a, sp.Basic) and isinstance(b, sp.Basic):
            if isinstance(op, ast.Add):
                return a + b
            if isinstance(op, ast.Sub):
                return a - b
            if isinstance(op, ast.Mult):
                return a * b
            if isinstance(op, ast.Div):
                return a / b
            if isinstance(op, ast.Pow):
                return a ** b
            if isinstance(op, ast.BitAnd) and (_is_mask(a) or _is_mask(b)):
                return ANDF(a, b)
            if isinstance(op, ast.BitOr) and (_is_mask(a) or _is_mask(b)):
                return ORF(a, b)
            return _F("OP_" + type(op).__name__)(a, b)
        if isinstance(a, _Opq) or isinstance(b, _Opq):
            return _Opq("binop")
        raise _NoRec("arithmetic on %r and %r" % (a, b))

    def call(self, c, st, fi):
        f = c.func
        nm = call_name(c)
        full = None
        recv = None
        if isinstance(f, ast.Name):
            v = st.vars.get(f.id)
            if isinstance(v, _Opq) and v.text.startswith("mod:"):
                full = v.text[4:]
            elif v is None and f.id not in st.vars:
                full = self.repo.resolve_name(fi.module, f.id)
            else:
                raise _NoRec("call of the local `%s`" % f.id)
        elif isinstance(f, ast.Attribute):
            d = dotted_name(f)
            if d and d.split(".")[0] not in st.vars:
                full = self.repo.resolve_name(fi.module, d)
            else:
                recv = self.ev(f.value, st, fi)
                if isinstance(recv, _Opq) and recv.text.startswith("mod:"):
                    full, recv = recv.text[4:] + "." + nm, None
        else:
            # the callee is the value of an expression (an entry of a dispatch table): followed when it evaluates to a function of the package
            fv = self.ev(f, st, fi) if isinstance(f, (ast.Subscript, ast.IfExp)) else None
            if isinstance(fv, _Opq) and fv.text.startswith("mod:") and self.repo.has(fv.text[4:]):
                full = fv.text[4:]
            else:
                raise _NoRec("call `%s`" % norm(c)[:60])
        args = [self.ev(a, st, fi) for a in c.args if not isinstance(a, ast.Starred)]
        if any(isinstance(a, ast.Starred) for a in c.args):
            raise _NoRec("call with *args")
        kws = {}
        star = None
        for k in c.keywords:
            if k.arg:
                kws[k.arg] = self.ev(k.value, st, fi)
            else:
                star = self.ev(k.value, st, fi)
                if not isinstance(star, (_Kw, dict)):
                    raise _NoRec("call with ** of %r" % (star,))
        # methods on followed values
        if recv is not None:
            if isinstance(recv, (dict, _Kw)):
                if nm == "get" and args:
                    return self.kw_get(recv, args[0], args[1] if len(args) > 1 else None)
                if nm == "copy":
                    return dict(recv) if isinstance(recv, dict) else recv.copy()
                if nm == "pop" and 1 <= len(args) <= 2 and not kws and star is None:
                    return self.kw_pop(recv, args[0], args[1:])
                raise _NoRec("dictionary method `%s`" % nm)
            if isinstance(recv, list):
                raise _NoRec("list method `%s` in an expression" % nm)
            if isinstance(recv, sp.Basic):
                return self.np_call(nm, [recv] + args, kws, c, method=True)
            if isinstance(recv, _Opq):
                return _Opq("%s.%s()" % (recv.text, nm))
            if isinstance(recv, _Obj) and recv.frozen and nm not in recv.attrs and self.repo.has("%s.%s" % (recv.qual, nm)):
                return self.enter(self.repo.func("%s.%s" % (recv.qual, nm)), [recv] + args, kws, star, st)
            raise _NoRec("method `%s` of %r" % (nm, recv))
        if full is not None and self.repo.has(full):
            tgt = self.repo.func(full)
            if tgt.module is fi.module and tgt.name.startswith("_") and tgt.qualname != fi.qualname:
                return self.enter(tgt, args, kws, star, st)
            return self.package_call(tgt, args, kws, star)
        if full is not None and self.repo.class_of(full) is not None:
            cm, cd = self.repo.class_of(full)
            if cm is fi.module and self.record_class(cd):
                # a plain record class of this module: the instance is what its __init__ stores in it
                obj = _Obj(cd, full)
                self.enter(self.repo.func(full + ".__init__"), [obj] + args, kws, star, st)
                obj.frozen = True
                return obj
            raise _NoRec("instance of the class `%s`" % cd.name)
        if full is not None and (full.startswith("numpy") or full.startswith("math.") or full.startswith("scipy")):
            if star is not None:
                raise _NoRec("numpy call with **")
            return self.np_call(nm, args, kws, c, method=False, full=full)
        # builtins
        if isinstance(f, ast.Name):
            if nm == "len" and len(args) == 1:
                a = args[0]
                if isinstance(a, (list, tuple, dict, str)):
                    return sp.Integer(len(a))
                if isinstance(a, _Shape):
                    return _F("NDIM")(a.arr)
                if isinstance(a, sp.Basic):
                    return _csize(a) if self.one_d else DIM(a, sp.Integer(0))
            if nm in ("float", "int") and len(args) == 1 and isinstance(args[0], sp.Basic):
                return args[0] if nm == "float" else _F("INT")(args[0])
            if nm == "abs" and len(args) == 1 and isinstance(args[0], sp.Basic):
                return ABSF(args[0])
            if nm in ("min", "max") and len(args) >= 2 and not kws and star is None and all(isinstance(x, sp.Basic) for x in args):
                return _F("MINF" if nm == "min" else "MAXF")(*args)
            if nm == "dict":
                out = _Kw()
                self.kw_update(out, args, kws)
                if star is not None:
                    self.kw_update(out, [star], {})
                return out if out.base is not None else dict(out.explicit)
            if nm in ("list", "tuple") and len(args) <= 1:
                v = args[0] if args else []
                if isinstance(v, (list, tuple)):
                    return list(v) if nm == "list" else tuple(v)
            if nm in ("print", "repr", "str", "isinstance", "type"):
                return _Opq(nm)
        return _Opq("call:" + (full or nm or "?"))

    def np_call(self, nm, args, kws, c, method, full=None):
        a0 = args[0] if args else None
        if nm in (self.IDENT_M if method else self.IDENT_F) and isinstance(a0, sp.Basic):
            return a0
        if nm in ("sqrt",) and isinstance(a0, sp.Basic) and len(args) == 1:
            return sp.sqrt(a0)
        if nm in ("abs", "absolute", "fabs") and isinstance(a0, sp.Basic) and len(args) == 1:
            return ABSF(a0)
        if nm == "arange" and len(args) == 1 and isinstance(a0, sp.Basic) and not kws:
            return ARANGE(a0)
        if nm in ("where", "nonzero", "flatnonzero") and len(args) == 1 and isinstance(a0, sp.Basic):
            return WHERE(a0) if nm == "flatnonzero" else (WHERE(a0),)
        if nm == "count_nonzero" and len(args) == 1 and isinstance(a0, sp.Basic):
            return COUNT(a0)
        if nm == "argsort" and isinstance(a0, sp.Basic) and len(args) == 1 and not kws:
            return ARGSORT(a0)
        if nm in REDUCE and isinstance(a0, sp.Basic):
            rest = list(args[1:])
            kws = dict(kws)
            if rest and "axis" not in kws:
                kws["axis"] = rest.pop(0)
            if nm == "sum" and _is_mask(a0) and not rest and not kws:
                return COUNT(a0)
            if not rest:
                return _F(REDUCE[nm])(a0, *[_F("KW_" + k)(_t(v)) for k, v in sorted(kws.items())])
        if nm == "size" and len(args) == 1 and isinstance(a0, sp.Basic):
            return _csize(a0)
        if nm == "cumsum" and len(args) == 1 and isinstance(a0, sp.Basic) and (not kws or (set(kws) == {"axis"} and kws["axis"] in (0, None, sp.Integer(0)))):
            return CUMSUM(a0)
        if nm == "accumulate" and full in ("numpy.add.accumulate", "numpy.subtract.accumulate") and len(args) == 1 and isinstance(a0, sp.Basic) \
                and (not kws or (set(kws) == {"axis"} and kws["axis"] in (0, sp.Integer(0)))):
            if full == "numpy.add.accumulate":
                return CUMSUM(a0)           # r[0] = a[0], r[i] = r[i-1] + a[i]
            # subtract.accumulate over [s, X0, X1, ...] (a scalar put in front of a 1-d array) is the running difference
            # [s, s - X0, s - X0 - X1, ...]; without its first entry this is s - cumsum(X) (see subscript)
            if _head(a0) == "C_numpy.concatenate" and len(a0.args) == 1 and _head(a0.args[0]) == "TUPLE" and len(a0.args[0].args) == 2:
                first, rest = a0.args[0].args
                if _head(first) == "TUPLE" and len(first.args) == 1 and _head(rest) != "TUPLE" and _head(first.args[0]) != "TUPLE":
                    return _F("RUNDIFF")(first.args[0], rest)
        if nm == "searchsorted" and len(args) == 2 and all(isinstance(x, sp.Basic) for x in args) and set(kws) <= {"side"} and kws.get("side", "left") in ("left", "right"):
            # position of the first element that is >= v (side='left', the default) / > v (side='right')
            return FIRSTPOS(REL[ast.GtE if kws.get("side", "left") == "left" else ast.Gt](args[0], args[1]))
        if nm in ("minimum", "maximum") and len(args) == 2 and not kws and all(isinstance(x, sp.Basic) for x in args):
            return _F("MINF" if nm == "minimum" else "MAXF")(*args)
        if nm == "argmax" and len(args) == 1 and not kws and _is_mask(a0):
            return FIRSTPOS(a0)             # position of the first True (0 when there is none)
        if nm == "take" and len(args) == 2 and not kws and all(isinstance(x, sp.Basic) for x in args):
            return _idx(args[0], args[1])
        if nm == "compress" and len(args) == 2 and not kws and all(isinstance(x, sp.Basic) for x in args):
            return _idx(args[1], args[0]) if not method else _idx(args[0], args[1])
        if nm == "any" and len(args) == 1 and not kws and _is_mask(a0):
            return REL[ast.NotEq](COUNT(a0), sp.Integer(0))
        name = "C_" + (full or ("method." + nm))
        return _F(name)(*([_t(a) for a in args] + [_F("KW_" + k)(_t(v)) for k, v in sorted(kws.items())]))

    def package_call(self, tgt, args, kws, star):
        pos = [p for p in tgt.params if not p.startswith("*")]
        if len(args) > len(pos):
            raise _NoRec("too many arguments for %s" % tgt.name)
        bound = dict(zip(pos, args))
        bound.update(kws)
        terms = [_F("KW_" + k)(_t(v)) for k, v in sorted(bound.items())]
        if star is not None:
            s = star if isinstance(star, _Kw) else _Kw(explicit=star)
            dup = set(s.explicit) & set(bound)
            if dup:
                raise _NoRec("keyword given twice: %s" % sorted(dup))
            terms += _kwargs_terms(s)
        return _F("C_" + tgt.qualname)(*terms)

    @staticmethod
    def record_class(cd):
        """is the class a plain record: no decorators, no bases but object, no metaclass, and a body of nothing but a docstring,
        __slots__ and undecorated methods, among them __init__ and no other hook into construction or attribute access (so that
        `C(...)` runs __init__ on a fresh instance, `self.a = v` stores v and `obj.a` reads it back)"""
        if cd.decorator_list or cd.keywords or any(not (isinstance(b, ast.Name) and b.id == "object") for b in cd.bases):
            return False
        names = set()
        for x in cd.body:
            if isinstance(x, ast.Expr) and isinstance(x.value, ast.Constant) and isinstance(x.value.value, str):
                continue
            if isinstance(x, ast.Assign) and len(x.targets) == 1 and isinstance(x.targets[0], ast.Name) and x.targets[0].id == "__slots__":
                continue
            if isinstance(x, ast.FunctionDef) and not x.decorator_list:
                names.add(x.name)
                continue
            return False
        hooks = {n for n in names if n.startswith("__") and n.endswith("__")} - {"__init__", "__repr__", "__str__", "__len__", "__eq__", "__ne__"}
        return "__init__" in names and not hooks

    def enter(self, tgt, args, kws, star, st):
        if star is not None:
            raise _NoRec("helper called with **")
        if len(self.entered) > 8 or tgt.qualname in self.entered:
            raise _NoRec("helper nesting")
        pos = [p for p in tgt.params if not p.startswith("*")]
        init = dict(zip(pos, args))
        init.update(kws)
        tmp = _PState()
        for p in pos:
            if p not in init:
                if p not in tgt.defaults:
                    raise _NoRec("argument %s of %s" % (p, tgt.name))
                init[p] = self.ev(tgt.defaults[p], tmp, tgt)
        s0 = _PState()
        s0.vars = init
        s0.cons = list(st.cons)
        self.entered.add(tgt.qualname)
        self.seen_helpers.add(tgt.qualname)
        try:
            outs = [(status, s) for status, s in self.block(tgt.node.body, s0, tgt) if status[0] != "raise"]
        finally:
            self.entered.discard(tgt.qualname)
        if len(outs) != 1 or len(outs[0][1].cons) != len(st.cons):
            raise _NoRec("the helper %s branches on a test the state does not decide" % tgt.name)
        status = outs[0][0]
        return status[1] if status[0] == "return" else None


def _implied(t, cons):
    """truth of condition t when the path constraints decide it (three-valued evaluation over the atomic facts), else None"""
    facts = {}
    for c, tr in cons:
        facts[c] = tr
        for x, xt in _flat_cons(c, tr):
            facts[x] = xt

    def tv(x):
        if x in facts:
            return facts[x]
        h = _head(x)
        if h == "NOT":
            v = tv(x.args[0])
            return None if v is None else (not v)
        if h in ("AND", "OR"):
            vs = [tv(y) for y in x.args]
            if h == "AND":
                return False if False in vs else (True if all(v is True for v in vs) else None)
            return True if True in vs else (False if all(v is False for v in vs) else None)
        return None
    # unit propagation: a false conjunction whose other members hold makes the last one false (dually for a true disjunction)
    for _ in range(4):
        grew = False
        for c, tr in list(facts.items()):
            h = _head(c)
            if (h == "AND" and tr is False) or (h == "OR" and tr is True):
                open_ = [y for y in c.args if tv(y) is None]
                rest_ok = all(tv(y) is (h == "AND") for y in c.args if tv(y) is not None)
                if len(open_) == 1 and rest_ok:
                    y, val = open_[0], (h == "OR")
                    while _head(y) == "NOT":
                        y, val = y.args[0], not val
                    if y not in facts:
                        facts[y] = val
                        grew = True
        if not grew:
            break
    return tv(t)


def _as_load(t):
    import copy
    t2 = copy.deepcopy(t)
    for x in ast.walk(t2):
        if hasattr(x, "ctx"):
            x.ctx = ast.Load()
    return t2


def _kwterms(t):
    """{keyword: value term} of a package-call term C_<qualname>(KW_x(v), ...)"""
    out = {}
    for a in t.args:
        h = _head(a)
        if h.startswith("KW_"):
            out[h[3:]] = a.args[0]
        else:
            out["?" + h] = a
    return out


def _stat_role(t, wmom_q):
    """classify a term as a statistic of a sample: (role, data term, weights term or None) with role in mean / sdev / err, else None.
    unweighted: D.mean(), D.std(), D.std()/sqrt(n); weighted: the components of wmom(D, W, calcerr=True, sdev=True), which returns
    (mean, error, deviation)"""
    h = _head(t)
    if h == "MEAN" and len(t.args) == 1:
        return ("mean", t.args[0], None)
    if h == "STD" and len(t.args) == 1:
        return ("sdev", t.args[0], None)
    if h == "ITEM" and _head(t.args[0]) == "C_" + wmom_q:
        kw = _kwterms(t.args[0])
        d, w = kw.get("arrin"), kw.get("weights_in")
        extra = set(kw) - {"arrin", "weights_in", "calcerr", "sdev", "inputmean"}
        if d is None or w is None or extra or kw.get("inputmean", NONE_) != NONE_ or kw.get("sdev") != TRUE_:
            return None
        k = int(t.args[1])
        if k == 0:
            return ("mean", d, w)
        if k == 2:
            return ("sdev", d, w)
        if k == 1 and kw.get("calcerr") == TRUE_:
            return ("err", d, w)
        return None
    stds = [a for a in t.atoms(sp.core.function.AppliedUndef) if _head(a) == "STD" and len(a.args) == 1] if isinstance(t, sp.Basic) else []
    for a in stds:
        if sp.expand(t - a / sp.sqrt(_csize(a.args[0]))) == 0:
            return ("err", a.args[0], None)
    return None


def _count_fact(t, truth):
    """(mask, kind, other) for a path constraint about the number of selected points: kind in zero / nonzero / eq / ne / ge / lt"""
    r = _count_facts(t, truth)
    return r[0] if r else None


_SWAP = {"LT": "GT", "LE": "GE", "GT": "LT", "GE": "LE", "EQ": "EQ", "NE": "NE"}


def _count_facts(t, truth):
    """every reading (mask, kind, other) of a path constraint as a statement about the number of selected points.  The count may stand
    on either side of the relation (`n == w.size` is `w.size == n`, `n <= w.size` is `w.size >= n`); a count used as a test by itself
    is `count != 0`; a relation between two counts (the points kept now against the points kept by the pass before) can be read from
    either side and both readings are given, the left-hand one first: the caller takes the one whose mask is a keep selection"""
    h = _head(t)
    if h == "NOT":
        return _count_facts(t.args[0], not truth)
    if h == "COUNT":
        t, h = REL[ast.NotEq](t, sp.Integer(0)), "NE"
    if h not in RELNAMES:
        return []
    if not truth:
        h = NEG[h]
    out = []
    for a, b, hh in ((t.args[0], t.args[1], h), (t.args[1], t.args[0], _SWAP[h])):
        if _head(a) != "COUNT":
            continue
        c = a.args[0]
        if b == 0:
            out.append((c, {"EQ": "zero", "LE": "zero", "NE": "nonzero", "GT": "nonzero"}.get(hh, "other"), b))
        elif b == 1 and hh in ("LT", "GE"):
            out.append((c, "zero" if hh == "LT" else "nonzero", b))
        else:
            out.append((c, {"EQ": "eq", "NE": "ne", "GE": "ge", "LT": "lt"}.get(hh, "other"), b))
    return out


def _int_bounds(cons, n, lo=0):
    """bounds [lo, hi] that the path constraints put on the integer n (n >= lo assumed), and whether every constraint that mentions n was read"""
    hi = None
    read = True
    for t, truth in cons:
        h = _head(t)
        if not isinstance(t, sp.Basic) or n not in t.free_symbols:
            continue
        if h not in RELNAMES:
            read = False
            continue
        d = sp.expand(t.args[0] - t.args[1])
        p, q = d.coeff(n, 1), d.coeff(n, 0)
        if sp.expand(d - p * n - q) != 0 or not (p.is_Integer and q.is_Integer) or abs(int(p)) != 1:
            read = False
            continue
        if not truth:
            h = NEG[h]
        if int(p) == -1:
            q = -q
            h = {"LT": "GT", "LE": "GE", "GT": "LT", "GE": "LE", "EQ": "EQ", "NE": "NE"}[h]
        v = -int(q)                     # n (h) v
        if h == "LT":
            hi = v - 1 if hi is None else min(hi, v - 1)
        elif h == "LE":
            hi = v if hi is None else min(hi, v)
        elif h == "GT":
            lo = max(lo, v + 1)
        elif h == "GE":
            lo = max(lo, v)
        elif h == "EQ":
            lo = max(lo, v)
            hi = v if hi is None else min(hi, v)
        elif h == "NE":
            if v == lo:
                lo += 1
            if hi is not None and v == hi:
                hi -= 1
    return lo, hi, read


class _Agg:
    """verdict of a rule instance over all paths: False as soon as one path contradicts it, else None if one could not be read"""

    def __init__(self):
        self.v = {}

    def put(self, key, ok, why=""):
        if callable(why):
            why = why() if ok is not True else ""
        cur = self.v.get(key)
        if cur is None:
            self.v[key] = [ok, why if ok is not True else "", 1]
            return
        cur[2] += 1
        if cur[0] is False:
            return
        if ok is False or (ok is None and cur[0] is True):
            cur[0], cur[1] = ok, why

    def get(self, key):
        return self.v.get(key, [None, "no path reached this rule", 0])


def clipping(chk, repo):
    fi = repo.func(ST + "sigma_clip")
    chk.analysed_unit(fi.qualname)
    wmom_q = ST + "wmom"
    A, W, NITER, NSIG = sp.Symbol("A"), sp.Symbol("W"), sp.Symbol("niter", integer=True), sp.Symbol("nsig")
    GE_, GI_ = sp.Symbol("get_err"), sp.Symbol("get_indices")
    pos = [p for p in fi.params if not p.startswith("*")]
    need = ("weights", "niter", "nsig", "get_err", "get_indices")
    agg = _Agg()
    npaths = 0
    norec = None
    ALL = ARANGE(SIZE(A))
    where = fi.where()
    if not all(p in pos for p in need):
        norec = "the public parameters %s are not all present" % (need,)
    else:
        try:
            for w in (None, W):
                init = {pos[0]: A, "weights": w, "niter": NITER, "nsig": NSIG, "get_err": GE_, "get_indices": GI_}
                for p in pos[1:]:
                    if p not in init:
                        init[p] = {} if p == "extra" else sp.Symbol(p)
                for p in fi.params:
                    if p.startswith("**"):
                        init[p[2:]] = {}
                px = _PX(repo, fi, one_d=True, max_body=3)
                outs = px.returns(init)
                for q in px.seen_helpers:
                    chk.analysed_unit(q)
                for rv, st in outs:
                    npaths += 1
                    _clip_path(agg, rv, st, w, A, W, NITER, NSIG, GE_, GI_, ALL, wmom_q)
        except (_NoRec, RecursionError, TypeError, ValueError, AttributeError, KeyError, IndexError) as ex:
            norec = str(ex)
    if npaths == 0 and norec is None:
        norec = "no path returns"
    tail = " [not read: %s]" % norec if norec else ""
    chk.ob("R18.clip", "sigma_clip::structure", None if norec else True, where,
           "every path through the routine (up to 3 passes of the loop, with and without weights) was followed in the term domain: %d paths%s" % (npaths, tail))
    texts = [
        ("sigma_clip::iteration-bound", "at most niter clipping passes (niter=0 gives none), and the loop only gives up for lack of passes after exactly niter of them"),
        ("sigma_clip::survivors-are-subset-of-current", "the surviving set is the current set restricted by the keep selection (indices = indices[keep]), starting from all points"),
        ("sigma_clip::lock-step::next pass", "every pass measures the points of the current surviving set against the statistics of that same set"),
        ("sigma_clip::lock-step::return", "the reported mean/deviation/error are those of the reported surviving set on every path"),
        ("sigma_clip::break-before-update", "on the early exits too (everything clipped / nothing changed) the reported statistics belong to the reported set"),
        ("sigma_clip::strict-keep-test", "points are kept when |x - mean| < nsig * deviation, strictly"),
        ("sigma_clip::termination-tests", "the loop stops only when everything would be clipped, nothing changed, or niter passes are done"),
        ("sigma_clip::previous-count-tracked", "the number of kept points is compared with the size of the current surviving set"),
        ("sigma_clip::result-order", "results are mean, deviation, [error], [indices] in this order"),
        ("sigma_clip::optional-result::e", "the error is returned exactly under get_err"),
        ("sigma_clip::optional-result::indices", "the indices are returned exactly under get_indices"),
        ("sigma_clip::statistics[unweighted]", "without weights: mean, std and std/sqrt(n) of the subset"),
        ("sigma_clip::statistics[weighted]", "with weights: wmom(subset, subset weights, calcerr=True, sdev=True) read as (mean, error, deviation)"),
        ("sigma_clip::same-indices-for-data-and-weights", "data and weights are restricted by the same index set"),
    ]
    for key, text in texts:
        ok, why, n = agg.get(key)
        if norec:
            ok, why = None, norec
        chk.ob("R18.clip", key, ok, where, "%s (%d paths)%s" % (text, n, (": " + why) if why else ""))


_REDUCERS = {"MEAN", "STD", "VAR", "MEDIAN", "SUM", "MIN", "MAX", "COUNT", "SIZE", "ITEM", "FIRSTPOS"}


def _bases_of(ALL):
    """the arrays whose subsets are followed: the data (ALL is ARANGE(SIZE(data))) and the weights"""
    return (ALL.args[0].args[0], sp.Symbol("W"))


def _mask_domain(m, ALL):
    """the index set the element-wise condition m is evaluated over: the set of every data / weights subset that occurs in it outside
    a reduction (they must all be the same set); None when there is none or they differ"""
    found = set()

    def walk(t):
        if not isinstance(t, sp.Basic):
            return
        for b in _bases_of(ALL):
            j = _set_of(t, b, ALL)
            if j is not None:
                found.add(j)
                return
        h = _head(t)
        if h in _REDUCERS or h.startswith("C_"):
            return
        for a in t.args:
            walk(a)
    walk(m)
    return found.pop() if len(found) == 1 else None


def _rooted(j, ALL):
    """is the index-set term a chain ALL -> ALL[sel0] -> ALL[sel0][sel1] ... (positions in the full array)"""
    while _head(j) == "IDX":
        j = j.args[0]
    return j == ALL


def _canon_set(j, ALL):
    """one spelling for every index set, keeping what it denotes (positions in the full array): the chain
    ALL -> IDX(ALL, WHERE(c0)) -> IDX(IDX(ALL, WHERE(c0)), WHERE(c1)) ...
      * a boolean selection and the positions where it holds select the same elements: J[c] is J[WHERE(c)]
      * positions in the full array looked up in arange(n) are themselves: ALL[K] is K for a chain K
      * the positions where a condition over the FULL array holds are ALL[WHERE(c)] (a condition over a subset gives positions within
        that subset: left as it is, and judged where it is used)"""
    if not isinstance(j, sp.Basic) or j == ALL:
        return j
    h = _head(j)
    if h == "WHERE" or _is_mask(j):
        c = j.args[0] if h == "WHERE" else j
        return IDX(ALL, WHERE(c)) if _mask_domain(c, ALL) == ALL else j
    if h == "IDX":
        inner, sel = _canon_set(j.args[0], ALL), j.args[1]
        if _head(sel) == "WHERE" or _is_mask(sel):
            return IDX(inner, WHERE(sel.args[0] if _head(sel) == "WHERE" else sel))
        if inner == ALL:
            k = _canon_set(sel, ALL)
            if _rooted(k, ALL):
                return k
        return IDX(inner, sel)
    return j


def _set_of(x, base, ALL):
    """the index set J (canonical chain form) such that x is base[J] (ALL when x is base itself), else None.  A subset of a subset
    composes: (base[J])[K] is base[J[K]], so data that is narrowed in step with the index list and data that is re-indexed from the
    full array by the accumulated index list give the same set"""
    if x == base:
        return ALL
    if _head(x) == "IDX":
        inner = _set_of(x.args[0], base, ALL)
        if inner is not None:
            return _canon_set(IDX(inner, x.args[1]), ALL)
    return None


def _stat_like(t, wmom_q):
    """is the term an arithmetic combination of statistics (mean / std / a component of wmom); what an index set or a selection
    was computed from does not count"""
    if not isinstance(t, sp.Basic):
        return False
    if isinstance(t, (sp.Add, sp.Mul, sp.Pow)):
        return any(_stat_like(a, wmom_q) for a in t.args)
    h = _head(t)
    return h in ("MEAN", "STD", "VAR", "MEDIAN") or (h == "ITEM" and _head(t.args[0]) == "C_" + wmom_q)


def _and3(*vals):
    """three-valued conjunction: False wins, then None (not read), else True"""
    vals = list(vals)
    return False if any(v is False for v in vals) else (None if any(v is None for v in vals) else True)


def _opaque_term(t, known=()):
    """does the term contain something the term domain does not interpret (a call other than the known constructors, an unread test)"""
    if not isinstance(t, sp.Basic):
        return False
    for a in t.atoms(sp.core.function.AppliedUndef):
        h = _head(a)
        if (h.startswith(("C_", "OP_", "ATTR_")) or h in ("IDXN", "ITE", "GET")) and h not in known:
            return True
    return any(str(x).startswith(("TEST<", "OPAQUE<")) for x in t.free_symbols)


def _clip_path(agg, rv, st, w, A, W, NITER, NSIG, GE_, GI_, ALL, wmom_q):
    cons = st.cons
    ge, gi = _implied(GE_, cons), _implied(GI_, cons)
    mentioned = set().union(*[c.free_symbols for c, _ in cons if isinstance(c, sp.Basic)]) if cons else set()
    if not isinstance(rv, (list, tuple)) or len(rv) < 2 or not all(isinstance(x, sp.Basic) for x in rv):
        agg.put("sigma_clip::result-order", None, lambda: "returned value %r" % (rv,))
        return
    rv = list(rv)
    roles = [_stat_role(t, wmom_q) for t in rv]
    skey = "sigma_clip::statistics[%s]" % ("weighted" if w is not None else "unweighted")
    known = ("C_" + wmom_q,)

    def subset_of(x, base):
        """the index set of the subset x of base; False when x is not read as a subset of base"""
        j = _set_of(x, base, ALL)
        return False if j is None else j

    def chain_form(j):
        return j == ALL or _is_index_array(j) or _head(j) == "WHERE" or _is_mask(j) or (_head(j) == "IDX" and j.args[0] == ALL)
    # -- the reported set
    extra = st.vars.get("extra")
    I = extra.get("indices") if isinstance(extra, dict) else None
    last = "set" if (_is_index_array(rv[-1]) or rv[-1] == ALL or (I is not None and rv[-1] == I)) else \
        ("stat" if (roles[-1] is not None or _stat_like(rv[-1], wmom_q)) else "unknown")
    last_is_set = last == "set"
    if gi is True:
        agg.put("sigma_clip::optional-result::indices", None if last == "unknown" else (last_is_set and (I is None or rv[-1] == I)),
                lambda: "with get_indices the result ends with %s%s" % (str(rv[-1])[:200], "" if I is None else " while extra['indices'] is %s" % str(I)[:200]))
        if last_is_set and I is None:
            I = rv[-1]
    elif gi is False:
        agg.put("sigma_clip::optional-result::indices", None if last == "unknown" else not last_is_set, lambda: "without get_indices the result ends with %s" % str(rv[-1])[:200])
    else:
        # both values of get_indices follow this path: the result cannot be right for both
        agg.put("sigma_clip::optional-result::indices", None if (GI_ in mentioned or last == "unknown") else False,
                lambda: "the result does not depend on get_indices on this path (it ends with %s)" % str(rv[-1])[:80])
    if last == "unknown":
        agg.put("sigma_clip::result-order", None, lambda: "the last result is %s" % str(rv[-1])[:200])
        return
    vals = rv[:-1] if last_is_set else rv
    vroles = roles[:-1] if last_is_set else roles
    names = [r[0] if r else None for r in vroles]
    if ge is True:
        agg.put("sigma_clip::optional-result::e", len(vals) == 3, lambda: "with get_err %d statistics are returned" % len(vals))
    elif ge is False:
        agg.put("sigma_clip::optional-result::e", len(vals) == 2, lambda: "without get_err %d statistics are returned" % len(vals))
    else:
        agg.put("sigma_clip::optional-result::e", None if GE_ in mentioned else False, lambda: "the result does not depend on get_err on this path (%d statistics are returned)" % len(vals))
    want = ["mean", "sdev", "err"][:len(vals)]
    if None in names:
        k = names.index(None)
        # a value built from mean/std/wmom that is none of the three definitions contradicts them; anything else is not read
        bad = False if (_stat_like(vals[k], wmom_q) and not _opaque_term(vals[k], known)) else None
        agg.put(skey, bad, lambda: "result %d is %s" % (k, str(vals[k])[:300]))
        agg.put("sigma_clip::result-order", None, lambda: "result %d is not one of the defined statistics: %s" % (k, str(vals[k])[:200]))
        return
    agg.put("sigma_clip::result-order", names == want, lambda: "the results are %s" % names)
    if I is None:
        I = _set_of(vroles[0][1], A, ALL)       # no set is reported on this path: the set the mean belongs to
    I = _canon_set(I, ALL)
    if I is None or not chain_form(I):
        agg.put("sigma_clip::lock-step::return", None, lambda: "the surviving set is %s and the mean is taken over %s" % (I, vroles[0][1]))
        return
    # -- statistics: definitions, and they belong to the reported set
    agg.put(skey, all((r[2] is None) == (w is None) for r in vroles), lambda: "statistics %s weights although weights were %s" % ("without" if w is not None else "with", "given" if w is not None else "not given"))
    dsets = [subset_of(r[1], A) for r in vroles]
    wsets = [subset_of(r[2], W) for r in vroles if r[2] is not None]
    sync = _and3(*[(None if j is False else j == I) for j in dsets + wsets])
    agg.put("sigma_clip::lock-step::return", sync, lambda: "reported set %s, statistics taken over %s" % (I, sorted({str(r[1]) for r in vroles})))
    if w is not None:
        pairs = {(r[1], r[2]) for r in vroles if r[2] is not None}
        agg.put("sigma_clip::same-indices-for-data-and-weights",
                _and3(*[(None if (subset_of(d, A) is False or subset_of(x, W) is False) else subset_of(d, A) == subset_of(x, W)) for d, x in pairs]),
                lambda: "statistics of (data, weights) = %s" % sorted(map(str, pairs))[:2])
    # -- the chain of surviving sets
    gens = []           # (set, keep condition that produced the next one)
    cur = I
    ok_chain, why = True, ""
    while cur != ALL:
        if _head(cur) == "IDX" and (_is_index_array(cur.args[0]) or cur.args[0] == ALL):
            sel = cur.args[1]
            c = sel.args[0] if _head(sel) == "WHERE" else sel
            if not _is_mask(c):
                ok_chain, why = None, "selection %s" % sel
                break
            gens.append((cur.args[0], c))
            cur = cur.args[0]
        elif _head(cur) == "WHERE" or _is_mask(cur):
            # (positions where a condition over the full array holds were given the chain form ALL[WHERE(c)] above)
            over = _mask_domain(cur.args[0] if _head(cur) == "WHERE" else cur, ALL)
            ok_chain, why = (None if over is None else False), "positions selected within the current subset (%s) are used as positions in the full array" % str(cur)[:120]
            break
        else:
            ok_chain, why = None, "surviving set %s" % str(cur)[:200]
            break
    gens.reverse()
    agg.put("sigma_clip::survivors-are-subset-of-current", ok_chain, why)
    if ok_chain is not True:
        return
    k = len(gens)

    def keep_of(c, Ig):
        """(strict?, measured on the set Ig and its statistics? (None: not read), text) for a keep condition c; None when c is not read as a keep test"""
        h = _head(c)
        if h not in ("LT", "LE", "GT", "GE"):
            return None
        small, big = (c.args[0], c.args[1]) if h in ("LT", "LE") else (c.args[1], c.args[0])
        # |x - m| < nsig*s, |x - m|/s < nsig, |x - m|/nsig < s ...: one |.| and what it is compared with, per unit of nsig
        q = small / big
        fac = sp.Mul.make_args(q)
        ab = [f for f in fac if _head(f) == "ABS"]
        if len(ab) != 1 or not any(f == 1 / NSIG for f in fac):
            return None
        scale = sp.Mul(*[1 / f for f in fac if f is not ab[0] and f != 1 / NSIG])
        Wb = None if w is None else W
        terms = sp.Add.make_args(sp.expand(ab[0].args[0]))
        rs = _stat_role(scale, wmom_q)
        if len(terms) != 2 or rs is None:
            return None
        for a, b in (terms, terms[::-1]):
            for sign in (1, -1):
                rm = _stat_role(sign * a, wmom_q)           # |b + a| with a = -mean, or |a + b| with a = mean and b = -data
                if rm is None:
                    continue
                data = -sign * b

                def on(x, base):
                    if x is None or base is None:
                        return x is None and base is None
                    j = _set_of(x, base, ALL)
                    return None if j is None else j == Ig
                cur_ok = _and3(rm[0] == "mean", rs[0] == "sdev", on(data, A), on(rm[1], A), on(rs[1], A), on(rm[2], Wb), on(rs[2], Wb))
                return (h in ("LT", "GT"), cur_ok, lambda: "keep test %s (centre: %s, scale: %s) while the current set is %s" % (str(c)[:300], rm[0], rs[0], Ig))
        return None
    for Ig, c in gens:
        r = keep_of(c, Ig)
        if r is None:
            agg.put("sigma_clip::strict-keep-test", None, lambda: "keep selection %s" % str(c)[:300])
            agg.put("sigma_clip::lock-step::next pass", None, lambda: "keep selection %s" % str(c)[:300])
        else:
            agg.put("sigma_clip::strict-keep-test", r[0], r[2])
            agg.put("sigma_clip::lock-step::next pass", r[1], r[2])
    # -- why the loop ended: constraints about the keep selection on the final set
    reason = None
    unread = False
    def reading(cf):
        """a count constraint read as a statement about the keep selection c: the set the selection was made from (owner), the keep
        test when it is the selection on the final set, and whether the count is compared with the size of that set"""
        c, kind, other = cf
        owner, r = None, None
        for Ig, cg in gens:
            if c == cg:
                owner = Ig
        if owner is None:
            r = keep_of(c, I)
            if r is not None and r[1]:
                owner = I
        tracked = "n/a"
        if owner is not None and kind in ("eq", "ne", "ge", "lt"):
            tracked = None if _opaque_term(other, known) else sp.expand(other - _csize(owner)) == 0
        return c, kind, other, owner, r, tracked
    for t, truth in cons:
        cfs = _count_facts(t, truth)
        if not cfs:
            if _opaque_term(t, known):
                unread = True       # a test this rule does not interpret may be what ended the loop
            continue
        # (a relation between two counts is the same relation read from either side: the reading in which a keep selection is compared
        # with the size of the set it was made from, when there is one, else the left-hand one)
        reads = [reading(cf) for cf in cfs]
        c, kind, other, owner, r, tracked = ([x for x in reads if x[5] is True] or reads)[0]
        if owner is None or r is not None:
            if r is None or r[1] is None:
                unread = True
            if r is not None:
                agg.put("sigma_clip::strict-keep-test", r[0], r[2])
                agg.put("sigma_clip::lock-step::next pass", r[1], r[2])
                if r[1]:
                    if kind == "zero":
                        reason = "all clipped"
                    elif kind in ("eq", "ge") and sp.expand(other - _csize(I)) == 0:
                        reason = "no change"
        if tracked != "n/a":
            agg.put("sigma_clip::previous-count-tracked", tracked,
                    lambda: "the number of points kept from the set %s is compared with %s" % (str(owner)[:80], other))
    lo, hi, nread = _int_bounds(cons, NITER, 0)
    if reason is not None:
        agg.put("sigma_clip::break-before-update", sync, lambda: "exit because of %s: reported set %s, statistics over %s" % (reason, I, sorted({str(r[1]) for r in vroles})))
        agg.put("sigma_clip::termination-tests", True)
        agg.put("sigma_clip::iteration-bound", True if lo >= k else (False if nread else None), lambda: "%d passes were made on a path where niter can be %d" % (k, lo))
    else:
        lim = hi is not None and hi <= k
        if not lim and (unread or not nread):
            lim = None          # the loop was left on a test this rule does not read
        agg.put("sigma_clip::termination-tests", lim, lambda: "after %d passes the loop ends although niter can be %s and the last selection was not compared with the set" % (k, "anything" if hi is None else hi))
        agg.put("sigma_clip::iteration-bound", _and3(True if lo >= k else (False if nread else None), lim), lambda: "%d passes on a path where niter is in [%s, %s]" % (k, lo, "inf" if hi is None else hi))


def _sign_form(t, truth):
    """a path constraint as (e, strict): `e > 0` (strict) or `e >= 0`; None for other constraints"""
    h = _head(t)
    if h == "NOT":
        return _sign_form(t.args[0], not truth)
    if h not in ("LT", "LE", "GT", "GE"):
        return None
    if not truth:
        h = NEG[h]
    a, b = t.args
    e = sp.expand(a - b) if h in ("GT", "GE") else sp.expand(b - a)
    return (e, h in ("GT", "LT"))


def _cum_relation(mask):
    """a selection over a running sum as (running-sum term, relation name, target): CUMSUM(.) REL target, solved for the running sum
    when it occurs linearly (total - cumsum <= half is cumsum >= total - half); None when the mask is not of this kind"""
    h = _head(mask)
    if h == "NOT" and _head(mask.args[0]) in RELNAMES:
        inner = mask.args[0]
        return _cum_relation(_F(NEG[_head(inner)])(*inner.args))
    if h not in ("LT", "LE", "GT", "GE"):
        return None
    d = sp.expand(mask.args[0] - mask.args[1])
    cums = [a for a in d.atoms(sp.core.function.AppliedUndef) if _head(a) == "CUMSUM"]
    if len(cums) != 1:
        return None
    c = cums[0]
    coef = d.coeff(c, 1)
    rest = sp.expand(d - coef * c)
    if not coef.is_number or coef == 0 or not coef.is_real or rest.has(c):
        return None
    if coef < 0:
        h = {"LT": "GT", "LE": "GE", "GT": "LT", "GE": "LE"}[h]
    return c, h, sp.expand(-rest / coef)


def _search_position(K, sizes):
    """read a position computed in closed form by the library search primitives over a running sum (non-decreasing: the weights are
    not negative) as `the first position whose running sum REL target`: returns (running-sum term, 'GE' | 'GT' | other relation, target,
    text) or None.  Accepted spellings: a.searchsorted(t, side=...) / np.searchsorted, np.argmax(mask), np.where(mask)[0][0] /
    flatnonzero(mask)[0], (mask).sum() / count_nonzero(mask) counting the positions still short of the target; optionally wrapped in
    int(.) and min(., size-1) (the position stays inside the array)."""
    for _ in range(4):
        h = _head(K)
        if h == "INT":
            K = K.args[0]
        elif h == "MINF" and len(K.args) == 2 and any(sp.expand(a - (n - 1)) == 0 for a in K.args for n in sizes):
            K = [a for a in K.args if not any(sp.expand(a - (n - 1)) == 0 for n in sizes)]
            if len(K) != 1:
                return None
            K = K[0]
        else:
            break
    h = _head(K)
    if h == "FIRSTPOS" or (h == "IDX" and _head(K.args[0]) == "WHERE" and K.args[1] == 0):
        mask = K.args[0] if h == "FIRSTPOS" else K.args[0].args[0]
        r = _cum_relation(mask)
        if r is None:
            return None
        return r[0], r[1], r[2], "the first position where %s" % str(mask)[:160]
    if h == "COUNT":
        # the number of positions whose running sum is still short of the target is the first position that is not
        r = _cum_relation(K.args[0])
        if r is None:
            return None
        return r[0], {"LT": "GE", "LE": "GT"}.get(r[1], "count-of-" + r[1]), r[2], "the number of positions where %s" % str(K.args[0])[:160]
    return None


def _blend_of_data(rv, A, S):
    """(text, smallest size, parity) when the term returned is positively read as a value that is NOT, for data in general position,
    one of the entries of A: an averaging reduction over the whole data (the median of an even number of points is the mean of the two
    central ones; a mean / weighted average of two or more distinct values lies strictly between them) or arithmetic on entries of the
    data that does not reduce to one entry ((A[s[k]] + A[s[k+1]])/2, the interpolating median).  The value is not an entry for every
    size >= `smallest size` of the given parity (None: both).  None when the term is not read as such a value."""
    if not isinstance(rv, sp.Basic):
        return None
    h = _head(rv)
    whole = lambda x: x == A or (_head(x) == "IDX" and x.args[0] == A and x.args[1] == S) or (_head(x) == "C_numpy.sort" and x.args and x.args[0] == A)
    kws = {_head(a)[3:] for a in rv.args[1:] if _head(a).startswith("KW_")} if rv.args else set()
    plain = [a for a in rv.args[1:] if not _head(a).startswith("KW_")] if rv.args else []
    if isinstance(rv, sp.core.function.AppliedUndef) and rv.args and whole(rv.args[0]):
        if h in ("MEDIAN", "C_numpy.nanmedian") and not plain and kws <= {"axis"}:
            return "the median of the data, for an even number of points the mean of the two central values", 2, 0
        if h in ("MEAN", "C_numpy.nanmean", "C_numpy.average") and len(plain) <= 1:
            return "an average over the data", 2, None
        if h in ("C_numpy.percentile", "C_numpy.nanpercentile", "C_numpy.quantile", "C_numpy.nanquantile") and len(plain) == 1 and kws <= {"axis"} \
                and plain[0].is_number and plain[0] == (50 if "percentile" in h else sp.Rational(1, 2)):
            # the default (linear) rule between the two neighbouring order statistics
            return "the linearly interpolated middle quantile of the data, for an even number of points the mean of the two central values", 2, 0
        return None
    if not isinstance(rv, (sp.Add, sp.Mul, sp.Pow)):
        return None
    elems = {}

    def strip(t):
        if _head(t) == "IDX" and t.args[0] == A:
            j = t.args[1]
            if j.is_Integer or (_head(j) == "IDX" and j.args[0] == S and j.args[1].is_Integer):
                return elems.setdefault(t, sp.Dummy("e%d" % len(elems)))
            raise _NoRec("entry %s" % t)
        if t.is_Number:
            return t
        if isinstance(t, (sp.Add, sp.Mul, sp.Pow)):
            return t.func(*[strip(a) for a in t.args])
        raise _NoRec("term %s" % t)
    try:
        r = sp.expand(strip(rv))
    except _NoRec:
        return None
    if not elems or r in elems.values() or not r.free_symbols:
        return None
    top = max(int(e.args[1] if e.args[1].is_Integer else e.args[1].args[1]) for e in elems)
    if min(int(e.args[1] if e.args[1].is_Integer else e.args[1].args[1]) for e in elems) < 0:
        return None
    return "arithmetic on %d entr%s of the data that is not one entry" % (len(elems), "y" if len(elems) == 1 else "ies"), max(top + 1, 2), None


def _equal_weights_sizes(cons, A, W, least, parity):
    """Feasibility of a path for the family of inputs `n >= 1 points in general position, every weight equal to one c > 0` (a part of
    the domain the property quantifies over: equal positive weights of every size): the path constraints are evaluated abstractly over
    that family -- W is the array of n entries c, any entry of it is c, its sum n*c, its min/max/mean/median c, a comparison with an array
    is the mask whose every entry has the truth of the comparison of the entries, all()/any() of such a mask (n >= 1) is that truth,
    the sizes of W and A are n -- which leaves relations p*n + q REL 0 with rational p, q once c > 0 is divided out; they are solved for
    the integer n.  Returns a size n >= `least` of the given parity (0 / 1 / None = any) that satisfies all of them, False when there
    is none, None when a constraint is not read (it mentions the data values, or something outside this vocabulary)."""
    c = sp.Symbol("c_", positive=True)
    n = sp.Symbol("n_", integer=True, positive=True)

    def ev(t):
        if t == W:
            return ("v", c)
        if not isinstance(t, sp.Basic):
            return None
        if t.is_Number:
            return ("s", t)
        h = _head(t)
        if h == "SIZE":
            if t.args[0] == A:
                return ("s", n)
            x = ev(t.args[0])
            return ("s", n) if x is not None and x[0] == "v" else None
        if h == "IDX":
            b = ev(t.args[0])
            if b is None or b[0] != "v":
                return None
            j = t.args[1]
            if _head(j) == "ARGSORT" and j.args[0] in (A, W):
                return b                    # every position once, in another order
            if not isinstance(j, sp.Basic) or _is_mask(j) or _is_index_array(j) or _head(j) in ("SLICE", "TUPLE"):
                return None
            return ("s", b[1])              # one entry, whichever
        if h in ("SUM", "MEAN", "MIN", "MAX", "MEDIAN", "STD", "VAR") and len(t.args) == 1:
            b = ev(t.args[0])
            if b is None or b[0] != "v":
                return None
            return ("s", n * b[1] if h == "SUM" else (sp.Integer(0) if h in ("STD", "VAR") else b[1]))
        if h in RELNAMES:
            a, b = ev(t.args[0]), ev(t.args[1])
            if a is None or b is None or a[0] not in "sv" or b[0] not in "sv":
                return None
            return ("m" if "v" in (a[0], b[0]) else "r", h, sp.expand(a[1] - b[1]))
        if h == "NOT":
            x = ev(t.args[0])
            return (x[0], NEG[x[1]], x[2]) if x is not None and x[0] in "rm" else None
        if h in ("C_numpy.all", "C_numpy.any", "C_method.all", "C_method.any", "C_numpy.alltrue") and len(t.args) == 1:
            x = ev(t.args[0])
            return ("r", x[1], x[2]) if x is not None and x[0] == "m" else None
        if h == "COUNT":
            x = ev(t.args[0])
            if x is None or x[0] != "m":
                return None
            lin = linear(x[2])
            if lin is None or lin[0] != 0:
                return None
            return ("s", n if holds(x[1], lin[1]) else sp.Integer(0))
        if isinstance(t, (sp.Add, sp.Mul, sp.Pow)):
            parts = [ev(a) for a in t.args]
            if any(p is None or p[0] not in "sv" for p in parts):
                return None
            return ("v" if any(p[0] == "v" for p in parts) else "s", t.func(*[p[1] for p in parts]))
        return None

    def linear(d):
        """d (a difference of two values of the family) as p*n + q up to the positive factor c"""
        d = sp.expand(d)
        if d.has(c):
            d = sp.expand(sp.cancel(d / c))
        if d.has(c) or not d.is_polynomial(n):
            return None
        p, q = d.coeff(n, 1), d.coeff(n, 0)
        if sp.expand(d - p * n - q) != 0 or not (p.is_Rational and q.is_Rational):
            return None
        return p, q

    def holds(h, v):
        return {"LT": v < 0, "LE": v <= 0, "GT": v > 0, "GE": v >= 0, "EQ": v == 0, "NE": v != 0}[h]

    rels = []
    flat, todo = [], list(cons)
    while todo:
        t, truth = todo.pop(0)
        if _head(t) == "NOT":
            todo.insert(0, (t.args[0], not truth))
        elif (_head(t) == "AND" and truth) or (_head(t) == "OR" and not truth):
            todo[0:0] = [(a, truth) for a in t.args]        # a conjunction that holds / a disjunction that fails: every member does
        else:
            flat.append((t, truth))
    for t, truth in flat:
        x = ev(t) if isinstance(t, sp.Basic) else None
        if x is None or x[0] != "r":
            return None
        lin = linear(x[2])
        if lin is None:
            return None
        rels.append((x[1] if truth else NEG[x[1]], lin[0], lin[1]))
    lo, hi, excl = max(int(least), 1), None, set()
    for h, p, q in rels:
        if p == 0:
            if not holds(h, q):
                return False
            continue
        v = -q / p                              # p*n + q h 0  <=>  n h' v
        if p < 0:
            h = {"LT": "GT", "LE": "GE", "GT": "LT", "GE": "LE", "EQ": "EQ", "NE": "NE"}[h]
        if h == "EQ":
            if not v.is_Integer:
                return False
            lo, hi = max(lo, int(v)), int(v) if hi is None else min(hi, int(v))
        elif h == "NE":
            if v.is_Integer:
                excl.add(int(v))
        elif h in ("GT", "GE"):
            lo = max(lo, int(sp.floor(v)) + 1 if h == "GT" else int(sp.ceiling(v)))
        else:
            b = int(sp.ceiling(v)) - 1 if h == "LT" else int(sp.floor(v))
            hi = b if hi is None else min(hi, b)
    k = lo
    while hi is None or k <= hi:
        if k not in excl and (parity is None or k % 2 == parity):
            return k
        k += 1
        if k > lo + 2 * len(excl) + 4:
            break
    return False


def wmedian(chk, repo):
    fi = repo.func(ST + "wmedian")
    chk.analysed_unit(fi.qualname)
    A, W = sp.Symbol("A"), sp.Symbol("W")
    SUMF = _F("SUM")
    S = ARGSORT(A)
    half = SUMF(W) / 2
    pos = [p for p in fi.params if not p.startswith("*")]
    agg = _Agg()
    norec, npaths, ks = None, 0, set()
    closed = False
    try:
        outs = _PX(repo, fi, one_d=True, max_body=4).returns({pos[0]: A, pos[1]: W})
        for rv, st in outs:
            npaths += 1
            # the value returned is one of the input values: an entry of the data, not a blend of several of them
            if isinstance(rv, sp.Basic) and _head(rv) == "IDX" and rv.args[0] == A and isinstance(rv.args[1], sp.Basic) \
                    and not _is_mask(rv.args[1]) and not _is_index_array(rv.args[1]) and _head(rv.args[1]) not in ("SLICE", "TUPLE"):
                agg.put("wmedian::returns-an-input-value", True)
            else:
                blend = _blend_of_data(rv, A, S)
                if blend is not None:
                    size = _equal_weights_sizes(st.cons, A, W, blend[1], blend[2])
                    agg.put("wmedian::returns-an-input-value", False if size else None, lambda: (
                        "%s is returned (%s) on a path taken by %d points with equal weights%s: that is in general not one of the input values, "
                        "let alone the smallest sorted one whose cumulative weight reaches half the total"
                        % (str(rv)[:120], blend[0], size, " (and by every larger %ssize that passes the same tests)" % ("even " if blend[2] == 0 else "")) if size else
                        "%s is returned (%s) on a path whose tests are not read for inputs with equal weights" % (str(rv)[:120], blend[0])))
            # the value returned: the data value at sorted position k
            k = None
            if isinstance(rv, sp.Basic) and _head(rv) == "IDX" and rv.args[0] == A and _head(rv.args[1]) == "IDX" and rv.args[1].args[0] == S and rv.args[1].args[1].is_Integer:
                k = int(rv.args[1].args[1])
            sorted_ok = k is not None
            if not sorted_ok and isinstance(rv, sp.Basic) and _head(rv) == "IDX" and rv.args[0] == A and rv.args[1].is_Integer:
                # (a path that first tests something else, e.g. the size of the input, may return a fixed element rightly: not read)
                # (tests that only keep the scan inside the input -- `size != 0`, `j < size` at the head of a loop over the entries -- and
                # leave the size unbounded above are not such a special case: the path is taken by inputs of every larger size)
                n_ = sp.Symbol("n_", integer=True)
                is_w = lambda t: isinstance(t, sp.Basic) and any(_head(a) == "IDX" and a.args[0] == W for a in t.atoms(sp.core.function.AppliedUndef))
                sized = [(t.xreplace({SIZE(A): n_, SIZE(W): n_}), tr) for t, tr in st.cons if isinstance(t, sp.Basic) and not is_w(t)]
                open_above = all(t.free_symbols == {n_} and not t.atoms(sp.core.function.AppliedUndef) - t.atoms(*[REL[o] for o in REL]) for t, _ in sized) \
                    and _int_bounds(sized, n_, 0)[1] is None and _int_bounds(sized, n_, 0)[2]
                only_weight_tests = all(isinstance(t, sp.Basic) for t, _ in st.cons) and any(is_w(t) for t, _ in st.cons) and open_above
                agg.put("wmedian::sorted-scan", False if only_weight_tests else None, lambda: "the value at position %s of the unsorted data is returned" % rv.args[1])
                continue
            if not sorted_ok and isinstance(rv, sp.Basic) and _head(rv) == "IDX" and rv.args[0] == A and _head(rv.args[1]) == "IDX" and rv.args[1].args[0] == S:
                # the stopping position is computed in closed form (running sum + library search) instead of by a scan
                sp_ = _search_position(rv.args[1].args[1], (SIZE(A), SIZE(W), _csize(S)))
                if sp_ is not None:
                    cum, relname, target, text = sp_
                    closed = True
                    agg.put("wmedian::sorted-scan", True)
                    agg.put("wmedian::returns-value-at-position", True)
                    tgt_ok = sp.expand(target - half) == 0
                    agg.put("wmedian::half-total", tgt_ok if (tgt_ok or not _opaque_term(target)) else None, lambda: "the running weight is compared with %s" % str(target)[:160])
                    over = cum.args[0] if len(cum.args) == 1 else None
                    order_ok = True if over == IDX(W, S) else (False if over == W or (_head(over) == "IDX" and over.args[0] == W and _is_index_array(over.args[1])) else None)
                    rel_ok = True if relname == "GE" else (False if relname in ("GT", "LT", "LE", "count-of-GE", "count-of-GT") else None)
                    agg.put("wmedian::scan", _and3(order_ok, rel_ok), lambda: (
                        "the position returned is %s, i.e. the first sorted value whose cumulative weight %s half the total, not the first that REACHES it (>=): "
                        "when a leading group of the sorted weights sums to exactly half the total the next larger value is returned"
                        % (text, {"GT": "EXCEEDS (>)"}.get(relname, "satisfies `%s`" % relname))) if order_ok else
                        "the running sum is taken over %s, not over the weights in sorted order" % str(over)[:120])
                    agg.put("wmedian::seed", _and3(order_ok, rel_ok), lambda: "position 0 is returned only when %s" % text)
                    continue
            agg.put("wmedian::sorted-scan", True if sorted_ok else None, lambda: "returned value %s" % str(rv)[:200])
            if k is None:
                continue
            ks.add(k)
            # the weight constraints on this path: remaining weight after removing sorted positions 0..j, against half the total
            rem = lambda j: SUMF(W) - sum(IDX(W, IDX(S, sp.Integer(i))) for i in range(j + 1))
            want = {(sp.expand(rem(j) - half), True) for j in range(k)} | {(sp.expand(half - rem(k)), False)}
            got = set()
            for t, truth in st.cons:
                if isinstance(t, sp.Basic) and any(_head(a) == "IDX" and a.args[0] == W for a in t.atoms(sp.core.function.AppliedUndef)):
                    sf = _sign_form(t, truth)
                    if sf is None:
                        agg.put("wmedian::scan", None, lambda: "weight test %s" % str(t)[:200])
                    else:
                        got.add(sf)
            tot_ok = all(sp.expand(e.xreplace({a: 0 for a in e.atoms(sp.core.function.AppliedUndef) if _head(a) == "IDX"})) in (half, -half) for e, _ in got) and bool(got)
            agg.put("wmedian::half-total", tot_ok, lambda: "weight tests %s" % sorted(map(str, got))[:3])
            agg.put("wmedian::returns-value-at-position", {e for e, _ in got} == {e for e, _ in want} or None if tot_ok else None, lambda: "stops at sorted position %d under %s" % (k, sorted(map(str, got))[:4]))
            if {e for e, _ in got} == {e for e, _ in want}:
                agg.put("wmedian::scan", got == want, lambda: "strictness of the weight tests: %s, expected remaining > half to go on, <= half to stop" % sorted(map(str, got))[:4])
            else:
                # the tests are about other partial sums than the value returned: decide what k they select
                agg.put("wmedian::scan", False if tot_ok else None, lambda: "returns sorted position %d when %s" % (k, sorted(map(str, got))[:4]))
            if k == 0:
                agg.put("wmedian::seed", got == want, lambda: "position 0 is returned when %s" % sorted(map(str, got)))
    except (_NoRec, RecursionError, TypeError, ValueError, AttributeError, KeyError, IndexError) as ex:
        norec = str(ex)
    short = None if ({0, 1, 2} <= ks or (closed and not ks)) else "only the stopping positions %s were reached" % sorted(ks)
    texts = [("wmedian::sorted-scan", "the value returned is the data value at a position of the argsort of the values"),
             ("wmedian::half-total", "half of the total weight is the target"),
             ("wmedian::scan", "advance through the sorted order while the remaining weight still exceeds half the total (strict >): stops at the first value whose cumulative weight reaches half "
                               "(closed form: the first position whose cumulative sorted weight is >= half the total)"),
             ("wmedian::seed", "sorted position 0 is returned when its weight alone reaches half the total"),
             ("wmedian::returns-value-at-position", "the value at the stopping position (in sorted order) is returned"),
             ("wmedian::returns-an-input-value", "the value returned is one entry of the data on every path inputs of every size can take (not the plain median / an average "
                                                 "/ a blend of neighbouring sorted values, which differ from every entry for data in general position)")]
    for key, text in texts:
        ok, why, n = agg.get(key)
        if norec:
            ok, why = None, norec
        elif ok is True and short:
            ok, why = None, short
        chk.ob("R18.wmed", key, ok, fi.where(), "%s (%d paths)%s" % (text, n, (": " + why) if why else ""))


def _kw_effective(call, name):
    """how keyword `name` reaches a delegated call: ('explicit', v) / ('default', v) under the caller's **kw / ('caller',) / ('absent',)"""
    rest = False
    for a in call.args:
        h = _head(a)
        if h == "KW_" + name:
            return ("explicit", a.args[0])
        if h == "KWREST":
            rest = True
    for a in call.args:
        if _head(a) == "KWDEFAULT_" + name:
            return ("default", a.args[0])
    return ("caller",) if rest else ("absent",)


def _options_withheld(call, callee):
    """options of the callee that the summary helper took out of the caller's keywords (kw.pop / del kw[...]) before handing them on
    and does not pass itself: the delegated routine then runs with its own default whatever the caller asked for.  Keys the callee
    does not name (they would end up in its **ignored keywords) and the switches that only print (verbose / silent) do not count."""
    gone = set()
    for a in call.args:
        if _head(a) == "KWREST":
            gone |= {str(x)[len("removed:"):].strip("'\"") for x in a.args[1:] if str(x).startswith("removed:")}
    named = {p for p in callee.params if not p.startswith("*")} - {"verbose", "silent"}
    return sorted(k for k in gone & named if _kw_effective(call, k)[0] != "explicit")


def summary(chk, repo):
    fi = repo.func(ST + "get_stats")
    chk.analysed_unit(fi.qualname)
    A, W, KW = sp.Symbol("A"), sp.Symbol("W"), sp.Symbol("KW")
    pos = [p for p in fi.params if not p.startswith("*")]
    kwname = [p[2:] for p in fi.params if p.startswith("**")]
    agg = _Agg()
    norec, npaths = None, 0
    ax0 = _F("KW_axis")(sp.Integer(0))
    col = _F("IDXN")(A, sp.Symbol(":"), sp.Symbol("newaxis"))
    clip_q, wmom_q = "C_" + ST + "sigma_clip", "C_" + ST + "wmom"
    try:
        if not kwname or "weights" not in pos:
            raise _NoRec("the public parameters weights / **kw")
        # the clipping routine's own signature: its data parameter, and whether leaving `weights` out means "no weights"
        cfi = repo.func(ST + "sigma_clip")
        cpos = [p for p in cfi.params if not p.startswith("*")]
        clip_data = cpos[0] if cpos else None
        ca = cfi.node.args
        cdef = dict(zip([a.arg for a in (ca.posonlyargs + ca.args)][-len(ca.defaults):] if ca.defaults else [], ca.defaults))
        cdef.update({a.arg: d for a, d in zip(ca.kwonlyargs, ca.kw_defaults) if d is not None})
        clip_unweighted_default = isinstance(cdef.get("weights"), ast.Constant) and cdef["weights"].value is None
        for w in (None, W):
            init = {pos[0]: A, "weights": w, kwname[0]: _Kw(base=KW)}
            for p in pos[1:]:
                init.setdefault(p, False if p == "doprint" else sp.Symbol(p))
            for rv, st in _PX(repo, fi, one_d=False, max_body=2).returns(init):
                npaths += 1
                if not isinstance(rv, dict):
                    agg.put("get_stats::result-keys", None, lambda: "returned value %r" % (rv,))
                    continue
                agg.put("get_stats::result-keys", set(rv) == {"mean", "std", "err", "min", "max"}, lambda: "keys %s" % sorted(map(str, rv)))
                if not {"mean", "std", "err", "min", "max"} <= set(rv):
                    continue
                agg.put("get_stats::min-max", rv["min"] == _F("MIN")(A, ax0) and rv["max"] == _F("MAX")(A, ax0), lambda: "min %s max %s" % (rv["min"], rv["max"]))
                # was clipping asked for on this path
                asked = {}
                for t, truth in st.cons:
                    for x, tr in _flat_cons(t, truth):
                        if _head(x) == "IN" and x.args[1] == KW:
                            asked[str(x.args[0])] = tr
                    if _head(t) == "OR" and truth and all(_head(x) == "IN" for x in t.args) and {str(x.args[0]) for x in t.args} == {"'nsig'", "'niter'"}:
                        asked["either"] = True
                clip = True if (asked.get("either") or asked.get("'nsig'") or asked.get("'niter'")) else (False if asked.get("'nsig'") is False and asked.get("'niter'") is False else None)
                trip = [rv["mean"], rv["std"], rv["err"]]
                # 1-d input handled as N-by-1 and converted back: strip the [0]
                strip = [t.args[0] if (_head(t) == "IDX" and t.args[1] == 0) else t for t in trip]
                scal = all(_head(t) == "IDX" and t.args[1] == 0 for t in trip)
                heads = {_head(t.args[0]) if _head(t) == "ITEM" else "" for t in strip}
                self_ok, self_why = _clipping_honoured(trip, st.cons, clip, asked, A, w, KW, clip_q, wmom_q, clip_data)
                agg.put("get_stats::clipping-honoured", self_ok, lambda: self_why)
                if clip is None:
                    agg.put("get_stats::clipped-roles", None, lambda: "whether clipping was requested is not read from %s" % str(st.cons)[:200])
                    continue
                if clip:
                    ok = heads == {clip_q} and len({t.args[0] for t in trip}) == 1 and [int(t.args[1]) for t in trip] == [0, 1, 2] and not scal
                    agg.put("get_stats::clipped-roles", ok, lambda: "mean/std/err are %s" % [str(t)[:80] for t in trip])
                    if ok:
                        c = trip[0].args[0]
                        kw = _kwterms(c)
                        agg.put("get_stats::options-set[get_err]", _kw_effective(c, "get_err") == ("explicit", TRUE_) and kw.get("arrin") == A
                                and (kw.get("weights") == _t(w) or (w is None and "weights" not in kw and clip_unweighted_default))
                                and _kw_effective(c, "get_indices") in (("caller",), ("absent",), ("explicit", FALSE_))
                                and not _options_withheld(c, cfi), lambda: "call %s%s" % (str(c)[:300], "".join(
                                    "; the caller's `%s` is removed from the keywords and not passed on" % k for k in _options_withheld(c, cfi))))
                elif w is not None:
                    ok = heads == {wmom_q} and len({t.args[0] for t in strip}) == 1 and [int(t.args[1]) for t in strip] == [0, 2, 1]
                    agg.put("get_stats::weighted-roles", ok, lambda: "mean/std/err are %s" % [str(t)[:80] for t in trip])
                    if ok:
                        c = strip[0].args[0]
                        kw = _kwterms(c)
                        data_ok = (kw.get("arrin") == col and scal) or (kw.get("arrin") == A and not scal)
                        agg.put("get_stats::options-set[sdev]", _kw_effective(c, "sdev") == ("explicit", TRUE_) and data_ok and kw.get("weights_in") == W
                                and not _options_withheld(c, repo.func(ST + "wmom")), lambda: "call %s%s" % (str(c)[:300], "".join(
                                    "; the caller's `%s` is removed from the keywords and not passed on" % k for k in _options_withheld(c, repo.func(ST + "wmom")))))
                        ce = _kw_effective(c, "calcerr")
                        agg.put("get_stats::options-set[calcerr]", ce in (("explicit", TRUE_), ("default", TRUE_)) or (ce == ("caller",) and asked.get("'calcerr'") is True), lambda: "calcerr reaches wmom as %s" % (ce,))
                else:
                    X = col if scal else A
                    n = DIM(X, sp.Integer(0))
                    want = [_F("MEAN")(X, ax0), _F("STD")(X, ax0), _F("STD")(X, ax0) / sp.sqrt(n)]
                    # counts that are the number of rows N by construction: the column form of 1-d data has N entries in all
                    # (and so has the 1-d array it was made from, on the path where the input is 1-d); ddof=0 is numpy's default
                    same_n = {SIZE(col): DIM(col, sp.Integer(0))}
                    if scal:
                        same_n.update({SIZE(A): n, DIM(A, sp.Integer(0)): n})
                    got3 = [t.xreplace(same_n).replace(lambda e: _head(e) in ("MEAN", "STD") and _F("KW_ddof")(sp.Integer(0)) in e.args,
                                                       lambda e: e.func(*[a for a in e.args if a != _F("KW_ddof")(sp.Integer(0))])) for t in strip]
                    diff = [nm_ for nm_, a, b in zip(("mean", "std", "err"), got3, want) if sp.expand(a - b) != 0]
                    ok = not diff
                    if diff:
                        # a contradiction is read only off terms made of the reductions and the counts; anything else is not recognised
                        heads = {_head(a) for t in got3 for a in t.atoms(sp.core.function.AppliedUndef)}
                        if heads - {"MEAN", "STD", "DIM", "SIZE", "IDXN", "KW_axis", "KW_ddof", "NDIM"} or any(_opaque_term(t) for t in got3):
                            ok = None
                    agg.put("get_stats::plain-definitions", ok, lambda: "for %s input `%s` is %s, not %s" % (
                        "1-d (handled as N-by-1)" if scal else "N-by-d", diff[0], str(got3[("mean", "std", "err").index(diff[0])])[:160],
                        str(want[("mean", "std", "err").index(diff[0])])[:120]))
    except (_NoRec, RecursionError, TypeError, ValueError, AttributeError, KeyError, IndexError) as ex:
        norec = str(ex)
    texts = [("get_stats::min-max", "min and max are those of the data (over rows)"),
             ("get_stats::clipped-roles", "with nsig/niter: sigma_clip(arr, weights=weights, get_err=True, **kw) read as (mean, deviation, error)"),
             ("get_stats::clipping-honoured", "whenever nsig/niter can be among the caller's keywords, each of mean/std/err is taken from a sigma_clip call on the data that is given the caller's weights"),
             ("get_stats::weighted-roles", "with weights: wmom(arr, weights, **kw) read as (mean, error, deviation)"),
             ("get_stats::options-set[get_err]", "get_err is switched on for the delegated sigma_clip call, which gets the data, the weights and the caller's keywords"),
             ("get_stats::options-set[sdev]", "sdev is switched on for the delegated wmom call, which gets the data (as N-by-1 when 1-d), the weights and the caller's keywords"),
             ("get_stats::options-set[calcerr]", "calcerr is on for the delegated wmom call unless the caller supplied it"),
             ("get_stats::plain-definitions", "unweighted: mean, std and std/sqrt(N) over rows"),
             ("get_stats::result-keys", "the result dict has the keys mean/std/err/min/max")]
    for key, text in texts:
        ok, why, n = agg.get(key)
        if norec:
            ok, why = None, norec
        chk.ob("R18.stats", key, ok, fi.where(), "%s (%d paths)%s" % (text, n, (": " + why) if why else ""))


def _clipping_honoured(trip, cons, clip, asked, A, w, KW, clip_q, wmom_q, clip_data):
    """(ok, why) for one path of the summary helper: when the caller's keywords can hold nsig (or are known to hold nsig / niter)
    on this path, every one of the reported mean / deviation / error is taken from the result of a sigma_clip call on the data
    that is given the caller's weights.  ok=False only when the reported terms are positively read as statistics of the whole
    array (a closed vocabulary of reductions / wmom components over the data with no selection anywhere) or when the clipping
    call is positively read as not receiving the weights; None when something is not read; True also when the path excludes clipping."""
    if clip is False:
        return True, ""
    if clip is None:
        # the path says nothing that decides the request: it is a path of a clipping request only if every constraint on it is
        # read, none of them excludes 'nsig' from the caller's keywords, and the keywords are constrained by membership tests alone
        if asked.get("'nsig'") is False:
            return None, "the path excludes nsig but does not decide niter: %s" % str(cons)[:160]
        for t, truth in cons:
            if not isinstance(t, sp.Basic) or _opaque_term(t):
                return None, "a test on the path is not read: %s" % str(t)[:120]
            if KW in t.free_symbols:
                for x, tr in _flat_cons(t, truth):
                    if not (_head(x) == "IN" and x.args[1] == KW and x.args[0] != KW):
                        return None, "a test on the caller's keywords is not a membership test: %s" % str(x)[:120]
            elif not t.free_symbols <= ({A, TRUE_, FALSE_, NONE_} | ({w} if w is not None else set())):
                return None, "a test on the path is not about the data or the weights: %s" % str(t)[:120]
    when = "with nsig/niter among the caller's keywords" if clip else "on a path taken whether or not nsig is among the caller's keywords"
    when += " and weights given" if w is not None else ""
    plain = {"ITEM", "IDX", "MEAN", "STD", "VAR", "DIM", "SIZE", "NDIM", "IDXN", "KWREST", wmom_q}
    verdicts = []
    for nm_, t in zip(("mean", "std", "err"), trip):
        if not isinstance(t, sp.Basic):
            return None, "`%s` is %r" % (nm_, t)
        apps = t.atoms(sp.core.function.AppliedUndef)
        calls = [a for a in apps if _head(a) == clip_q]
        if not calls:
            heads = {_head(a) for a in apps}
            closed = all(h in plain or h.startswith(("KW_", "KWDEFAULT_")) for h in heads)
            closed = closed and all(a.args[1].is_Integer for a in apps if _head(a) in ("IDX", "ITEM", "DIM"))
            closed = closed and not any(str(x).startswith(("TEST<", "OPAQUE<")) for x in t.free_symbols) and A in t.free_symbols
            if not closed:
                return None, "%s `%s` is not read: %s" % (when, nm_, str(t)[:160])
            verdicts.append((False, "%s `%s` is a statistic of the whole array, not taken from a sigma_clip result: %s" % (when, nm_, str(t)[:200])))
            continue
        for c in calls:
            kw = _kwterms(c)
            if clip_data is None or kw.get(clip_data) != A:
                return None, "%s the data given to sigma_clip is not read: %s" % (when, str(c)[:160])
            if w is None:
                continue
            eff = _kw_effective(c, "weights")
            if eff == ("explicit", w):
                continue
            if eff in (("absent",), ("caller",), ("explicit", NONE_)):
                # `weights` is a named parameter of the summary helper, so the caller's **kw cannot carry it
                verdicts.append((False, "%s `%s` comes from a sigma_clip call that is not given the caller's weights: %s" % (when, nm_, str(c)[:200])))
            else:
                return None, "%s the weights given to sigma_clip are not read: %s" % (when, str(c)[:160])
    for ok, why in verdicts:
        if ok is False:
            return False, why
    return True, ""


def _flat_cons(t, truth):
    h = _head(t)
    if h == "NOT":
        return _flat_cons(t.args[0], not truth)
    if (h == "AND" and truth) or (h == "OR" and not truth):
        return [y for x in t.args for y in _flat_cons(x, truth)]
    return [(t, truth)]


def boxcar(chk, repo):
    fi = repo.func(ST + "boxcar_average")
    chk.analysed_unit(fi.qualname)
    X, N = sp.Symbol("X"), sp.Symbol("N")
    pos = [p for p in fi.params if not p.startswith("*")]
    ok, why = None, ""
    try:
        outs = _PX(repo, fi, one_d=True, max_body=2).returns({pos[0]: X, pos[1]: N})
        if len(outs) != 1 or not isinstance(outs[0][0], sp.Basic):
            raise _NoRec("%d paths" % len(outs))
        rv = outs[0][0]
        why = str(rv)
        ok = False
        if _head(rv) == "SLICE" and sp.expand(rv.args[1] - (N - 1)) == 0 and rv.args[2] == NONE_ and rv.args[3] == NONE_ and _head(rv.args[0]) == "C_numpy.convolve":
            c = rv.args[0]
            kw = {_head(a): a.args[0] for a in c.args[2:]}
            mode_ok = set(kw) <= {"KW_mode"} and kw.get("KW_mode", sp.Symbol("'full'")) == sp.Symbol("'full'")
            operands = list(c.args[:2])
            if mode_ok and len(c.args) >= 2 and X in operands:
                kern = operands[1] if operands[0] == X else operands[0]
                ones = sp.cancel(kern * N)
                if _head(ones) == "C_numpy.ones":
                    shp = ones.args[0]
                    dk = {_head(a): str(a.args[0]).strip("'") for a in ones.args[1:]}
                    floaty = dk.get("KW_dtype", "f8") in ("f8", "float64", "float", "d", "OPAQUE<mod:numpy.float64>", "OPAQUE<mod:float>")
                    ok = (shp == N or shp == TUP(N)) and set(dk) <= {"KW_dtype"} and floaty
    except (_NoRec, RecursionError, TypeError, ValueError, AttributeError, KeyError, IndexError) as ex:
        why = "not read: %s" % ex
    chk.ob("R18.boxcar", "boxcar_average::normalised-window", ok, fi.where(), "convolution with N equal weights 1/N, dropping the N-1 leading partial sums (%s)" % why[:200])
