"""C18 -- weighted moments, clipping, interpolation and cov/cor follow their definitions."""
import ast

import sympy as sp

from vcheck import rules, symx
from vcheck.core import PyRepo, AnalysisError, call_name, dotted_name, kwarg, norm, walk_no_nested
from vcheck.rules import cfg_of
from checks.C06 import Spaces

MANIFEST = dict(
    text="Formula conformance by symbolic normal forms plus loop lock-step rules (not numerical testing): the weighted-moment routine is "
         "abstractly interpreted for every (inputmean, calcerr, sdev) setting with sums as uninterpreted linear functionals and compared "
         "with the documented definitions (sum(w x)/sum(w), 1/sqrt(sum w), sqrt(sum w^2 (x-m)^2)/sum w, sqrt(sum w (x-m)^2/sum w)); "
         "linear interpolation is compared with (u-x_k)(v_{k+1}-v_k)/(x_{k+1}-x_k)+v_k with k = clamp(searchsorted(x,u)-1, 0, n-2) "
         "(two-sided clamp gives straight-line extension); cov->cor and cor->cov element formulas and their symbolic inverse for a positive "
         "diagonal; the clipping loop keeps the reported statistics in lock step with the reported subset (every update of the surviving "
         "index set is followed by recomputation before the loop continues or exits), uses a strict < keep test on the current subset and "
         "the stated termination tests; the weighted median scans the sorted order by remaining weight against half the total; the "
         "summary helper wires min/max/mean/deviation/error from these routines in the right roles.",
    note="Not decided: numerical values, behaviour for zero total weight. Trusted: numpy reductions (sum/mean/std/min/max), searchsorted, sympy normaliser.",
    technique="static analysis: abstract interpretation over a symbolic term domain (reductions as uninterpreted functionals), CFG must-pass-through rules, index-space typing",
)

ST = "esutil.stat.util."
SUM = sp.Function("SUM")


# rules that keep their verdict however the code is laid out (decided by term equality, effect analysis or dominance over
# resolved calls); every other rule of this check is a template rule (vcheck.core.Check.obt)
SEMANTIC = ('R18.clip', 'R18.cov', 'R18.wmom')


def run(chk):
    repo = PyRepo()
    chk.set_templates(repo, semantic=SEMANTIC)
    chk.explanation = MANIFEST["text"]
    chk.trusted = ["numpy reductions and searchsorted", "sympy normaliser", "CPython ast"]
    chk.floor = 40
    wmom(chk, repo)
    interplin(chk, repo)
    covcor(chk, repo)
    clipping(chk, repo)
    wmedian(chk, repo)
    summary(chk, repo)
    boxcar(chk, repo)


def wmom(chk, repo):
    fi = repo.func(ST + "wmom")
    chk.analysed_unit(fi.qualname)
    x, w, m0 = symx.symbols("x", "w", "m0")
    for im in (False, True):
        for calcerr in (False, True):
            for sdev in (False, True):
                se = symx.SymEval(repo, opaque_tests=False)
                se.assume = {"call:isscalar": True, "text:not np.isscalar(werr) and len(werr) < ndim": False}
                args = {"arrin": x, "weights_in": w}
                if im:
                    args["inputmean"] = m0
                r = se.run(fi, args, {"calcerr": calcerr, "sdev": sdev})
                tag = "wmom[inputmean=%s,calcerr=%s,sdev=%s]" % ("given" if im else "None", calcerr, sdev)
                n = 3 if sdev else 2
                if not (isinstance(r, tuple) and len(r) == n):
                    chk.ob("R18.wmom", tag + "::arity", False, fi.where(), "expected %d results, got %r" % (n, r))
                    continue
                mean = m0 if im else SUM(w * x) / SUM(w)
                eq, d = symx.equal(r[0], mean)
                chk.ob("R18.wmom", tag + "::mean", eq, fi.where(), "mean is %s (found %s)" % ("the supplied mean" if im else "sum(w x)/sum(w)", r[0]))
                err = sp.sqrt(SUM(w ** 2 * (x - mean) ** 2)) / SUM(w) if calcerr else 1 / sp.sqrt(SUM(w))
                eq, d = symx.equal(r[1], err)
                chk.ob("R18.wmom", tag + "::error", eq, fi.where(), "error estimate is %s (found %s)" % ("sqrt(sum w^2 (x-m)^2)/sum w" if calcerr else "1/sqrt(sum w)", r[1]))
                if sdev:
                    sd = sp.sqrt(SUM(w * (x - mean) ** 2) / SUM(w))
                    eq, d = symx.equal(r[2], sd)
                    chk.ob("R18.wmom", tag + "::deviation", eq, fi.where(), "weighted deviation is sqrt(sum w (x-m)^2 / sum w) (found %s)" % r[2])
    # replication of element 0 of a statistic (used when 1-d weights give one error for d columns) must be guarded by a length test:
    # unguarded, per-column values are overwritten by column 0's
    cfg0 = cfg_of(fi)
    view0 = cfg0.view()
    for n in cfg0.nodes:
        a = n.ast
        if n.kind == "stmt" and isinstance(a, ast.Assign) and len(a.targets) == 1 and isinstance(a.targets[0], ast.Name):
            t = a.targets[0].id
            if any(isinstance(x_, ast.Subscript) and norm(x_.value) == t and norm(x_.slice) == "0" for x_ in ast.walk(a.value)):
                guards = [tt for tt, lab in rules.controlling_tests(view0, n) if lab == "T"]
                okg = any(("len(%s) <" % t) in g.replace("  ", " ") or ("%s.size <" % t) in g for g in guards)
                chk.ob("R18.wmom", "wmom::replication-of-%s[0]-guarded-by-length" % t, okg, fi.where(a),
                       "`%s` is rebuilt from its own element 0 only when it has fewer entries than there are columns (guards: %s)" % (t, guards))
    # reductions run over axis 0 (N-by-d inputs) and 1-d weights are broadcast over columns
    sums = [x_ for x_ in walk_no_nested(fi.node) if isinstance(x_, ast.Call) and call_name(x_) == "sum"]
    ok = len(sums) >= 4 and all(kwarg(c, "axis") is not None and norm(kwarg(c, "axis")) == "0" for c in sums)
    chk.ob("R18.wmom", "wmom::sums-over-axis-0", ok, fi.where(), "every sum runs over axis 0 (rows), so N-by-d inputs give one value per column (%d sums)" % len(sums))
    cfg = cfg_of(fi)
    view = cfg.view()
    bc = [n for n in cfg.nodes if n.kind == "stmt" and isinstance(n.ast, ast.Assign) and norm(n.ast) == "weights = weights[:, newaxis]"]
    ok = len(bc) == 1 and dict(rules.controlling_tests(view, bc[0])) == {"len(arr.shape) > 1": "T", "len(weights.shape) == 1": "T"}
    chk.ob("R18.wmom", "wmom::1d-weights-broadcast-for-Nd", ok, fi.where(), "1-d weights are given a column axis only for N-by-d data")
    okr = any(("weights.shape != arr.shape", "T") in rules.controlling_tests(view, n) for n in rules.raise_nodes(cfg))
    chk.ob("R18.wmom", "wmom::shape-mismatch-rejected", okr, fi.where(), "1-d data with weights of another shape are rejected")


def interplin(chk, repo):
    fi = repo.func(ST + "interplin")
    chk.analysed_unit(fi.qualname)
    v, x, u = symx.symbols("v", "x", "u")
    se = symx.SymEval(repo, opaque_tests=False)
    r = se.run(fi, {"vin": v, "xin": x, "uin": u}, {})
    SS, SIZE, AT = sp.Function("SEARCHSORTED"), sp.Function("SIZE"), sp.Function("AT")
    k0 = SS(x, u) - 1
    n = SIZE(x)
    k1 = sp.Piecewise((n - 2, k0 >= n - 1), (k0, True))
    k = sp.Piecewise((0, k1 < 0), (k1, True))
    ref = (u - AT(x, k)) * (AT(v, k + 1) - AT(v, k)) / (AT(x, k + 1) - AT(x, k)) + AT(v, k)
    eq, d = symx.equal(r, ref) if isinstance(r, sp.Basic) else (False, r)
    chk.ob("R18.interp", "interplin::formula", eq, fi.where(),
           "result is (u-x_k)(v_{k+1}-v_k)/(x_{k+1}-x_k)+v_k with k = clamp(searchsorted(x,u)-1, 0, n-2)%s" % ("" if eq else " (found %s)" % str(r)[:300]))
    # both clamps present (two-sided): upper to n-2, lower to 0
    if isinstance(r, sp.Basic):
        idx = {a.args[1] for a in r.atoms(AT) if a.args[0] == x}
        base = [i for i in idx if not (i - 1 in idx)]
        txt = str(base[0]) if base else ""
        chk.ob("R18.interp", "interplin::two-sided-index-clamp", "SIZE(x) - 2" in txt and ("(0," in txt), fi.where(),
               "the segment index is clamped to [0, n-2] on both sides (straight-line extension beyond either end)")
    chk.ob("R18.interp", "interplin::inputs-normalised", all(any(isinstance(a, ast.Assign) and norm(a.value) == "np.atleast_1d(%s)" % p for a in walk_no_nested(fi.node)) for p in fi.params), fi.where(),
           "all three inputs pass atleast_1d (scalars accepted)")


def covcor(chk, repo):
    AT = sp.Function("AT")
    i, j = sp.symbols("ix iy", integer=True)
    for q, want in ((ST + "cov2cor", lambda A: A(i, j) / sp.sqrt(A(i, i) * A(j, j))), (ST + "cor2cov", None)):
        fi = repo.func(q)
        chk.analysed_unit(q)
        loops = sorted([x for x in walk_no_nested(fi.node) if isinstance(x, ast.For)], key=lambda x: x.lineno)
        ok = len(loops) == 2 and loops[1] in list(ast.walk(loops[0]))
        chk.ob("R18.cov", fi.name + "::double-loop", ok, fi.where(), "element formula inside a double loop over the matrix")
        if not ok:
            continue
        p0 = fi.params[0]
        rng = (norm(loops[0].iter), norm(loops[1].iter))
        okr = rng in (("range(%s.shape[0])" % p0, "range(%s.shape[1])" % p0), ("range(diagerr.shape[0])", "range(diagerr.shape[0])"))
        chk.ob("R18.cov", fi.name + "::full-index-ranges", okr, fi.where(), "both indices run over the full matrix (%s)" % (rng,))
        # evaluate the loop bodies symbolically with symbolic indices
        se = symx.SymEval(repo, opaque_tests=False)
        env = symx.Env(se, fi, fi.module, {}, {})
        M, E = sp.Symbol("M"), sp.Symbol("E")
        env.vars[p0] = M
        if len(fi.params) > 1:
            env.vars[fi.params[1]] = E
        env.vars[norm(loops[0].target)] = i
        env.vars[norm(loops[1].target)] = j
        out = [a for a in walk_no_nested(fi.node) if isinstance(a, ast.Assign) and isinstance(a.value, ast.Call)
               and call_name(a.value) in ("zeros", "empty", "ones", "zeros_like", "empty_like", "ones_like", "full", "full_like")]
        outn = norm(out[0].targets[0]) if out else "out"
        okal = False
        if len(out) == 1:
            c = out[0].value
            dt = kwarg(c, "dtype") if kwarg(c, "dtype") is not None else (c.args[1] if len(c.args) > 1 and not call_name(c).endswith("_like") else None)
            dts = norm(dt).strip("'\"") if dt is not None else None
            floaty = dts in ("f8", "float64", "float", "np.float64", "numpy.float64", "d")
            if call_name(c).endswith("_like"):
                okal = floaty
            else:
                okal = (dt is None or floaty) and ".shape" in norm(c.args[0])
        chk.ob("R18.cov", fi.name + "::result-is-float64-of-input-shape", okal, fi.where(out[0]) if out else fi.where(),
               "the result matrix is allocated as float64 with the input's shape, never with the input's dtype (an integer covariance would truncate every "
               "correlation to 0): `%s`" % (norm(out[0].value) if out else "no allocation found"))
        env.vars[outn] = sp.Symbol("OUT")
        body0 = [s for s in loops[0].body if s is not loops[1]]
        env.exec_body([s for s in body0 if not isinstance(s, ast.If)], sp.true)
        env.exec_body([s for s in loops[1].body if not isinstance(s, ast.If)], sp.true)
        got = env.elem.get((outn, ("ix", "iy")))
        if fi.name == "cov2cor":
            ref = AT(M, i, j) / sp.sqrt(AT(M, i, i) * AT(M, j, j))
        else:
            ref = AT(M, i, j) * AT(E, i) * AT(E, j)
        eq = got is not None and symx.equal(got, ref)[0]
        chk.ob("R18.cov", fi.name + "::element-formula", bool(eq), fi.where(), "element (i,j) is %s (found %s)" % (ref, got))
        rets = [x for x in walk_no_nested(fi.node) if isinstance(x, ast.Return)]
        chk.ob("R18.cov", fi.name + "::returns-new-matrix", len(rets) == 1 and norm(rets[0].value) == outn, fi.where(), "a newly allocated matrix is returned")
    # symbolic inverse for a positive diagonal: cor2cov(cov2cor(C), sqrt(diag C)) = C
    cii, cjj, cij = sp.symbols("cii cjj", positive=True) + (sp.Symbol("cij", real=True),)
    back = (cij / sp.sqrt(cii * cjj)) * sp.sqrt(cii) * sp.sqrt(cjj)
    chk.ob("R18.cov", "cov->cor->cov::identity", sp.simplify(back - cij) == 0, "esutil/stat/util.py", "with a positive diagonal the two element formulas compose to the identity")
    fi = repo.func(ST + "cov2cor")
    cfg = cfg_of(fi)
    tests = {t for n in rules.raise_nodes(cfg) for t, lab in rules.controlling_tests(cfg.view(), n) if lab == "T"}
    chk.ob("R18.cov", "cov2cor::non-positive-diagonal-rejected", {"cxx <= 0.0", "cyy <= 0.0"} <= tests, fi.where(), "a non-positive diagonal element is rejected (%s)" % sorted(tests))


def clipping(chk, repo):
    fi = repo.func(ST + "sigma_clip")
    chk.analysed_unit(fi.qualname)
    cfg = cfg_of(fi)
    view = cfg.view()
    loop = [n for n in cfg.nodes if n.kind == "loop" and isinstance(n.ast, ast.For)]
    chk.ob("R18.clip", "sigma_clip::iteration-bound", len(loop) == 1 and norm(loop[0].ast.iter) == "range(1, niter + 1)", fi.where(), "at most niter clipping passes (niter=0 gives none)")
    if len(loop) != 1:
        return
    lp = loop[0]
    upd = [n for n in cfg.nodes if n.kind == "stmt" and isinstance(n.ast, ast.Assign) and norm(n.ast.targets[0]) == "indices" and isinstance(n.ast.value, ast.Subscript)]
    stats = [n for n in cfg.nodes if n.kind == "stmt" and isinstance(n.ast, ast.Assign) and isinstance(n.ast.value, ast.Call) and call_name(n.ast.value) == "_get_sigma_clip_stats"]
    subs = [n for n in cfg.nodes if n.kind == "stmt" and isinstance(n.ast, ast.Assign) and isinstance(n.ast.value, ast.Call) and call_name(n.ast.value) == "_get_sigma_clip_subset"]
    chk.ob("R18.clip", "sigma_clip::structure", len(upd) == 1 and len(stats) == 2 and len(subs) == 2, fi.where(), "one index-set update, two subset extractions and two statistics computations (initial + in-loop)")
    if len(upd) == 1:
        u = upd[0]
        chk.ob("R18.clip", "sigma_clip::survivors-are-subset-of-current", norm(u.ast.value) == "indices[w]", fi.where(u.ast), "the surviving set is the current set restricted by the keep mask (indices = indices[w])")
        exits = [cfg.exit, lp]
        for tgt, name in ((lp, "next pass"), (cfg.exit, "return")):
            esc_sub = view.reaches(u, tgt, avoiding=[n for n in subs])
            esc_st = view.reaches(u, tgt, avoiding=[n for n in stats])
            chk.ob("R18.clip", "sigma_clip::lock-step::%s" % name, not esc_sub and not esc_st, fi.where(u.ast),
                   "after the surviving set changes, the subset and its statistics are recomputed before the %s: the reported mean/deviation/error always belong to the reported subset" % name)
    # keep test: strict, on the current subset and current statistics
    keep = [n for n in cfg.nodes if n.kind == "stmt" and isinstance(n.ast, ast.Assign) and isinstance(n.ast.value, ast.Call) and call_name(n.ast.value) == "where" and "nsig" in norm(n.ast.value)]
    ok = len(keep) == 1 and norm(keep[0].ast.value.args[0]).replace("(", "").replace(")", "") == "np.abstarr - m < nsig * s"
    chk.ob("R18.clip", "sigma_clip::strict-keep-test", ok, fi.where(keep[0].ast) if keep else fi.where(), "points are kept when |x - mean| < nsig * deviation, strictly, measured on the current subset (%s)" % (norm(keep[0].ast.value.args[0]) if keep else None))
    brk = [(n, rules.controlling_tests(view, n)) for n in cfg.nodes if n.kind == "stmt" and isinstance(n.ast, ast.Break)]
    conds = sorted(ts[0][0] for n, ts in brk if ts)
    chk.ob("R18.clip", "sigma_clip::termination-tests", conds == ["w.size == 0", "w.size == nold"], fi.where(), "the loop stops when everything would be clipped or nothing changed (%s)" % conds)
    if len(upd) == 1:
        for n, ts in brk:
            chk.ob("R18.clip", "sigma_clip::break-before-update::%s" % ts[0][0], view.reaches(n, upd[0]) is False and not view.reaches(upd[0], n, avoiding=[lp]), fi.where(n.ast), "the early exits are taken before the index set is touched in that pass")
    nold = [norm(n.ast.value) for n in cfg.nodes if n.kind == "stmt" and isinstance(n.ast, ast.Assign) and norm(n.ast.targets[0]) == "nold"]
    chk.ob("R18.clip", "sigma_clip::previous-count-tracked", sorted(nold) == ["arr.size", "w.size"], fi.where(), "nold follows the size of the surviving set (%s)" % nold)
    # result wiring
    apps = [norm(x.args[0]) for x in walk_no_nested(fi.node) if isinstance(x, ast.Call) and call_name(x) == "append" and norm(x.func.value) == "res"]
    chk.ob("R18.clip", "sigma_clip::result-order", apps == ["m", "s", "e", "indices"], fi.where(), "results are appended as mean, deviation, [error], [indices] (%s)" % apps)
    for nm, flag in (("e", "get_err"), ("indices", "get_indices")):
        n = [n for n in cfg.nodes for c in rules.stmts_calls(n) if call_name(c) == "append" and c.args and norm(c.args[0]) == nm]
        ok = len(n) == 1 and rules.controlling_tests(view, n[0])[:1] == [(flag, "T")]
        chk.ob("R18.clip", "sigma_clip::optional-result::%s" % nm, ok, fi.where(), "%s is returned exactly under %s" % (nm, flag))
    tgt = [norm(n.ast.targets[0]) for n in stats]
    chk.ob("R18.clip", "sigma_clip::stats-unpack-order", tgt == ["(m, e, s)", "(m, e, s)"], fi.where(), "statistics are unpacked as (mean, error, deviation) both times")
    st = repo.func(ST + "_get_sigma_clip_stats")
    chk.analysed_unit(st.qualname)
    cfg2 = cfg_of(st)
    env = {}
    for n in cfg2.nodes:
        if n.kind == "stmt" and isinstance(n.ast, ast.Assign):
            env[(norm(n.ast.targets[0]), dict(rules.controlling_tests(cfg2.view(), n)).get("weights is not None"))] = norm(n.ast.value)
    want = {("(m, e, s)", "T"): "wmom(arr, weights, calcerr=True, sdev=True)", ("m", "F"): "arr.mean()", ("s", "F"): "arr.std()", ("e", "F"): "s / np.sqrt(arr.shape[0])"}
    chk.ob("R18.clip", "_get_sigma_clip_stats::definitions", env == want, st.where(), "weighted: wmom(calcerr, sdev) in (mean, error, deviation) order; unweighted: mean, std, std/sqrt(n) (%s)" % env)
    rets = [x for x in walk_no_nested(st.node) if isinstance(x, ast.Return)]
    chk.ob("R18.clip", "_get_sigma_clip_stats::return-order", len(rets) == 1 and norm(rets[0].value) == "(m, e, s)", st.where(), "returns (mean, error, deviation)")
    sb = repo.func(ST + "_get_sigma_clip_subset")
    env = {(norm(x.targets[0]), norm(x.value)) for x in walk_no_nested(sb.node) if isinstance(x, ast.Assign)}
    chk.ob("R18.clip", "_get_sigma_clip_subset::same-indices-for-data-and-weights", ("tarr", "arr[indices]") in env and ("tweights", "weights[indices]") in env, sb.where(), "data and weights are restricted by the same index set")


def wmedian(chk, repo):
    fi = repo.func(ST + "wmedian")
    chk.analysed_unit(fi.qualname)
    sp_ = Spaces(fi, ["arr", "weights"])
    s = sp_.sorter
    chk.ob("R18.wmed", "wmedian::sorted-scan", s is not None, fi.where(), "the scan follows the argsort of the values (sorter %s)" % s)
    if s is None:
        return
    env = {}
    for x in sorted([y for y in walk_no_nested(fi.node) if isinstance(y, ast.Assign)], key=lambda y: y.lineno):
        env.setdefault(norm(x.targets[0]), []).append(norm(x.value))
    ok = env.get("wtot") == ["weights.sum()"] and env.get("wtot2") == ["wtot / 2.0"]
    chk.ob("R18.wmed", "wmedian::half-total", ok, fi.where(), "half of the total weight is the target")
    loops = [x for x in walk_no_nested(fi.node) if isinstance(x, ast.While)]
    ok = len(loops) == 1 and norm(loops[0].test) == "sum > wtot2" and [norm(b) for b in loops[0].body] == ["k += 1", "sum -= weights[%s[k]]" % s]
    chk.ob("R18.wmed", "wmedian::scan", ok, fi.where(), "advance through the sorted order while the remaining weight still exceeds half the total (strict >): stops at the first value whose cumulative weight reaches half")
    ok = env.get("sum") == ["wtot - weights[%s[0]]" % s] and env.get("k") == ["0"]
    chk.ob("R18.wmed", "wmedian::seed", ok, fi.where(), "the scan starts at sorted position 0 with its weight already removed")
    rets = [x for x in walk_no_nested(fi.node) if isinstance(x, ast.Return)]
    chk.ob("R18.wmed", "wmedian::returns-value-at-position", len(rets) == 1 and norm(rets[0].value) == "arr[%s[k]]" % s, fi.where(), "the value at the stopping position (in sorted order) is returned")


def summary(chk, repo):
    fi = repo.func(ST + "get_stats")
    chk.analysed_unit(fi.qualname)
    cfg = cfg_of(fi)
    view = cfg.view()
    env = {}
    for n in cfg.nodes:
        if n.kind == "stmt" and isinstance(n.ast, ast.Assign):
            env.setdefault(norm(n.ast.targets[0]), []).append((norm(n.ast.value), dict(rules.controlling_tests(view, n, skip_reject_guards=True))))
    chk.ob("R18.stats", "get_stats::min-max", [v for v, _ in env.get("amin", [])] == ["arr.min(axis=0)"] and [v for v, _ in env.get("amax", [])] == ["arr.max(axis=0)"], fi.where(), "min and max are those of the data")
    trip = {norm(n.ast.targets[0]): norm(n.ast.value) for n in cfg.nodes if n.kind == "stmt" and isinstance(n.ast, ast.Assign) and isinstance(n.ast.targets[0], ast.Tuple)}
    chk.ob("R18.stats", "get_stats::clipped-roles", trip.get("(mn, std, err)") == "sigma_clip(arr, weights=weights, **kw)", fi.where(), "sigma_clip(get_err) yields (mean, deviation, error) in that order")
    chk.ob("R18.stats", "get_stats::weighted-roles", trip.get("(mn, err, std)") == "wmom(arr, weights, **kw)", fi.where(), "wmom(sdev) yields (mean, error, deviation) in that order")
    kws = {norm(n.ast.targets[0]): norm(n.ast.value) for n in cfg.nodes if n.kind == "stmt" and isinstance(n.ast, ast.Assign) and norm(n.ast.targets[0]).startswith("kw[")}
    chk.ob("R18.stats", "get_stats::options-set", kws == {"kw['get_err']": "True", "kw['sdev']": "True", "kw['calcerr']": "True"}, fi.where(), "get_err / sdev / calcerr are switched on for the delegated calls (%s)" % kws)
    plain = {k: [v for v, ts in vs if ts.get("weights is not None") == "F"] for k, vs in env.items() if k in ("mn", "std", "err")}
    chk.ob("R18.stats", "get_stats::plain-definitions", plain == {"mn": ["arr.mean(axis=0)"], "std": ["arr.std(axis=0)"], "err": ["std / sqrt(arr.shape[0])"]}, fi.where(), "unweighted: mean, std and std/sqrt(N) over rows (%s)" % plain)
    res = [a for a in walk_no_nested(fi.node) if isinstance(a, ast.Assign) and isinstance(a.value, ast.Dict)]
    ok = len(res) == 1 and {norm(k): norm(v) for k, v in zip(res[0].value.keys, res[0].value.values)} == {"'mean'": "mn", "'std'": "std", "'err'": "err", "'min'": "amin", "'max'": "amax"}
    chk.ob("R18.stats", "get_stats::result-keys", ok, fi.where(), "the result dict maps mean/std/err/min/max to the matching quantities")


def boxcar(chk, repo):
    fi = repo.func(ST + "boxcar_average")
    chk.analysed_unit(fi.qualname)
    env = {norm(x.targets[0]): norm(x.value) for x in walk_no_nested(fi.node) if isinstance(x, ast.Assign)}
    rets = [x for x in walk_no_nested(fi.node) if isinstance(x, ast.Return)]
    ok = env.get("kernel") == "ones((N,)) / N" and len(rets) == 1 and norm(rets[0].value) == "convolve(x, kernel)[N - 1:]"
    chk.ob("R18.boxcar", "boxcar_average::normalised-window", ok, fi.where(), "convolution with N equal weights 1/N, dropping the N-1 leading partial sums")
